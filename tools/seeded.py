#!/venv/bin/python
"""Runs the checks against the seeded property-breaking changes kept under /verif/seeded/<id>/.

usage: tools/seeded.py [--tier quick|thorough] [--confirm] [--inplace] [ids...]

Each seeded/<id>/ holds patch.diff, demo.py, meta.json (meta['property'] names the property).
Default: the patch is applied to a scratch copy of /repo under /dev/shm (PYTOUGH_REPO points the check at
it), the property's check is run, and the copy is removed.  --inplace applies to /repo itself
(git -C /repo apply) and undoes it straight afterwards (git -C /repo checkout -- .).
--confirm also re-confirms the seed: demo passes on the clean tree, fails with the patch, pinned suite
still passes with the patch.
Results are written to seeded/RESULTS.json.
"""
import json, os, shutil, subprocess, sys, time

VERIF = os.path.dirname(os.path.dirname(os.path.abspath(__file__)))
REPO = os.environ.get('SEED_BASE', '/repo')
PY = '/venv/bin/python'


def sh(cmd, cwd=None, env=None, timeout=3600):
    e = dict(os.environ)
    if env:
        e.update(env)
    try:
        r = subprocess.run(cmd, cwd=cwd, env=e, capture_output=True, text=True, timeout=timeout)
        return r.returncode, r.stdout + r.stderr
    except subprocess.TimeoutExpired as ex:
        return 124, 'TIMEOUT %s' % ex


def main():
    args = sys.argv[1:]
    tier, confirm, inplace = 'quick', False, False
    ids = []
    while args:
        a = args.pop(0)
        if a == '--tier':
            tier = args.pop(0)
        elif a == '--confirm':
            confirm = True
        elif a == '--inplace':
            inplace = True
        else:
            ids.append(a)
    sdir = os.path.join(VERIF, 'seeded')
    if not ids:
        ids = sorted(d for d in os.listdir(sdir) if os.path.isdir(os.path.join(sdir, d)))
    respath = os.environ.get('SEED_RESULTS', os.path.join(sdir, 'RESULTS.json'))
    results = json.load(open(respath)) if os.path.exists(respath) else {}
    outdir = '/dev/shm/seedrun_out_%d' % os.getpid()
    for sid in ids:
        d = os.path.join(sdir, sid)
        meta = json.load(open(os.path.join(d, 'meta.json')))
        prop = meta['property']
        patch = os.path.join(d, 'patch.diff')
        res = results.setdefault(sid, {})
        res['property'] = prop
        if inplace:
            tree = REPO
            rc, out = sh(['git', '-C', REPO, 'apply', patch])
        else:
            tree = '/dev/shm/seedrun_%s_%d' % (sid, os.getpid())
            shutil.rmtree(tree, ignore_errors=True)
            sh(['rsync', '-a', '--exclude', '.git', REPO + '/', tree + '/'])
            rc, out = sh(['git', 'apply', patch], cwd=tree)
        try:
            if rc != 0:
                res['apply'] = 'FAILED: ' + out[-300:]
                print(sid, 'patch does not apply:', out[-300:])
                continue
            res['apply'] = 'ok'
            if confirm:
                rc0, o0 = sh([PY, os.path.join(d, 'demo.py'), REPO], cwd=REPO, timeout=300) if not inplace else (None, '')
                rc1, o1 = sh([PY, os.path.join(d, 'demo.py'), tree], cwd=tree, timeout=300)
                rcb, ob = sh([PY, os.path.join(VERIF, 'tools', 'run_baseline.py'), tree], timeout=1800)
                res['demo_clean_rc'], res['demo_patched_rc'], res['baseline_patched'] = rc0, rc1, ob.strip().split('\n')[0]
            t0 = time.time()
            rc, out = sh([os.path.join(VERIF, 'vcheck'), prop, tier], cwd=VERIF,
                         env={'PYTOUGH_REPO': tree, 'VERIF_OUT': outdir}, timeout=2400)
            viol = [l for l in out.split('\n') if l.startswith('VIOLATION')]
            sigs = [l.strip() for l in out.split('\n') if l.strip().startswith('sig=')]
            res[tier] = {'exit': rc, 'violations': len(viol), 'first_sig': sigs[0][:300] if sigs else None,
                         'wall_s': round(time.time() - t0, 1)}
            print('%-12s %s %-8s exit=%d violations=%d %s' % (sid, prop, tier, rc, len(viol), (sigs[0][:140] if sigs else '')))
            if rc not in (0, 1):
                print(out[-1500:])
        finally:
            if inplace:
                sh(['git', '-C', REPO, 'checkout', '--', '.'])
            else:
                shutil.rmtree(tree, ignore_errors=True)
        json.dump(results, open(respath, 'w'), indent=1, sort_keys=True)
    shutil.rmtree(outdir, ignore_errors=True)


if __name__ == '__main__':
    main()
