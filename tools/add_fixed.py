#!/venv/bin/python
"""add_fixed.py F74 C04 <commit> <what failed> - appends a fixed entry to known_findings.json"""
import json, sys, subprocess
f, prop, commit, what = sys.argv[1:5]
commit = subprocess.check_output(['git', '-C', '/repo', 'rev-parse', '--short', commit]).decode().strip()
p = '/verif/known_findings.json'; k = json.load(open(p))
opens = [e for e in k['entries'] if e['status'] != 'fixed']; fixed = [e for e in k['entries'] if e['status'] == 'fixed']
fixed.append({'status': 'fixed', 'property': prop, 'commit': commit, 'finding': f, 'what': what,
              'line': 'fixed: property=%s %s %s' % (prop, commit, what)})
k['entries'] = fixed + opens
json.dump(k, open(p, 'w'), indent=1); print(len(fixed), 'fixed', len(opens), 'open')
