#!/venv/bin/python
"""Regenerates MANIFEST.json from the check modules present under checks/ (each carries its own
LEVEL / LEVEL_TEXT / LEVEL_NOTE / TECHNIQUE); properties without a module are listed not_applicable
with the reason recorded in NOT_YET below."""
import importlib, json, os, sys
HERE = os.path.dirname(os.path.dirname(os.path.abspath(__file__)))
sys.path[:0] = [HERE, '/repo']
props = [json.loads(l) for l in open(os.path.join(HERE, 'properties.jsonl'))]
NOT_YET = 'check not built yet in this round; design in DESIGN.md section 6 (bounded exhaustive enumeration applies)'
READY = set(open(os.path.join(HERE, 'checks', 'READY')).read().split())   # checks reviewed and seen to hold on /repo
checks, na = [], []
engines = {}
for p in props:
    pid = p['id']
    if pid not in READY or not os.path.exists(os.path.join(HERE, 'checks', pid.lower() + '.py')):
        na.append({'property_id': pid, 'reason': NOT_YET}); continue
    m = importlib.import_module('checks.' + pid.lower())
    eng = getattr(m, 'ENGINE', 'E2')
    engines.setdefault(eng, []).append(pid)
    checks.append({
        'property_id': pid,
        'quick_cmd': './vcheck %s quick' % pid,
        'thorough_cmd': './vcheck %s thorough' % pid,
        'evidence_file': '/verif/evidence/%s.json' % pid,
        'replay_cmd_template': './vcheck %s --replay {path}' % pid,
        'engine': eng,
        'level_claimed': {'category': m.LEVEL, 'text': m.LEVEL_TEXT, 'design_ref': 'DESIGN.md section 6, ' + pid},
        'level_note': m.LEVEL_NOTE,
        'technique': m.TECHNIQUE})
ENG = {'E1': ('explicit-state search over call sequences', 'mc/engine_seq.py',
              'explicit-state BFS over operation sequences on the real objects with canonical-state hashing, closure detection and a reference model compared on every transition'),
       'E2': ('deviation-bounded configuration enumeration', 'mc/core.py',
              'complete enumeration of finite configuration spaces (crossed dimensions, or a base plus all combinations of <=k deviations) on the real code against a reference model'),
       'E3': ('lattice and limit enumeration', 'mc/core.py',
              'complete enumeration of a stated finite lattice plus the floating-point neighbours of every limit')}
man = {
 'version': 1,
 'setup_cmd': './vcheck --selftest',
 'hooks': {'guard': 'PYTOUGH_VERIF', 'enable': 'vcheck exports PYTOUGH_VERIF=1; no guarded code exists in /repo (all instrumentation is attached from outside by the harness)',
           'baseline_off_cmd': 'cd /repo && env -u PYTOUGH_VERIF /venv/bin/python -m pytest -ra -q -p no:cacheprovider --timeout=900 --continue-on-collection-errors',
           'source_commits': [], 'add_only': True},
 'engines': [{'name': k, 'path': ENG[k][1], 'serves_properties': v, 'kind_free_text': ENG[k][0] + ': ' + ENG[k][2]} for k, v in sorted(engines.items())],
 'checks': checks,
 'notes': 'Every check explores the implementation in /repo directly (imported from the working tree at start-up); known_findings.json lists fixed and open findings; see DESIGN.md.',
 'not_applicable': na}
json.dump(man, open(os.path.join(HERE, 'MANIFEST.json'), 'w'), indent=1); open(os.path.join(HERE, 'MANIFEST.json'), 'a').write('\n')
print('checks:', [c['property_id'] for c in checks]); print('not_applicable:', [n['property_id'] for n in na])
