import json, sys, os
pid = sys.argv[1]
tried = []
for x in ('a', 'b', 'c', 'd'):
    f = '/verif/seeded/%s-%s/meta.json' % (pid, x)
    if os.path.exists(f):
        m = json.load(open(f)); tried.append('%s: %s' % (', '.join(m.get('files_changed', [])) if isinstance(m.get('files_changed'), list) else m.get('files_changed'), str(m.get('summary', ''))[:400]))
notes = {'C10': 'Known pre-existing imperfection of the unchanged tree: the primitives add_column/delete_column/add_layer/delete_layer/add_connection/delete_connection do not refresh the block / connection name lists or num_layers (callers must call setup_block_name_index(), setup_block_connection_name_index(), set_column_num_layers()); keep your demo away from calling those primitives directly without that refresh.',
         'C15': 'Note: the range of `supst(t, p, bounds=True)` is what its own bounds logic states (p <= sat(t) for t <= 374.15 degC, p <= b23p(t) up to 590 degC, p <= 100 MPa above, p > 0), which is wider than IFC-67 region 2 between 350 and 374.15 degC - that is intended.',
         'C18': 'Note: rotate geometries the way the library itself does it - `geo.rotate(a); geo.permeability_angle = -a` - otherwise direction labels near 45 degrees are arbitrary and rectgeo can loop for ever (always use timeouts).'}
src = open('/tmp/seedtools/prompt_%s.txt' % pid).read()
src = src.replace('/tmp/seed_%s' % pid, '/tmp/seed3_%s' % pid).replace('/tmp/seed_out/%s' % pid, '/tmp/seed_out3/%s' % pid)
src = src.replace('call them a and b', 'call them e and f').replace('For each change x in (a, b)', 'For each change x in (e, f)').replace('between a and b', 'between e and f').replace('for a and b, one paragraph', 'for e and f, one paragraph')
extra = '\n\nIMPORTANT: never use `git stash` (it is shared between all the scratch worktrees and collides with other testers); to test on the clean tree use `git diff > /tmp/seed_out3/%s/x.patch; git checkout -- .; ...; git apply /tmp/seed_out3/%s/x.patch`.' % (pid, pid)
extra += '\n\nThis is the THIRD round. Earlier testers already produced the changes below for this property - do NOT repeat them or close variants. This round, prefer the kinds of bug that are hardest to see from single calls: state that leaks between two objects or two calls (module-level or class-level mutable defaults, caches keyed too coarsely, objects shared instead of copied), values left stale by one operation and only read by a later one, behaviour that depends on the ORDER in which things were done or on which route reached a state, two cooperating sites that each look fine alone, and boundary cases of legal inputs (exact zeros, equalities, empty / single-element collections, last element, names or values that exactly fill their field).\n' + '\n'.join(' - ' + t for t in tried)
if pid in notes: extra += '\n\n' + notes[pid]
extra += '\n\nIf you believe you have found a place where the UNCHANGED tree already violates the property, mention it in your final answer (with a 3-line repro) but do not use it as your change.'
open('/tmp/seedtools/prompt3_%s.txt' % pid, 'w').write(src + extra + '\n')
