import json, sys, os, string
pid = sys.argv[1]
props = {json.loads(l)['id']: json.loads(l) for l in open('/verif/properties.jsonl')}
P = props[pid]
used = [x for x in string.ascii_lowercase if os.path.exists('/verif/seeded/%s-%s' % (pid, x))]
letters = [x for x in string.ascii_lowercase if x > max(used)][:2]
k, l = letters
tried = []
for x in string.ascii_lowercase:
    f = '/verif/seeded/%s-%s/meta.json' % (pid, x)
    if os.path.exists(f):
        m = json.load(open(f)); tried.append('%s: %s' % (', '.join(m.get('files_changed', [])) if isinstance(m.get('files_changed'), list) else m.get('files_changed'), str(m.get('summary', ''))[:300]))
notes = {'C10': 'Known pre-existing imperfection of the unchanged tree: the primitives add_column/delete_column/add_layer/delete_layer/add_connection/delete_connection do not refresh the block / connection name lists or num_layers (callers must call setup_block_name_index(), setup_block_connection_name_index(), set_column_num_layers()); keep your demo away from calling those primitives directly without that refresh.',
         'C15': 'Note: the range of `supst(t, p, bounds=True)` is what its own bounds logic states (p <= sat(t) for t <= 374.15 degC, p <= b23p(t) up to 590 degC, p <= 100 MPa above, p > 0), which is wider than IFC-67 region 2 between 350 and 374.15 degC - that is intended.',
         'C18': 'Note: rotate geometries the way the library itself does it - `geo.rotate(a); geo.permeability_angle = -a` - otherwise direction labels near 45 degrees are arbitrary and rectgeo can loop for ever (always use timeouts).'}
src = open(os.path.join(os.path.dirname(os.path.abspath(__file__)), 'prompt_C08.txt')).read()
Q = props['C08']
def block(p):
    return 'TITLE: %s\nSTATEMENT: %s\nFOR ALL: %s\nCODE INVOLVED: %s\n' % (p['title'], p['statement'], p['quantifier']['text'], ', '.join(p['anchors']['files']))
assert block(Q) in src, 'base prompt layout changed'
src = src.replace(block(Q), block(P)).replace('C08', pid)
src = src.replace('/tmp/seed_%s' % pid, '/tmp/seed7_%s' % pid).replace('/tmp/seed_out/%s' % pid, '/tmp/seed_out7/%s' % pid)
src = src.replace('call them a and b', 'call them %s and %s' % (k, l)).replace('For each change x in (a, b)', 'For each change x in (%s, %s)' % (k, l)).replace('between a and b', 'between %s and %s' % (k, l)).replace('for a and b, one paragraph', 'for %s and %s, one paragraph' % (k, l))
extra = '\n\nIMPORTANT: never use `git stash` (it is shared between all the scratch worktrees and collides with other testers); to test on the clean tree use `git diff > /tmp/seed_out7/%s/x.patch; git checkout -- .; ...; git apply /tmp/seed_out7/%s/x.patch`.' % (pid, pid)
extra += '\n\n' + open(os.path.join(os.path.dirname(os.path.abspath(__file__)), 'round7.txt')).read() + '\nAlready done by earlier testers:\n' + '\n'.join(' - ' + t for t in tried)
if pid in notes: extra += '\n\n' + notes[pid]
extra += '\n\nIf you believe you have found a place where the UNCHANGED tree already violates the property, mention it in your final answer (with a 3-line repro) but do not use it as your change.'
open('/tmp/seedtools/prompt7_%s.txt' % pid, 'w').write(src + extra + '\n')
print(pid, k, l)
