#!/venv/bin/python
"""Runs the pinned test suite (command of /root/.vp/BASELINE.json) in the given repo directory with the
hook guard OFF and compares with the 37 stable passes.  usage: run_baseline.py [repo_dir]"""
import json, os, subprocess, sys, tempfile, xml.etree.ElementTree as ET
repo = sys.argv[1] if len(sys.argv) > 1 else '/repo'
base = json.load(open('/root/.vp/BASELINE.json'))
fd, xml = tempfile.mkstemp(suffix='.xml', dir='/dev/shm' if os.path.isdir('/dev/shm') else None); os.close(fd)
env = dict(os.environ); env.pop('PYTOUGH_VERIF', None)
env['PYTHONDONTWRITEBYTECODE'] = '1'
cmd = ['/venv/bin/python', '-m', 'pytest', '-ra', '-q', '-p', 'no:cacheprovider', '--timeout=900',
       '--continue-on-collection-errors', '--junitxml=' + xml]
r = subprocess.run(cmd, cwd=repo, env=env, capture_output=True, text=True)
passed = set()
for tc in ET.parse(xml).getroot().iter('testcase'):
    if not any(ch.tag in ('failure', 'error', 'skipped') for ch in tc):
        passed.add('%s::%s' % (tc.get('classname'), tc.get('name')))
os.remove(xml)
want = set(base['stable_pass'])
missing = sorted(want - passed)
print('passed=%d baseline=%d missing=%d newly_passing=%d' % (len(passed), len(want), len(missing), len(passed - want)))
for m in missing: print('  MISSING', m)
sys.exit(1 if missing else 0)
