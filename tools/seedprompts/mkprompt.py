import json, sys
pid = sys.argv[1]
for l in open('/verif/properties.jsonl'):
    p = json.loads(l)
    if p['id'] == pid: break
print(f"""You are an independent tester. In /tmp/seed_{pid} there is a scratch git worktree of the pure-Python library PyTOUGH (acroucher/PyTOUGH: reading/writing TOUGH2 fixed-format input, MULgraph grid geometry, listing outputs, IAPWS-97 water properties). Work ONLY inside /tmp/seed_{pid} and /tmp/seed_out/{pid}. Do not read or touch /verif or /repo at all.

The library is supposed to satisfy this semantic property:

TITLE: {p['title']}
STATEMENT: {p['statement']}
FOR ALL: {p['quantifier']['text']}
CODE INVOLVED: {', '.join(p['anchors']['files'])}

Your job: produce TWO independent, realistic source changes (bugs a maintainer could plausibly introduce in a refactoring or 'small improvement'), call them a and b, at different sites / with different mechanisms, each of which BREAKS this property while
 (1) the library still imports and runs,
 (2) the existing test suite still passes exactly as before: run `/venv/bin/python /tmp/seedtools/run_baseline.py /tmp/seed_{pid}` - it must print `missing=0` (37 baseline tests pass; about 70 other tests fail for unrelated reasons with or without your change - ignore those),
 (3) the breakage needs something specific to manifest - a particular multi-step sequence of operations, an unusual but legal input (a boundary length, a negative value, a particular option combination, a particular table subset, a region shape), or two cooperating sites that each look fine alone - NOT something that ordinary simple use would expose at once, and not a crash on every call.
Avoid trivial sabotage (raising exceptions unconditionally, returning constants). Prefer off-by-one at a chunk boundary, `<` vs `<=`, a dropped update of a back-reference or cache, a swapped pair, a sign, a wrong index in a table, a stale value not refreshed, handling of only the first/last element, etc.

For each change x in (a, b):
 * make the edit in /tmp/seed_{pid} (start from a clean tree: `git -C /tmp/seed_{pid} checkout -- .` between a and b; the two patches must apply independently to the clean tree),
 * write a demonstration program /tmp/seed_out/{pid}/x/demo.py that takes the library directory as argv[1] (does `sys.path.insert(0, sys.argv[1])` before importing the library; uses data files via that directory if needed; writes any scratch files to a tempfile.mkdtemp() it removes), exits 0 on the unchanged tree and exits 1 printing what went wrong on the changed tree, finishing in under 60 s; it must test the PROPERTY as stated (observable behaviour), not the presence of your edit,
 * confirm: demo passes on clean tree, fails with the change; baseline prints missing=0 with the change,
 * save `git -C /tmp/seed_{pid} diff > /tmp/seed_out/{pid}/x/patch.diff`,
 * write /tmp/seed_out/{pid}/x/meta.json with keys: property, files_changed, summary (one sentence), needs_to_manifest (what specific input/sequence/config is needed), why_tests_pass, commands_run.
Finish with the worktree clean (`git -C /tmp/seed_{pid} checkout -- .`, no stray files). Python is /venv/bin/python; run it with cwd=/tmp/seed_{pid} so the worktree's modules are imported. The environment has no network. Some library calls can hang on bad input - use `timeout` on your commands. Final answer: for a and b, one paragraph each describing the change and what it needs to manifest.""")
