import json, sys, os
pid = sys.argv[1]
for l in open('/verif/properties.jsonl'):
    p = json.loads(l)
    if p['id'] == pid: break
tried = []
for x in ('a', 'b'):
    f = '/verif/seeded/%s-%s/meta.json' % (pid, x)
    if os.path.exists(f):
        m = json.load(open(f)); tried.append('%s: %s' % (', '.join(m.get('files_changed', [])) if isinstance(m.get('files_changed'), list) else m.get('files_changed'), m.get('summary', '')))
notes = {'C10': 'Known pre-existing imperfection of the unchanged tree: the primitives add_column/delete_column/add_layer/delete_layer/add_connection/delete_connection do not refresh the block / connection name lists or num_layers (callers must call setup_block_name_index(), setup_block_connection_name_index(), set_column_num_layers()); keep your demo away from calling those primitives directly without that refresh.'}
src = open('/tmp/seedtools/prompt_%s.txt' % pid).read()
src = src.replace('/tmp/seed_%s' % pid, '/tmp/seed2_%s' % pid).replace('/tmp/seed_out/%s' % pid, '/tmp/seed_out2/%s' % pid)
src = src.replace('call them a and b', 'call them c and d').replace('For each change x in (a, b)', 'For each change x in (c, d)').replace('between a and b', 'between c and d').replace('for a and b, one paragraph', 'for c and d, one paragraph')
extra = '\n\nEarlier testers already produced these changes for this property - do NOT repeat them or close variants; pick different functions / mechanisms / input classes (prefer code paths they did not touch):\n' + '\n'.join(' - ' + t for t in tried)
if pid in notes: extra += '\n\n' + notes[pid]
extra += '\n\nThe library tree you are given has recently received a number of bug fixes; if you believe you have found a place where the UNCHANGED tree already violates the property, mention it in your final answer (with a 3-line repro) but do not use it as your change.'
open('/tmp/seedtools/prompt2_%s.txt' % pid, 'w').write(src + extra + '\n')
