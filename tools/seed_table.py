#!/venv/bin/python
"""Prints the markdown table of seeded changes for DESIGN.md section 10 from seeded/*/meta.json and seeded/RESULTS.json."""
import json, os
d = '/verif/seeded'
res = json.load(open(os.path.join(d, 'RESULTS.json')))
notes = json.load(open(os.path.join(d, 'NOTES.json'))) if os.path.exists(os.path.join(d, 'NOTES.json')) else {}
print('| seed | what the change does (one line, from the tester) | quick | thorough | note |')
print('|---|---|---|---|---|')
for sid in sorted(os.listdir(d)):
    mp = os.path.join(d, sid, 'meta.json')
    if not os.path.exists(mp): continue
    m = json.load(open(mp)); r = res.get(sid, {})
    summ = str(m.get('summary', '')).replace('|', '/').replace('\n', ' ')
    if len(summ) > 230: summ = summ[:227] + '...'
    def cell(t):
        if m.get('status') == 'retired': return 'not counted' if t == 'quick' else ''
        x = r.get(t)
        if not x: return ''
        return {1: 'caught', 0: '**missed**'}.get(x['exit'], 'exit %s' % x['exit']) + (' (%d sig.)' % x['violations'] if x['exit'] == 1 else '')
    note = notes.get(sid, '')
    if m.get('status') == 'retired': note = 'retired: ' + m.get('retired_reason', '')[:120]
    elif m.get('rebased') and not note: note = 'patch rebased after a fix: commit'
    print('| %s | %s | %s | %s | %s |' % (sid, summ, cell('quick'), cell('thorough'), note))
