#!/venv/bin/python
"""Runs every registered check at one tier, one after the other, and records verdict / counts / wall / CPU in
reports/tier_summary.json (used for the as-built table of DESIGN.md).  usage: tools/run_all.py quick|thorough [ids]"""
import json, os, resource, subprocess, sys, time
tier = sys.argv[1]
man = json.load(open('/verif/MANIFEST.json'))
ids = sys.argv[2:] or [c['property_id'] for c in man['checks']]
path = '/verif/reports/tier_summary.json'
summ = json.load(open(path)) if os.path.exists(path) else {}
for pid in ids:
    t0 = time.time(); r0 = resource.getrusage(resource.RUSAGE_CHILDREN)
    r = subprocess.run(['/verif/vcheck', pid, tier], cwd='/verif', capture_output=True, text=True)
    r1 = resource.getrusage(resource.RUSAGE_CHILDREN)
    ev = json.load(open('/verif/evidence/%s.json' % pid))
    cov = ev['coverage']
    summ.setdefault(pid, {})[tier] = {
        'exit': r.returncode, 'wall_s': round(time.time() - t0, 1), 'cpu_s': round((r1.ru_utime - r0.ru_utime) + (r1.ru_stime - r0.ru_stime), 1),
        'level': ev['level'], 'evaluations': cov.get('evaluations'), 'distinct_nontrivial': cov.get('distinct_nontrivial'),
        'states': cov.get('states'), 'transitions': cov.get('transitions'), 'closed': cov.get('closed'), 'max_depth': cov.get('max_depth'),
        'known_findings': len(cov.get('known_findings_reobserved', [])), 'violations': ev.get('violations'),
        'library_commit': cov.get('library_commit'), 'exhaustive': cov.get('exhaustive')}
    print(pid, tier, summ[pid][tier]); sys.stdout.flush()
    json.dump(summ, open(path, 'w'), indent=1, sort_keys=True)
