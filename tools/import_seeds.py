#!/venv/bin/python
"""Copies seeding-agent output /tmp/seed_out/<PID>/<x>/ into /verif/seeded/<PID>-<x>/ (patch.diff, demo.py, meta.json)."""
import json, os, shutil, sys
import sys
src = sys.argv[1] if len(sys.argv) > 1 else '/tmp/seed_out'
for pid in sorted(os.listdir(src)):
    for x in sorted(os.listdir(os.path.join(src, pid))):
        d = os.path.join(src, pid, x)
        if not (os.path.isdir(d) and os.path.exists(os.path.join(d, 'patch.diff')) and os.path.exists(os.path.join(d, 'meta.json'))
                and os.path.exists(os.path.join(d, 'demo.py'))):
            continue
        dst = os.path.join('/verif/seeded', '%s-%s' % (pid, x))
        if os.path.exists(dst):
            continue
        os.makedirs(dst)
        for f in ('patch.diff', 'demo.py'):
            shutil.copy(os.path.join(d, f), dst)
        try:
            meta = json.load(open(os.path.join(d, 'meta.json')))
        except Exception as e:
            meta = {'note': 'agent meta.json unreadable: %s' % e}
        meta['property'] = pid
        meta['origin'] = 'independent sub-agent given only the property text and a scratch worktree'
        json.dump(meta, open(os.path.join(dst, 'meta.json'), 'w'), indent=1)
        print('imported', dst)
