#!/venv/bin/python
"""Saves the final report of every finished build sub-agent (last assistant text of its transcript) under
/verif/reports/, so the as-built facts survive outside the conversation."""
import glob, json, os, re
out = '/verif/reports'
for f in glob.glob('/root/.claude/projects/-verif/*/subagents/agent-*.jsonl'):
    first_user, last_text, reports = None, None, []
    for line in open(f):
        try: d = json.loads(line)
        except Exception: continue
        m = d.get('message', {})
        c = m.get('content')
        if m.get('role') == 'user' and first_user is None:
            first_user = c if isinstance(c, str) else ' '.join(x.get('text', '') for x in c if isinstance(x, dict))
        if m.get('role') == 'assistant' and isinstance(c, list):
            t = '\n'.join(x.get('text', '') for x in c if x.get('type') == 'text').strip()
            if len(t) > 1500: reports.append(t)
    if not first_user or not reports: continue
    mm = re.search(r'Your property ids?: \*\*(C\d+)\*\*(?:.*?\*\*(C\d+)\*\*)?', first_user, re.S)
    if 'AGENT_BRIEF' not in first_user or not mm: continue
    name = 'build-' + '-'.join(x for x in mm.groups() if x)
    with open(os.path.join(out, name + '.md'), 'w') as g:
        for i, r in enumerate(reports):
            g.write('# report %d of %s\n\n%s\n\n' % (i + 1, name, r))
    print(name, len(reports), 'report(s)')
