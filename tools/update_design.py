#!/venv/bin/python
"""Re-generates the seeded-change table of DESIGN.md (between the SEED-TABLE markers)."""
import subprocess
p = '/verif/DESIGN.md'
s = open(p).read()
a, b = '<!-- SEED-TABLE-BEGIN -->', '<!-- SEED-TABLE-END -->'
t = subprocess.run(['/verif/tools/seed_table.py'], capture_output=True, text=True).stdout
i, j = s.index(a) + len(a), s.index(b)
open(p, 'w').write(s[:i] + '\n' + t + s[j:])
print('table rows:', t.count('\n') - 2)
