#!/venv/bin/python
"""Re-generates the seeded-change table of DESIGN.md (between the SEED-TABLE markers)."""
import subprocess
p = '/verif/DESIGN.md'
s = open(p).read()
a, b = '<!-- SEED-TABLE-BEGIN -->', '<!-- SEED-TABLE-END -->'
t = subprocess.run(['/verif/tools/seed_table.py'], capture_output=True, text=True).stdout
i, j = s.index(a) + len(a), s.index(b)
open(p, 'w').write(s[:i] + '\n' + t + s[j:])
print('table rows:', t.count('\n') - 2)

# --- as-built table (section 9) from reports/tier_summary.json
import json, os
sp = '/verif/reports/tier_summary.json'
if os.path.exists(sp):
    summ = json.load(open(sp))
    man = {c['property_id']: c for c in json.load(open('/verif/MANIFEST.json'))['checks']}
    def cell(x):
        if not x: return ''
        if x.get('states'):
            body = '%s states / %s transitions, depth %s%s' % ('{:,}'.format(x['states']), '{:,}'.format(x['transitions']), x.get('max_depth'), ', **closed**' if x.get('closed') else '')
        else:
            body = '%s cases (%s distinct non-trivial)' % ('{:,}'.format(x['evaluations']), '{:,}'.format(x['distinct_nontrivial']))
        return '%s; %.0f s wall, %.0f s CPU' % (body, x['wall_s'], x['cpu_s'])
    rows = ['| id | engine, level | quick | thorough | verdict on the final tree |', '|---|---|---|---|---|']
    for pid in sorted(summ):
        q, t = summ[pid].get('quick'), summ[pid].get('thorough')
        c = man.get(pid, {})
        ver = []
        for name, x in (('quick', q), ('thorough', t)):
            if x: ver.append('%s %s%s' % (name, 'HELD' if x['exit'] == 0 else 'exit %d' % x['exit'], (' (+%d KNOWN-FINDING)' % x['known_findings']) if x.get('known_findings') else ''))
        rows.append('| %s | %s, %s | %s | %s | %s |' % (pid, c.get('engine', ''), (c.get('level_claimed') or {}).get('category', ''), cell(q), cell(t), '; '.join(ver)))
    s = open(p).read()
    a, b = '<!-- ASBUILT-TABLE-BEGIN -->', '<!-- ASBUILT-TABLE-END -->'
    i, j = s.index(a) + len(a), s.index(b)
    open(p, 'w').write(s[:i] + '\n' + '\n'.join(rows) + '\n' + s[j:])
    print('as-built rows:', len(rows) - 2)
