"""Shared plumbing of the explorers: recorder, worker pool, per-case time limits, scratch space.

Nothing here samples: the recorder only counts what the enumerators hand it.
"""
import hashlib
import os
import random
import shutil
import signal
import sys
import tempfile
import time
import traceback
from collections import Counter
from concurrent.futures import ProcessPoolExecutor
from concurrent.futures.process import BrokenProcessPool
import multiprocessing

VERIF = os.path.dirname(os.path.dirname(os.path.abspath(__file__)))
REPO = os.environ.get('PYTOUGH_REPO', '/repo')


class HarnessError(Exception):
    """The check itself is broken (exit status 2), as opposed to the library."""


class CaseTimeout(Exception):
    """A single explored case exceeded its CPU/wall backstop."""


def h64(obj):
    """Stable 64-bit digest of a (repr-able) canonical value."""
    if not isinstance(obj, (bytes, bytearray)):
        obj = repr(obj).encode('utf8', 'backslashreplace')
    return int.from_bytes(hashlib.blake2b(obj, digest_size=8).digest(), 'big')


class timelimit(object):
    """Backstop against hangs in library code on a mutated tree.  Far above what the unchanged
    tree needs; a hit is reported as a 'timeout' violation by the caller, never silently."""

    def __init__(self, seconds):
        self.seconds = seconds

    def _handler(self, signum, frame):
        raise CaseTimeout('case exceeded %.0f s' % self.seconds)

    def __enter__(self):
        # nesting: remember what is left of an enclosing limit and re-arm it on exit
        self.outer_left, _ = signal.getitimer(signal.ITIMER_REAL)
        self.t0 = time.time()
        self.old = signal.signal(signal.SIGALRM, self._handler)
        # re-fire every 50 ms after the first expiry: the library has bare 'except:' clauses that
        # would swallow a single exception and carry on looping
        secs = self.seconds if not self.outer_left else min(self.seconds, self.outer_left)
        signal.setitimer(signal.ITIMER_REAL, max(secs, 1e-3), 0.05)
        return self

    def __exit__(self, *exc):
        signal.setitimer(signal.ITIMER_REAL, 0)
        signal.signal(signal.SIGALRM, self.old)
        if self.outer_left:
            left = self.outer_left - (time.time() - self.t0)
            signal.setitimer(signal.ITIMER_REAL, max(left, 1e-3), 0.05)
        return False


class Rec(object):
    """What one work unit observed.  Merged in the parent."""
    MAX_SAMPLES = 4

    def __init__(self):
        self.evals = 0
        self.distinct = set()
        self.states = set()
        self.transitions = 0
        self.validated = 0
        self.max_depth = 0
        self.closed = None
        self.viol = {}        # sig -> dict(what, case, count)
        self.samples = []
        self.outcomes = Counter()
        self.counters = Counter()
        self.notes = []

    # -- exploration style
    def case(self, key, nontrivial=True, outcome=None):
        self.evals += 1
        if nontrivial:
            self.distinct.add(key if isinstance(key, int) else h64(key))
        if outcome is not None:
            self.outcomes[outcome] += 1

    def bulk(self, n, keys=(), outcome=None):
        """n evaluations whose non-trivial distinct keys are 'keys' (already hashed ints or values)."""
        self.evals += n
        for k in keys:
            self.distinct.add(k if isinstance(k, int) else h64(k))
        if outcome is not None:
            self.outcomes[outcome] += n

    # -- model-checking style
    def state(self, key):
        k = key if isinstance(key, int) else h64(key)
        new = k not in self.states
        self.states.add(k)
        return new

    def transition(self, validated=True):
        self.transitions += 1
        if validated:
            self.validated += 1

    def violation(self, sig, what, case):
        e = self.viol.get(sig)
        if e is None:
            self.viol[sig] = {'what': what, 'case': case, 'count': 1}
        else:
            e['count'] += 1

    def sample(self, obj, force=False):
        if force or len(self.samples) < self.MAX_SAMPLES:
            self.samples.append(obj)

    def count(self, name, n=1):
        self.counters[name] += n

    def merge(self, other):
        self.evals += other.evals
        self.distinct |= other.distinct
        self.states |= other.states
        self.transitions += other.transitions
        self.validated += other.validated
        self.max_depth = max(self.max_depth, other.max_depth)
        if other.closed is not None:
            self.closed = other.closed if self.closed is None else (self.closed and other.closed)
        for sig, e in other.viol.items():
            mine = self.viol.get(sig)
            if mine is None:
                self.viol[sig] = dict(e)
            else:
                mine['count'] += e['count']
        for s in other.samples:
            if len(self.samples) < 8:
                self.samples.append(s)
        self.outcomes.update(other.outcomes)
        self.counters.update(other.counters)
        self.notes.extend(other.notes)


_scratch_root = None


def scratch_root():
    """Per-run scratch directory (tmpfs when available); removed by cleanup()."""
    global _scratch_root
    if _scratch_root is None:
        base = '/dev/shm' if os.path.isdir('/dev/shm') and os.access('/dev/shm', os.W_OK) \
            else tempfile.gettempdir()
        _scratch_root = tempfile.mkdtemp(prefix='pytough-verif-', dir=base)
    return _scratch_root


def scratch():
    """Scratch directory of the calling process (worker)."""
    d = os.path.join(scratch_root(), 'w%d' % os.getpid())
    os.makedirs(d, exist_ok=True)
    return d


def cleanup():
    global _scratch_root
    if _scratch_root and os.path.isdir(_scratch_root):
        shutil.rmtree(_scratch_root, ignore_errors=True)
    _scratch_root = None


def _run_unit(args):
    modname, unit, tier = args
    mod = sys.modules.get(modname) or __import__(modname, fromlist=['x'])
    rec = Rec()
    # backstop: no work unit may run for hours on a mutated tree (checks put much tighter limits
    # around individual cases; this one only guarantees that the run ends and says why)
    limit = getattr(mod, 'UNIT_TIMEOUT', {}).get(tier, 900 if tier == 'quick' else 5400)
    try:
        os.chdir(scratch())
        with timelimit(limit):
            mod.run_unit(unit, tier, rec)
    except CaseTimeout as e:
        rec.violation('%s|unit-timeout|%s' % (mod.ID, _short(unit)),
                      'work unit hung: %s' % e, {'unit': unit})
    except Exception:
        raise HarnessError('unit %r of %s failed:\n%s' % (unit, modname, traceback.format_exc()))
    return rec


def _short(u):
    s = repr(u)
    return s if len(s) < 80 else s[:77] + '...'


def run_units(mod, units, tier, seed=0, workers=None):
    """Run every unit (each a whole sub-search) on a fork pool; returns the merged Rec.
    The seed only permutes the hand-out order; the explored set is the same for every seed."""
    units = list(units)
    order = list(range(len(units)))
    random.Random(seed).shuffle(order)
    total = Rec()
    if workers is None:
        workers = int(os.environ.get('VERIF_WORKERS', '0')) or min(16, os.cpu_count() or 1)
    workers = max(1, min(workers, len(units)))
    scratch_root()
    if workers == 1:
        for i in order:
            total.merge(_run_unit((mod.__name__, units[i], tier)))
        return total
    ctx = multiprocessing.get_context('fork')
    try:
        with ProcessPoolExecutor(max_workers=workers, mp_context=ctx) as ex:
            for rec in ex.map(_run_unit, [(mod.__name__, units[i], tier) for i in order]):
                total.merge(rec)
    except BrokenProcessPool as e:
        raise HarnessError('a worker process died: %s' % e)
    return total


def chunks(seq, n):
    seq = list(seq)
    n = max(1, n)
    k = (len(seq) + n - 1) // n if seq else 0
    return [seq[i * k:(i + 1) * k] for i in range(n) if seq[i * k:(i + 1) * k]]


def load_library():
    """Import PyTOUGH from the working tree (never from a cached copy)."""
    if REPO not in sys.path:
        sys.path.insert(0, REPO)
    import fixed_format_file  # noqa
    f = os.path.realpath(fixed_format_file.__file__)
    if not f.startswith(os.path.realpath(REPO) + os.sep):
        raise HarnessError('library imported from %s, not from %s' % (f, REPO))


def repo_commit():
    import subprocess
    try:
        out = subprocess.run(['git', '-C', REPO, 'rev-parse', '--short', 'HEAD'],
                             capture_output=True, text=True, timeout=20).stdout.strip()
        dirty = subprocess.run(['git', '-C', REPO, 'status', '--porcelain', '--untracked-files=no'],
                               capture_output=True, text=True, timeout=20).stdout.strip()
        return out + ('+dirty' if dirty else '')
    except Exception:
        return 'unknown'
