ID = 'SELFTEST'


def run_unit(unit, tier, rec):
    rec.case(('selftest', unit))
