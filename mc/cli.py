"""./vcheck <ID> quick|thorough   |   ./vcheck <ID> --replay <file>   |   ./vcheck --selftest

exit 0: property held on everything explored (open known findings re-observed are printed as KNOWN-FINDING)
exit 1: at least one violation that known_findings.json does not list (VIOLATION line per violation)
exit 2: the harness itself failed - never to be mistaken for a clean run
"""
import importlib
import json
import os
import subprocess
import sys
import time
import traceback

from . import core
from .core import HarnessError, VERIF

FINDINGS = os.path.join(VERIF, 'known_findings.json')
# evidence/ and replays/ go under VERIF_OUT when set (runs against scratch copies must not overwrite the
# evidence of /repo itself); default /verif
OUT = os.environ.get('VERIF_OUT') or VERIF
MAX_REPORTED = 60


def load_findings(pid):
    try:
        with open(FINDINGS) as f:
            data = json.load(f)
    except FileNotFoundError:
        return {}
    out = {}
    for e in data.get('entries', []):
        if e.get('property') == pid and e.get('status') == 'open':
            out[e['key']] = e
    return out


def validate_evidence(path):
    """Schema validation with jsonschema from the tooling venv when present; structural check otherwise."""
    schema = '/root/.vp/EVIDENCE.schema.json'
    with open(path) as f:
        ev = json.load(f)
    for k in ('property_id', 'tier', 'seed', 'level', 'coverage', 'wall_s'):
        if k not in ev:
            raise HarnessError('evidence lacks %s' % k)
    cov = ev['coverage']
    if ev['level'] == 'model_checking':
        ok = cov.get('states', 0) >= 1 and cov.get('transitions', 0) >= 1 and cov.get('samples')
    else:
        ok = cov.get('evaluations', 0) >= 1 and cov.get('distinct_nontrivial', 0) >= 2 and cov.get('samples') \
            and isinstance(cov.get('rule'), str)
    if not ok:
        raise HarnessError('evidence coverage keys incomplete for level %s' % ev['level'])
    if os.path.exists(schema) and os.environ.get('VERIF_SCHEMA_CHECK', '1') == '1':
        code = ("import json,sys,jsonschema;"
                "jsonschema.validate(json.load(open(sys.argv[1])),json.load(open(sys.argv[2])))")
        try:
            r = subprocess.run(['python3-vt', '-c', code, path, schema], capture_output=True, text=True, timeout=60)
        except (FileNotFoundError, subprocess.TimeoutExpired):
            return
        if r.returncode != 0 and 'ModuleNotFoundError' not in r.stderr:
            raise HarnessError('evidence does not validate: %s' % r.stderr[-800:])


def jsonable(x):
    try:
        json.dumps(x)
        return x
    except TypeError:
        if isinstance(x, dict):
            return {str(k): jsonable(v) for k, v in x.items()}
        if isinstance(x, (list, tuple, set, frozenset)):
            return [jsonable(v) for v in x]
        try:
            import numpy as np
            if isinstance(x, np.generic):
                return x.item()
            if isinstance(x, np.ndarray):
                return x.tolist()
        except Exception:
            pass
        return repr(x)


def write_evidence(mod, tier, seed, rec, wall, nviol, extra):
    cov = {}
    level = mod.LEVEL
    if level == 'model_checking':
        cov['states'] = len(rec.states)
        cov['transitions'] = rec.transitions
        cov['traces_validated_against_impl'] = rec.validated
        cov['max_depth'] = rec.max_depth
        cov['closed'] = bool(rec.closed)
    cov['evaluations'] = rec.evals if rec.evals else rec.transitions
    cov['distinct_nontrivial'] = len(rec.distinct) if rec.distinct else len(rec.states)
    cov['rule'] = mod.RULE
    cov['samples'] = jsonable(rec.samples)
    cov['exhaustive'] = bool(getattr(mod, 'EXHAUSTIVE', True)) and not rec.counters.get('cap_hit')
    cov['distinct_outcomes'] = {str(k): v for k, v in sorted(rec.outcomes.items(), key=lambda kv: str(kv[0]))}
    cov['counters'] = {str(k): v for k, v in sorted(rec.counters.items())}
    if rec.notes:
        cov['notes'] = rec.notes[:20]
    bounds = getattr(mod, 'BOUNDS', None)
    if bounds:
        cov['bounds'] = bounds.get(tier, bounds) if isinstance(bounds, dict) else bounds
    cov.update(jsonable(extra or {}))
    cov['library_commit'] = core.repo_commit()
    ev = {'property_id': mod.ID, 'tier': tier, 'seed': seed, 'level': level, 'coverage': cov,
          'assumptions': list(getattr(mod, 'ASSUMPTIONS', [])), 'wall_s': round(wall, 3), 'violations': nviol}
    os.makedirs(os.path.join(OUT, 'evidence'), exist_ok=True)
    path = os.path.join(OUT, 'evidence', '%s.json' % mod.ID)
    tmp = path + '.tmp%d' % os.getpid()
    with open(tmp, 'w') as f:
        json.dump(ev, f, indent=1, sort_keys=True)
        f.write('\n')
    os.replace(tmp, path)
    validate_evidence(path)
    return path


def get_mod(pid):
    try:
        return importlib.import_module('checks.%s' % pid.lower())
    except ModuleNotFoundError as e:
        if ('checks.%s' % pid.lower()) in str(e):
            raise HarnessError('no check for %s' % pid)
        raise


def do_replay(pid, path):
    mod = get_mod(pid)
    with open(path) as f:
        rp = json.load(f)
    os.chdir(core.scratch())
    found = mod.replay(rp['case'])
    for sig, what in found:
        print('REPLAY-VIOLATION property=%s sig=%s :: %s' % (pid, sig, what))
    if not found:
        print('REPLAY-OK property=%s (case does not violate on this tree)' % pid)
    return 1 if found else 0


def do_check(pid, tier, seed):
    mod = get_mod(pid)
    t0 = time.time()
    # replays of earlier runs of this check are stale by definition
    rdir = os.path.join(OUT, 'replays')
    if os.path.isdir(rdir):
        for f in os.listdir(rdir):
            if f.startswith(pid + '-') and f.endswith('.json'):
                os.remove(os.path.join(rdir, f))
    units = mod.units(tier)
    if not units:
        raise HarnessError('no work units')
    rec = core.run_units(mod, units, tier, seed)
    extra = {}
    if hasattr(mod, 'finalize'):
        extra = mod.finalize(rec, tier) or {}
    known = load_findings(pid)
    new, seen_known = [], []
    for sig in sorted(rec.viol):
        (seen_known if sig in known else new).append(sig)
    for sig in seen_known:
        print('KNOWN-FINDING: property=%s %s [key=%s; %d case(s) this run]'
              % (pid, known[sig]['what'], sig, rec.viol[sig]['count']))
    status = 0
    if new:
        status = 1
        os.makedirs(os.path.join(OUT, 'replays'), exist_ok=True)
        for sig in new[:MAX_REPORTED]:
            e = rec.viol[sig]
            name = '%s-%016x.json' % (pid, core.h64(sig))
            path = os.path.join(OUT, 'replays', name)
            with open(path, 'w') as f:
                json.dump({'property': pid, 'sig': sig, 'what': e['what'], 'count': e['count'],
                           'case': jsonable(e['case']), 'library_commit': core.repo_commit(),
                           'replay_cmd': './vcheck %s --replay replays/%s' % (pid, name)}, f, indent=1)
                f.write('\n')
            print('VIOLATION property=%s replay=%s' % (pid, path))
            print('  sig=%s (%d case(s)) :: %s' % (sig, e['count'], str(e['what'])[:600]))
        if len(new) > MAX_REPORTED:
            print('  ... and %d further violation signatures (not written out)' % (len(new) - MAX_REPORTED))
    wall = time.time() - t0
    extra['known_findings_reobserved'] = seen_known
    extra['violation_signatures'] = new[:50]
    path = write_evidence(mod, tier, seed, rec, wall, len(new), extra)
    lvl = mod.LEVEL
    if lvl == 'model_checking':
        print('%s %s: states=%d transitions=%d validated=%d max_depth=%d closed=%s outcomes=%d wall=%.1fs'
              % (pid, tier, len(rec.states), rec.transitions, rec.validated, rec.max_depth, rec.closed,
                 len(rec.outcomes), wall))
    else:
        print('%s %s: evaluations=%d distinct_nontrivial=%d outcomes=%d wall=%.1fs'
              % (pid, tier, rec.evals, len(rec.distinct), len(rec.outcomes), wall))
    print('%s: %s; evidence=%s' % (pid, 'HELD' if status == 0 else 'VIOLATED', path))
    return status


def selftest():
    core.load_library()
    d = core.scratch()
    with open(os.path.join(d, 'probe'), 'w') as f:
        f.write('x')

    class M:
        __name__ = 'mc.selftest_unit'
    import mc.selftest_unit as m
    rec = core.run_units(m, list(range(32)), 'quick', 0)
    if rec.evals != 32 or len(rec.distinct) != 32:
        raise HarnessError('pool self-test failed')
    load_findings('C01')
    print('selftest ok: library from %s @ %s, scratch %s, %d cpus'
          % (core.REPO, core.repo_commit(), os.path.dirname(d), os.cpu_count()))
    return 0


def main(argv):
    try:
        core.load_library()
        if not argv or argv[0] in ('-h', '--help'):
            print(__doc__)
            return 2
        if argv[0] == '--selftest':
            return selftest()
        pid = argv[0].upper()
        if len(argv) >= 3 and argv[1] == '--replay':
            return do_replay(pid, argv[2])
        tier = argv[1] if len(argv) > 1 else os.environ.get('VERIF_TIER', 'quick')
        if tier not in ('quick', 'thorough'):
            raise HarnessError('tier must be quick or thorough')
        seed = int(os.environ.get('VERIF_SEED', '0') or 0)
        return do_check(pid, tier, seed)
    except HarnessError as e:
        print('HARNESS-ERROR %s' % e, file=sys.stderr)
        return 2
    except Exception:
        print('HARNESS-ERROR unexpected:\n%s' % traceback.format_exc(), file=sys.stderr)
        return 2
    finally:
        core.cleanup()


if __name__ == '__main__':
    sys.exit(main(sys.argv[1:]))
