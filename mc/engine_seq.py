"""E1 - explicit-state breadth-first search over call sequences, on the real objects.

A *state* is whatever the check bundles (normally the real library object plus its reference model).
The engine never looks inside it: it clones, applies one operation, asks the check for violations on
that transition, canonicalises, de-duplicates and goes on - to a depth bound or to closure.

    bfs(rec, pid, seed_name, seed_state, ops_of, step, canon, max_depth, ...)

ops_of(state, depth)      -> iterable of JSON-able operation descriptors enabled in that state
step(state, op)           -> list of (sig, what) violations; mutates 'state' (a private clone) in place.
                             A transition with violations is *not* expanded (error states have no
                             successors) unless step returns them with continue_after=True semantics by
                             putting 'remedied' handling inside step itself.
canon(state)              -> hashable canonical form (everything future behaviour can depend on)
clone(state)              -> independent copy (default deepcopy); for objects that cannot be copied pass
                             rebuild=(seed_factory) and the engine replays the history on a fresh seed.
"""
import copy

from . import core


def bfs(rec, pid, seed_name, seed_state, ops_of, step, canon, max_depth, clone=copy.deepcopy,
        rebuild=None, first_ops=None, sample_every=0, state_check=None, max_states=None):
    """Returns (states_seen_in_this_search, closed)."""
    seen = set()
    k0 = core.h64(canon(seed_state))
    seen.add(k0)
    rec.state(k0)
    if state_check is not None:
        for sig, what in state_check(seed_state) or ():
            rec.violation(sig, what, {'seed': seed_name, 'ops': []})
    # frontier entries: (state or None when rebuilt by replay, history)
    frontier = [(None if rebuild else seed_state, [])]
    closed = False
    depth = 0
    while frontier and depth < max_depth:
        nxt = []
        for st, hist in frontier:
            if rebuild:
                st = _replay(rebuild, step, hist)
            ops = list(ops_of(st, depth))
            if depth == 0 and first_ops is not None:
                ops = [op for i, op in enumerate(ops) if i in first_ops]
            for op in ops:
                if rebuild:
                    s2 = _replay(rebuild, step, hist)
                else:
                    s2 = clone(st)
                with core.timelimit(120):
                    try:
                        viol = step(s2, op)
                    except core.CaseTimeout:
                        viol = [('%s|timeout|%s' % (pid, _opname(op)), 'operation did not return within 120 s')]
                rec.transition(validated=True)
                h2 = hist + [op]
                if viol:
                    for sig, what in viol:
                        rec.violation(sig, what, {'seed': seed_name, 'ops': h2})
                    rec.outcomes['violating-transition'] += 1
                    continue
                k = core.h64(canon(s2))
                if k not in seen:
                    seen.add(k)
                    rec.state(k)
                    nxt.append((None if rebuild else s2, h2))
                    if len(rec.samples) < rec.MAX_SAMPLES and (not sample_every or len(seen) % sample_every == 0):
                        rec.sample({'seed': seed_name, 'ops': h2})
                    if max_states and len(seen) >= max_states:
                        rec.count('cap_hit')
                        rec.notes.append('state cap %d hit from seed %s at depth %d' % (max_states, seed_name, depth + 1))
                        rec.max_depth = max(rec.max_depth, depth + 1)
                        return seen, False
        depth += 1
        rec.max_depth = max(rec.max_depth, depth if nxt else depth)
        rec.count('states_new_at_depth_%d' % depth, len(nxt))
        frontier = nxt
        if not nxt:
            closed = True
    if frontier and depth >= max_depth:
        closed = False
    cl = closed
    rec.closed = cl if rec.closed is None else (rec.closed and cl)
    return seen, closed


def _replay(rebuild, step, hist):
    st = rebuild()
    for op in hist:
        step(st, op)
    return st


def _opname(op):
    if isinstance(op, (list, tuple)) and op:
        return str(op[0])
    if isinstance(op, dict):
        return str(op.get('op', '?'))
    return str(op)
