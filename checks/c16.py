"""C16 - the Fortran number readers read Fortran's meaning and never raise.

Space (enumerated completely, nothing sampled):
  E  reals  sign x decimal exponent x 1..17 mantissa digits (digits of 1.2345678901234567 and of 9.99..9) rendered by
            ref/fortnum.render_E in every output style (letter E/e/D/d x 0.ddd / d.ddd x leading zero or not x explicit
            plus x blank for plus in the exponent x letter dropped for 3-digit exponents), each text with a blank in
            every single gap, padded left / right to the field width 20 and a few combined blank placements;
  F  reals  the same mantissas at exponents -8..12 rendered by render_F with 0..8 decimals (plus sign, leading zero);
  I  integers 0, +-10^(k-1), +-(10^k - 1), +-123..k for k = 1..9, with and without '+', with EVERY subset of gaps
            holding a blank, and padded to width 20;
  E2 every E-text of a boundary exponent set with a blank in every PAIR of gaps;
  S  every string of length <= 6 (quick: <= 5) over the 18-letter alphabet 019.+-eEdD' '*anif_x, to both readers;
  R  every E-text of a boundary value set with one character replaced by every alphabet letter (thorough: every
            printable ASCII character) at every position, to both readers;
  B  blank fields of width 0..20 x blank values, overflow asterisks of width 1..20, NaN / Infinity as Fortran prints them.
  T  the readers as the file parsers use them: a boundary subset of the texts (and exact zeros, asterisks, blanks) in every
     variable position of an initial-conditions file - each of the four columns of a full line and the LAST value of a
     line of 1, 2, 3 values; six-variable blocks over two lines - and in the porosity / nseq / nadd fields, parsed by
     fixed_format_file.parse_string (objects sharing one format table) and by t2incon(filename) (in a forked child, so
     that 'first in the process' is first), with the plain and the Fortran read functions in BOTH orders
     (plain, Fortran, plain) / (Fortran, plain, Fortran): every object must give what its own read function gives for
     the cell text, whatever was opened before (order independence), and the Fortran cells obey the C16 oracle.
  TE the same records as the LAST record of an incon file that ends with a newline and a blank record / a newline only /
     nothing at all, read through fixed_format_file.read_values (both reader tables) and t2incon(filename);
  H  the results header of a shipped AUTOUGH2 listing (' OUTPUT AFTER<I4> TIME STEPS <time> SECONDS') rewritten, for the
     first and the last result set, with Fortran renderings of the step (digits, sign, blanks, overflow asterisks) and of
     the time: the listing must open and step / time at that result set must be what fortran_int / fortran_float give
     for the field texts (quick: one field varied at a time; thorough: crossed).
  P  caller history: the same text read by every reader entry point (43: each blank value, the partials, the default
     readers, every entry of both dictionaries and of a third table, parse_string through parsers of 4 format tables x 3
     reader tables, t2incon(filename) x 3, t2historyfile, the listing table line) in every order of two callers (one
     forked child per first caller): each caller gives its own answer, and the same answer every time.
Oracle: ref/c16ref.judge_real / judge_int (the property statement; large don't-care class for malformed text).
"""
import contextlib
import io
import math
import os

from mc import core
from ref import fortnum
from ref import c16ref as R

ID = 'C16'
LEVEL = 'exploration'
ENGINE = 'E3'
EXHAUSTIVE = True
RULE = ('reals: every (sign, decimal exponent, mantissa length 1..17, digit pattern 123../99..) x every distinct E-style text '
        '(4 letters x 2 scales x leading zero x plus x blank-for-plus x dropped letter) x blank placements (every single gap, '
        'field padding, combined), F-style texts with 0..8 decimals; integers at every digit-count boundary 1..9 digits x every '
        'subset of gaps blanked; boundary E-texts with every pair of gaps blanked; every string over the 18-letter alphabet up to the length bound; every one-character '
        'replacement of the boundary E-texts; blank fields and overflow fields of every width 0..20. A case is one text '
        'handed to one reader; file route: each text in each variable position / as last value of a line of an incon file, '
        'read by plain-reader and Fortran-reader objects in both orders within one process; caller history: every ordered pair of 43 reader entry points on the same texts, each first caller in a fresh forked child; distinct = distinct (reader, text without its blank padding variants); non-trivial = the '
        'statement fixes the result (value, NaN/None or blank value), i.e. not in the don\'t-care class')
ASSUMPTIONS = ['only text (str) is handed to the readers; blank means the space character',
               'reference value of a text is ref/fortnum.parse_real / parse_int: blanks ignored (BN editing), exact decimal '
               '-> nearest double',
               'for malformed text that neither Python nor the named Fortran forms cover, any float or None (int or None) is '
               'accepted (DESIGN 4.1); the letter-less exponent is asserted only for exactly three digits after a mantissa '
               'that contains a point',
               'characters that can occur in a number: digits + - . e E d D blank _ and the letters of inf/nan/infinity; text '
               'containing any other character must give NaN / None']

QUICK_EXP = [-300, -299, -200, -111, -110, -102, -101, -100, -99, -98, -38, -11, -10, -9, -2, -1, 0, 1, 2, 9, 10, 11, 38,
             98, 99, 100, 101, 102, 110, 111, 200, 299, 300]
SUBST_EXP = {'quick': [-300, -100, -99, 0, 99, 100, 300], 'thorough': [-300, -101, -100, -99, -10, -1, 0, 1, 10, 99, 100, 101, 300]}
SUBST_LEN = {'quick': [1, 2, 17], 'thorough': [1, 2, 9, 16, 17]}
BOUNDS = {'quick': {'file_route': 'E-texts of exponents [-100, 0, 300] x lengths [1, 7] that fit the field + zeros/asterisks/ints; 2 orders',
                    'E_exponents': 'boundary set of %d decimal exponents in -300..300' % len(QUICK_EXP),
                    'E_blank_placements': 'every single gap + padding + combined',
                    'strings': 'all of length <= 5 over 18 letters',
                    'E_two_blanks': 'every pair of gaps (same gap included) of every E-text of exponents %r x mantissa lengths %r' % ([-300, -100, -99, 0, 99, 100, 300], [1, 2, 7, 17]),
                    'caller_history': '43 reader entry points (each blank value, partials, both dictionaries + a third table, parse_string x 4 format tables x 3 reader tables, t2incon(filename) x 3, t2historyfile, listing table line) x every ordered pair, one forked child per first caller; texts: blanks of 8 widths, zeros, boundary forms, every 7th file-route text',
                    'replacement_letters': '18-letter alphabet', 'replacement_base': 'exponents %r x lengths %r' % (SUBST_EXP['quick'], SUBST_LEN['quick'])},
          'thorough': {'file_route': 'E-texts of 9 boundary exponents x lengths [1, 7] that fit the field + zeros/asterisks/ints; 2 orders',
                       'E_exponents': 'all 601 decimal exponents -300..300',
                       'E_blank_placements': 'every single gap + padding + combined',
                       'strings': 'all of length <= 6 over 18 letters',
                       'E_two_blanks': 'every pair of gaps (same gap included) of every E-text of the %d boundary exponents x mantissa lengths 1..17' % len(QUICK_EXP),
                       'caller_history': '43 reader entry points x every ordered pair, one forked child per first caller; texts: blanks of widths 0..24, zeros, boundary forms, every file-route text of the thorough tier',
                       'replacement_letters': '95 printable ASCII characters',
                       'replacement_base': 'exponents %r x lengths %r' % (SUBST_EXP['thorough'], SUBST_LEN['thorough'])}}

TECHNIQUE = ('bounded exhaustive enumeration of printed-number forms and of all short strings on the real readers against a '
             'reference Fortran number grammar')
LEVEL_TEXT = ('Every Fortran output style of every (sign, exponent -300..300, 1..17 digits) real and of every digit-count boundary '
              'integer, with blanks in every position, every string up to length 5 over an 18-letter alphabet chosen to hit '
              'each branch of the fallback cascade (length 6 in the thorough tier), and every one-character corruption of the boundary renderings are handed '
              'to the real fortran_float / fortran_int; nothing is sampled.')
LEVEL_NOTE = ('Trusted: ref/fortnum.py grammar and renderers. Mantissa digit patterns are two (123.. and 99..); strings longer '
              'than 6 (quick 5) are covered only as renderings and their one-character replacements; malformed text has a don\'t-care result.')


class _Sentinel(object):
    def __repr__(self):
        return '<blank-sentinel>'


SENT = _Sentinel()
FN = {}


def fns():
    if not FN:
        import fixed_format_file as fff
        FN['fortran_float'] = fff.fortran_float
        FN['fortran_int'] = fff.fortran_int
        FN['fortran_read_float'] = fff.fortran_read_float
        FN['fortran_read_int'] = fff.fortran_read_int
        FN['dict_float'] = fff.fortran_read_function['e']
        FN['dict_int'] = fff.fortran_read_function['d']
    return FN


def units(tier):
    us = [('B',), ('I',), ('F',)]
    exps = list(range(-300, 301)) if tier == 'thorough' else QUICK_EXP
    per = 5 if tier == 'thorough' else 3
    for i in range(0, len(exps), per):
        us.append(('E', tuple(exps[i:i + per])))
    us.append(('S', 0, ''))            # lengths 0..3
    for c in R.ALPHABET:
        us.append(('S', 4, c))
    for a in R.ALPHABET:
        for b in R.ALPHABET:
            us.append(('S', 5, a + b))
    if tier == 'thorough':
        for a in R.ALPHABET:
            for b in R.ALPHABET:
                us.append(('S', 6, a + b))
    for e in GAP2_EXP[tier]:
        us.append(('E2', e))
    for e in SUBST_EXP[tier]:
        for n in SUBST_LEN[tier]:
            us.append(('R', e, n))
    us.append(('R', 'int', 0))
    us.append(('R', 'fixed', 0))
    # the readers as the file parsers use them, in both orders of (plain readers, Fortran readers) within one process
    for order in FILE_ORDERS:
        us.append(('T', order))
    for ending in FILE_ENDINGS:
        us.append(('TE', ending))
    for which_set in ('first', 'last'):
        us.append(('H', which_set))
    us.append(('HF',))
    for first in _PAIR_NAMES:
        us.append(('P', first))
    return us


# ---------------------------------------------------------------------------------------------------------

def call(name, s, blank):
    """-> ('ok', result) or ('raised', exception)."""
    f = fns()[name]
    try:
        if blank == 'default':
            return 'ok', f(s)
        if blank == 'none':
            return 'ok', f(s, None)
        if blank == 'sentinel':
            return 'ok', f(s, SENT)
        return 'ok', f(s, blank)
    except core.CaseTimeout:
        raise
    except BaseException as e:            # the statement: no text whatsoever makes the readers raise
        if isinstance(e, (KeyboardInterrupt, SystemExit)):
            raise
        return 'raised', e


def eval_text(name, s, blank='sentinel'):
    """One text to one reader under the full oracle.  -> (list of (sig, what), outcome class)."""
    real = 'float' in name
    st, got = call(name, s, blank)
    icl = R.input_class(s)
    if st == 'raised':
        return [('C16|%s|raises-%s|%s' % (name, type(got).__name__, icl),
                 '%s(%r) raised %s: %s' % (name, s, type(got).__name__, got))], 'raised'
    if blank == 'sentinel':
        sent = SENT
    elif blank == 'none':
        sent = None
    elif blank == 'default':
        sent = _Default
    else:
        sent = blank
    cls, val = (R.expect_real if real else R.expect_int)(s)
    if sent is _Default or (sent is None and cls != R.BLANK):
        # default blank value (0.0 / 0) or None cannot be told apart from a legitimate result of non-blank text:
        # judge with a sentinel that never matches, except for the blank class
        if cls == R.BLANK:
            want = (0.0 if real else 0) if sent is _Default else None
            ok = (got is None) if want is None else (type(got) is type(want) and got == want and
                                                     (not real or math.copysign(1, got) == 1))
            return ([] if ok else [('C16|%s|blank-value|blank' % name,
                                    '%s(%r) with %s blank value returned %r, expected %r'
                                    % (name, s, 'the default' if sent is _Default else 'None', got, want))]), cls
        j = (R.judge_real if real else R.judge_int)(s, got, _Never)
    else:
        j = (R.judge_real if real else R.judge_int)(s, got, sent)
    if j is None:
        return [], cls
    clause, want = j
    return [('C16|%s|%s|%s' % (name, clause, icl),
             '%s(%r) returned %r, expected %s' % (name, s, got, want))], cls


class _D(object):
    pass


_Default = _D()
_Never = _D()


def report(rec, viol, name, s, blank):
    for sig, what in viol:
        rec.violation(sig, what, {'fn': name, 's': s, 'blank': blank if isinstance(blank, str) else repr(blank)})


def run_B(tier, rec):
    n = 0
    keys = set()
    for name in ('fortran_float', 'fortran_int'):
        for w in range(0, 21):
            s = ' ' * w
            for blank in ('default', 'none', 'sentinel'):
                v, cls = eval_text(name, s, blank)
                report(rec, v, name, s, blank)
                n += 1
                keys.add(hash((name, s, blank)))
                rec.outcomes[cls] += 1
        for w in range(1, 21):
            for s in ('*' * w, ('*' * w).rjust(20), '-' + '*' * (w - 1), '*' * (w - 1) + '.'):
                v, cls = eval_text(name, s)
                report(rec, v, name, s, 'sentinel')
                n += 1
                keys.add(hash((name, s)))
                rec.outcomes[cls] += 1
        for sp in ('NaN', 'nan', 'NAN', 'Infinity', '+Infinity', '-Infinity', 'Inf', '+Inf', '-Inf', 'INF', 'inf', '-inf'):
            for s in R.blank_variants(sp, 20, every_gap=False)[:6]:
                if ' ' in s.strip(' '):
                    continue
                v, cls = eval_text(name, s)
                report(rec, v, name, s, 'sentinel')
                n += 1
                keys.add(hash((name, s)))
                rec.outcomes[cls] += 1
    # the partial applications the file parsers actually use: blank -> None, text as the plain readers
    for name, base in (('fortran_read_float', 'fortran_float'), ('dict_float', 'fortran_float'),
                       ('fortran_read_int', 'fortran_int'), ('dict_int', 'fortran_int')):
        texts = [' ' * w for w in range(0, 21)] + ['1.5', ' 0.1D+01', '-.25-101', '12', ' 1 2', '-7', '***', '1x', '0.1E 05']
        for s in texts:
            st, got = call(name, s, 'default')
            n += 1
            keys.add(hash((name, s)))
            if st == 'raised':
                rec.violation('C16|%s|raises-%s|%s' % (name, type(got).__name__, R.input_class(s)),
                              '%s(%r) raised %r' % (name, s, got), {'fn': name, 's': s, 'blank': 'default'})
                continue
            j = (R.judge_real if 'float' in name else R.judge_int)(s, got, None if not s.strip(' ') else _Never)
            if j is not None:
                rec.violation('C16|%s|%s|%s' % (name, j[0], R.input_class(s)),
                              '%s(%r) returned %r, expected %s' % (name, s, got, j[1]),
                              {'fn': name, 's': s, 'blank': 'default'})
    rec.bulk(n, keys)
    rec.count('blank_and_overflow_cases', n)
    rec.sample({'text': ' ' * 7, 'fortran_float(text, None)': repr(fns()['fortran_float'](' ' * 7, None)),
                'text2': '*' * 10, 'fortran_float(text2)': repr(fns()['fortran_float']('*' * 10))})


def rendered_text_loop(rec, name, core_text, want, variants, is_real):
    """Fast path for texts whose reference value is known: exact comparison."""
    f = fns()[name]
    n = 0
    for t in variants:
        n += 1
        try:
            got = f(t)
        except core.CaseTimeout:
            raise
        except Exception as e:
            rec.violation('C16|%s|raises-%s|%s' % (name, type(e).__name__, R.input_class(t)),
                          '%s(%r) raised %s: %s' % (name, t, type(e).__name__, e),
                          {'fn': name, 's': t, 'blank': 'default'})
            continue
        if is_real:
            ok = isinstance(got, float) and got == want and (want != 0 or math.copysign(1, got) == math.copysign(1, want))
        else:
            ok = type(got) is int and got == want
        if not ok:
            rec.violation('C16|%s|value|%s' % (name, R.input_class(t)),
                          '%s(%r) returned %r, Fortran reads %r' % (name, t, got, want),
                          {'fn': name, 's': t, 'blank': 'default'})
    return n


def run_E(exps, tier, rec):
    n = ncores = 0
    keys = set()
    fi = 'fortran_int'
    for sign, digs, e, value in R.real_values(exps):
        for c in R.e_renderings(value, len(digs)):
            pr = fortnum.parse_real(c)
            if pr is None or pr[0] == 'blank':
                raise core.HarnessError('reference grammar does not read its own rendering %r' % c)
            want = pr[0]
            if len(digs) <= 15 and want != value:
                raise core.HarnessError('reference rendering %r of %r reads back %r' % (c, value, want))
            ncores += 1
            keys.add(hash(c))
            n += rendered_text_loop(rec, 'fortran_float', c, want, R.blank_variants(c, 20), True)
            # the integer reader must survive the same text (result: don't care unless Python reads it)
            v, cls = eval_text(fi, c)
            report(rec, v, fi, c, 'sentinel')
            n += 1
    # signed zeros in every style
    for value in ((0.0, -0.0) if 0 in exps else ()):
        for nd in (1, 5, 17):
            for c in R.e_renderings(value, nd):
                want = fortnum.parse_real(c)[0]
                ncores += 1
                keys.add(hash(c))
                n += rendered_text_loop(rec, 'fortran_float', c, want, R.blank_variants(c, 20), True)
    rec.bulk(n, keys, outcome='val')
    rec.count('E_texts', ncores)
    rec.count('E_texts_with_blank_placements', n - ncores)
    c = R.e_renderings(float('-0.%se%d' % (R.MANT12[:5], exps[0])), 5)[-1]
    t = R.blank_variants(c, 20)[3]
    rec.sample({'text': t, 'fortran_float': repr(fns()['fortran_float'](t)), 'reference': repr(fortnum.parse_real(t)[0])})


GAP2_EXP = {'quick': [-300, -100, -99, 0, 99, 100, 300], 'thorough': QUICK_EXP}
GAP2_LEN = {'quick': [1, 2, 7, 17], 'thorough': list(range(1, 18))}


def run_E2(e, tier, rec):
    """Every E-text of one exponent with a blank in every PAIR of gaps (the two blanks may share a gap)."""
    n = ncores = 0
    keys = set()
    for sign, digs, ex, value in R.real_values([e], GAP2_LEN[tier]):
        for c in R.e_renderings(value, len(digs)):
            want = fortnum.parse_real(c)[0]
            ncores += 1
            keys.add(hash(('E2', c)))
            L = len(c)
            variants = [c[:i] + ' ' + c[i:j] + ' ' + c[j:] for i in range(L + 1) for j in range(i, L + 1)]
            n += rendered_text_loop(rec, 'fortran_float', c, want, variants, True)
    rec.bulk(n, keys, outcome='val')
    rec.count('E_texts_with_two_blanks', n)
    rec.count('E_texts_base_of_two_blanks', ncores)


def run_F(tier, rec):
    n = ncores = 0
    keys = set()
    for sign, digs, e, value in R.real_values(range(-8, 13)):
        for d in range(0, 9):
            for c in R.f_renderings(value, d):
                pr = fortnum.parse_real(c)
                if pr is None or pr[0] == 'blank':
                    raise core.HarnessError('reference grammar does not read its own F rendering %r' % c)
                ncores += 1
                keys.add(hash(c))
                n += rendered_text_loop(rec, 'fortran_float', c, pr[0], R.blank_variants(c, 20), True)
                v, cls = eval_text('fortran_int', c)
                report(rec, v, 'fortran_int', c, 'sentinel')
                n += 1
    rec.bulk(n, keys, outcome='val')
    rec.count('F_texts', ncores)
    rec.sample({'text': ' -.5', 'fortran_float': repr(fns()['fortran_float'](' -.5'))})


def run_I(tier, rec):
    n = ncores = 0
    keys = set()
    for c, v in R.int_cores():
        ncores += 1
        keys.add(hash(('I', c)))
        variants = list(R.all_gap_blankings(c))
        variants += [c.rjust(w) for w in range(len(c) + 2, 21)] + [c.ljust(w) for w in range(len(c) + 2, 21)]
        n += rendered_text_loop(rec, 'fortran_int', c, v, variants, False)
        # an integer is also a way to print a whole real: fortran_float must read the same number
        want = float(v)
        if c.replace(' ', '') in ('-0',):
            want = -0.0
        n += rendered_text_loop(rec, 'fortran_float', c, want, variants, True)
    rec.bulk(n, keys, outcome='val')
    rec.count('I_texts', ncores)
    rec.sample({'text': ' - 1 2', 'fortran_int': repr(fns()['fortran_int'](' - 1 2'))})


def run_S(length, prefix, tier, rec):
    lengths = range(0, 4) if length == 0 else [length]
    n = 0
    keys = set()
    oc = {}
    ff, fi = fns()['fortran_float'], fns()['fortran_int']
    jr, ji = R.judge_real, R.judge_int
    er, ei = R.expect_real, R.expect_int
    for L in lengths:
        for s in R.strings_of_length(L, R.ALPHABET, prefix if length else ''):
            # inlined fast path of eval_text (sentinel blank value)
            for name, f, judge, expect in (('fortran_float', ff, jr, er), ('fortran_int', fi, ji, ei)):
                n += 1
                try:
                    got = f(s, SENT)
                except core.CaseTimeout:
                    raise
                except Exception as e:
                    rec.violation('C16|%s|raises-%s|%s' % (name, type(e).__name__, R.input_class(s)),
                                  '%s(%r) raised %s: %s' % (name, s, type(e).__name__, e),
                                  {'fn': name, 's': s, 'blank': 'sentinel'})
                    continue
                cls = expect(s)[0]
                oc[cls] = oc.get(cls, 0) + 1
                if cls != R.ANY:
                    keys.add(hash((name, s)))
                j = judge(s, got, SENT)
                if j is not None:
                    rec.violation('C16|%s|%s|%s' % (name, j[0], R.input_class(s)),
                                  '%s(%r) returned %r, expected %s' % (name, s, got, j[1]),
                                  {'fn': name, 's': s, 'blank': 'sentinel'})
    rec.bulk(n, keys)
    for k, v in oc.items():
        rec.outcomes[k] += v
    rec.count('strings', n // 2)
    if length == 4 and prefix == '1':
        for s in ('1d+1', '1 e1', '1+10', '1*e1'):
            rec.sample({'text': s, 'fortran_float': repr(ff(s)), 'fortran_int': repr(fi(s)),
                        'oracle_class': er(s)[0]})


def run_R(which, nlen, tier, rec):
    letters = R.PRINTABLE if tier == 'thorough' else R.ALPHABET
    n = 0
    keys = set()
    oc = {}
    ff, fi = fns()['fortran_float'], fns()['fortran_int']
    cores = []
    if which == 'int':
        cores = [c for c, v in R.int_cores()] + [c.rjust(8) for c, v in R.int_cores()[:12]]
    elif which == 'fixed':
        for sign, digs, e, value in R.real_values([-2, 3], [1, 4]):
            for d in (0, 2):
                cores += R.f_renderings(value, d)
        for sign, digs, e, value in R.real_values([0, 100], [2]):
            ee = R.e_renderings(value, len(digs))
            cores += [c.rjust(len(c) + 2) for c in ee] + [c[:2] + ' ' + c[2:] for c in ee]
    else:
        seen = set()
        for sign, digs, e, value in R.real_values([which], [nlen]):
            for c in R.e_renderings(value, len(digs)):
                if c not in seen:
                    seen.add(c)
                    cores.append(c)
    for c in cores:
        keys.add(hash(('R', c)))
        for s in R.substitutions(c, letters):
            for name, f, judge, expect in (('fortran_float', ff, R.judge_real, R.expect_real),
                                           ('fortran_int', fi, R.judge_int, R.expect_int)):
                n += 1
                try:
                    got = f(s, SENT)
                except core.CaseTimeout:
                    raise
                except Exception as e:
                    rec.violation('C16|%s|raises-%s|%s' % (name, type(e).__name__, R.input_class(s)),
                                  '%s(%r) raised %s: %s' % (name, s, type(e).__name__, e),
                                  {'fn': name, 's': s, 'blank': 'sentinel'})
                    continue
                cls = expect(s)[0]
                oc[cls] = oc.get(cls, 0) + 1
                j = judge(s, got, SENT)
                if j is not None:
                    rec.violation('C16|%s|%s|%s' % (name, j[0], R.input_class(s)),
                                  '%s(%r) returned %r, expected %s' % (name, s, got, j[1]),
                                  {'fn': name, 's': s, 'blank': 'sentinel'})
    rec.bulk(n, keys)
    for k, v in oc.items():
        rec.outcomes[k] += v
    rec.count('replacement_base_texts', len(cores))
    rec.count('replacement_texts', n // 2)


# ---------------------------------------------------------------------------------------------------------
# T: the readers as the file parsers use them.  An initial-conditions file whose variable, porosity and sequence
# fields hold Fortran-printed texts is parsed (a) through fixed_format_file.parse_string with the incon format table
# and (b) through t2incon(filename), by a plain-reader object and a Fortran-reader object living in the same process,
# in both orders.  Oracle: every object gives what ITS OWN read function gives for the text of each cell (reference
# columns = cumulative widths), whatever was opened before it; for the Fortran readers the cell values are moreover
# judged by the C16 oracle.  Route (b) runs in a forked child so that 'first in the process' is really first.

FILE_ORDERS = ('plain-first', 'fortran-first')
FILE_EXP = {'quick': [-100, 0, 300], 'thorough': [-300, -100, -99, -1, 0, 1, 99, 100, 300]}
FILE_LEN = {'quick': [1, 7], 'thorough': [1, 7]}
ZEROS = ['0.0000000000000E+00', '-0.0000000000000E+00', '.0000D+00', '0.0', '0.', '-0.0', '0', '+0.0000E+00',
         '0.0000000000000D+00', '0.0000E 00', '-.0', '0.00000000000000+000', '0 .0', '0.0 E+00']
FILLER = ['0.1230000000000E+01', '0.4560000000000E+02', '0.7890000000000E+03', '0.1011000000000E+04']


def file_texts(tier, width):
    """Boundary subset of the renderings that fit a field of the given width, with a blank after the sign / before the
    exponent, plus exact zeros, overflow asterisks, NaN / Infinity and integers."""
    out, seen = [], set()

    def put(t):
        if len(t) <= width and t not in seen and R.expect_real(t)[0] != R.ANY:
            seen.add(t)
            out.append(t)

    for z in ZEROS:
        put(z)
    for sign, digs, e, value in R.real_values(FILE_EXP[tier], FILE_LEN[tier]):
        for c in R.e_renderings(value, len(digs)):
            put(c)
            m = R.exponent_mark(c)
            s0 = 1 if c[0] in '+-' else 0
            put(c[:s0] + ' ' + c[s0:])
            put(c[:m] + ' ' + c[m:])
    for sign, digs, e, value in R.real_values([-3, 0, 4], [1, 5]):
        for d in (0, 3):
            for c in R.f_renderings(value, d):
                put(c)
    for t in ('*' * width, '*' * (width - 1), 'NaN', 'Infinity', '-Infinity', '+Inf', '12', '-7', '1 2'):
        put(t)
    return out


def int_texts():
    return ['1', '12', '-7', '+7', '1 2', '- 3', '99999', '*****', '0', '-0', ' 0 ']


def build_incon(tier):
    """-> (list of lines, list of blocks); a block = dict(name, line1, line2, cells) where cells maps
    (record kind, field index) -> text of the cell.  Every text appears in each of the four variable positions of a
    full line and as the LAST value of a line of 1, 2 and 3 variables."""
    blocks = []

    def name(i):
        a = 'abcdefghijklmnopqrstuvwxyz'
        q = i // 100
        if q >= 26 ** 3:
            raise core.HarnessError('too many blocks for distinct names')
        return a[q // 676] + a[(q // 26) % 26] + a[q % 26] + '%2d' % (i % 100)

    def add(vars_, por='', nseq='', nadd=''):
        i = len(blocks)
        l1 = name(i) + nseq.rjust(5) + nadd.rjust(5) + por.rjust(15)
        l2 = ''.join(v.rjust(20) for v in vars_)
        blocks.append({'name': name(i), 'line1': l1, 'line2': l2, 'vars': list(vars_), 'por': por, 'nseq': nseq, 'nadd': nadd})

    for t in file_texts(tier, 20):
        for p in range(4):
            v = list(FILLER)
            v[p] = t
            add(v)
        for p in range(3):
            add(FILLER[:p] + [t])
    for t in file_texts(tier, 15):
        add(FILLER[:2], por=t)
    for t in int_texts():
        add(FILLER[:1], por='0.1000000E+00', nseq=t, nadd='    1'.strip())
        add(FILLER[:1], por='0.1000000E+00', nseq='1', nadd=t)
    # blank cells: inside a line (kept as None) and at its end (dropped)
    add([FILLER[0], '', FILLER[2]])
    add([FILLER[0], FILLER[1], '', ''])
    lines = ['INCON']
    for b in blocks:
        lines += [b['line1'], b['line2']]
    lines.append('')
    return lines, blocks


def build_incon_multiline(tier):
    """Blocks of six variables (two lines, read with num_variables = 6): zeros and boundary texts at each position."""
    texts = ZEROS + ['0.1D+01', '-.25-101', '1.5+100', '0.1E 05', '*' * 20]
    texts = [t for t in texts if R.expect_real(t)[0] != R.ANY]
    six = FILLER + ['0.1213000000000E+05', '0.1415000000000E+06']
    blocks = []
    for t in texts:
        for p in range(6):
            v = list(six)
            v[p] = t
            blocks.append(v)
    lines = ['INCON']
    for i, v in enumerate(blocks):
        lines.append('c%s%2d' % ('abcdefghijklmnopqrstuvwxyz'[(i // 100) % 26] * 2, i % 100))
        lines.append(''.join(x.rjust(20) for x in v[:4]))
        lines.append(''.join(x.rjust(20) for x in v[4:]))
    lines.append('')
    return lines, blocks


def own_reading(read_function, typ, text):
    """What the object's own read function gives for the text of one cell (the definition of the route)."""
    return read_function[typ](text)


def canon(v):
    if isinstance(v, float):
        return 'nan' if v != v else repr(v)
    try:
        import numpy as np
        if isinstance(v, np.ndarray):
            return [canon(x) for x in v.tolist()]
    except Exception:
        pass
    return repr(v)


def strip_trailing_none(vals):
    vals = list(vals)
    while vals and vals[-1] is None:
        vals.pop()
    return vals


def expected_block(b, rf, fortran):
    """(variables, porosity, nseq, nadd) a reader with read function table rf must give for block b, and for the
    Fortran readers the statement's own verdict on each cell text."""
    cells = [v.rjust(20) for v in b['vars']] + [' ' * 20] * (4 - len(b['vars']))
    vals = strip_trailing_none([own_reading(rf, 'e', c) for c in cells])
    por = own_reading(rf, 'e', b['por'].rjust(15))
    nseq = own_reading(rf, 'd', b['nseq'].rjust(5))
    nadd = own_reading(rf, 'd', b['nadd'].rjust(5))
    return vals, por, nseq, nadd


def statement_problems(b):
    """The direct readers against the C16 oracle on the cells of one block (guards the differential oracle against a
    reader that is wrong everywhere)."""
    out = []
    f = fns()
    for t in b['vars'] + [b['por']]:
        j = R.judge_real(t, f['fortran_read_float'](t), None if not t.strip(' ') else _Never)
        if j is not None:
            out.append((t, j))
    return out


def first_diff(got, want):
    cg, cw = [canon(x) for x in got], [canon(x) for x in want]
    if len(cg) != len(cw):
        return 'count'
    for i, (a, c) in enumerate(zip(cg, cw)):
        if a != c:
            return i
    return None


def file_class(t):
    """Coarse class of a cell text for file-route signatures."""
    if not t.strip(' '):
        return 'blank'
    cls, val = R.expect_real(t)
    if cls == R.VAL and val == 0:
        return 'exact-zero'
    try:
        float(t)
        return 'python-readable'
    except ValueError:
        return 'fortran-only-form' if cls == R.VAL else 'not-a-number'


def block_class(b, idx):
    t = b['vars'][idx] if isinstance(idx, int) and idx < len(b['vars']) else (b['vars'][-1] if b['vars'] else '')
    return file_class(t)


def child_t2incon(path, path6, seq):
    """Runs in a forked child: t2incon(filename) with each reader of seq in turn.  -> list of results."""
    import t2incons
    import fixed_format_file as fff
    tables = {'plain': fff.default_read_function, 'fortran': fff.fortran_read_function}
    res = []
    for which in seq:
        for fname, nv in ((path, None), (path6, 6)):
            if nv is not None and which == 'plain':
                # texts the plain readers cannot read leave such a block short of num_variables: outside the contract
                continue
            try:
                with core.timelimit(CHILD_LIMIT):
                    with contextlib.redirect_stdout(io.StringIO()):
                        if which == 'fortran-default-argument':
                            inc = t2incons.t2incon(fname, num_variables=nv)
                        else:
                            inc = t2incons.t2incon(fname, read_function=tables[which], num_variables=nv)
                blocks = [(blk.block, [canon(x) for x in blk.variable], canon(blk.porosity), canon(blk.nseq), canon(blk.nadd))
                          for blk in inc._blocklist]
                res.append((which, nv, 'ok', blocks))
            except core.CaseTimeout:
                res.append((which, nv, 'timeout', None))
            except BaseException as e:
                if isinstance(e, (KeyboardInterrupt, SystemExit)):
                    raise
                res.append((which, nv, 'raised', '%s: %s' % (type(e).__name__, e)))
    return res


CHILD_LIMIT = 60


def in_child(fn, *args):
    """fn(*args) in a forked child process (fresh history of opened files); result through a pipe."""
    import pickle
    import select
    r, w = os.pipe()
    pid = os.fork()
    if pid == 0:
        code = 0
        try:
            os.close(r)
            data = pickle.dumps(('ok', fn(*args)))
        except BaseException as e:
            data = pickle.dumps(('err', '%s: %s' % (type(e).__name__, e)))
            code = 1
        try:
            with os.fdopen(w, 'wb') as f:
                f.write(data)
        finally:
            os._exit(code)
    os.close(w)
    chunks = []
    deadline = 6 * CHILD_LIMIT + 60
    import time as _t
    t0 = _t.time()
    with os.fdopen(r, 'rb') as f:
        while True:
            left = deadline - (_t.time() - t0)
            if left <= 0:
                os.kill(pid, 9)
                os.waitpid(pid, 0)
                return ('err', 'child did not finish')
            ready, _, _ = select.select([f], [], [], min(left, 5))
            if ready:
                c = os.read(f.fileno(), 1 << 20)
                if not c:
                    break
                chunks.append(c)
    os.waitpid(pid, 0)
    try:
        return pickle.loads(b''.join(chunks))
    except Exception as e:
        return ('err', 'no result from child: %r' % (e,))


def file_route(order, tier):
    """-> (violations [(sig, what)], evaluations, distinct keys)."""
    import copy
    import fixed_format_file as fff
    import t2incons
    viol, keys = [], set()
    n = 0
    seen_sig = set()

    def add(sig, what):
        viol.append((sig, what))

    lines, blocks = build_incon(tier)
    lines6, blocks6 = build_incon_multiline(tier)
    d = core.scratch()
    path, path6 = os.path.join(d, 'c16_%s.incon' % order), os.path.join(d, 'c16_%s_6.incon' % order)
    with open(path, 'w') as f:
        f.write('\n'.join(lines) + '\n')
    with open(path6, 'w') as f:
        f.write('\n'.join(lines6) + '\n')
    tables = {'plain': fff.default_read_function, 'fortran': fff.fortran_read_function}
    seq = ['plain', 'fortran', 'plain'] if order == 'plain-first' else ['fortran', 'plain', 'fortran']

    # the direct readers on the cell texts (statement oracle)
    for b in blocks:
        for t, j in statement_problems(b):
            add('C16|fortran_read_float|%s|%s' % (j[0], R.input_class(t)),
                'fortran_read_float(%r) returned a value that is not %s' % (t, j[1]))

    # (a) fixed_format_file objects sharing ONE specification dictionary, opened in the given order, parsing in turn
    spec = copy.deepcopy(t2incons.t2incon_format_specification)
    _KEEP.append(spec)
    parsers = []
    for k, which in enumerate(seq):
        parsers.append((which, 'nothing' if k == 0 else seq[k - 1] + '-reader',
                        fff.fixed_format_file(path, 'r', spec, tables[which])))
    try:
        for b in blocks:
            l1, l2 = b['line1'].ljust(80), b['line2'].ljust(80)
            for which, after, prs in parsers:
                rf = tables[which]
                for kind, line, typs, widths in (('incon1', l1, 'sdde', (5, 5, 5, 15)), ('incon2', l2, 'eeee', (20,) * 4)):
                    n += 1
                    try:
                        got = prs.parse_string(line, kind)
                    except Exception as e:
                        add('C16|parse_string(%s)|raises-%s|%s|after=%s' % (which, type(e).__name__, kind, after),
                            'parse_string(%r, %r) raised %r' % (line, kind, e))
                        continue
                    pos, want, texts = 0, [], []
                    for typ, w in zip(typs, widths):
                        texts.append(line[pos:pos + w])
                        want.append(own_reading(rf, typ, line[pos:pos + w]))
                        pos += w
                    dd = first_diff(got, want)
                    if dd is not None:
                        t = texts[dd] if isinstance(dd, int) else ''
                        add('C16|parse_string(%s)|cell-value|%s|after=%s' % (which, file_class(t), after),
                            '%s-reader parse_string of %r record gives %r for cell %r, its own read function gives %r '
                            '(opened after: %s)' % (which, kind, got[dd] if isinstance(dd, int) else got, t,
                                                    want[dd] if isinstance(dd, int) else want, after))
            keys.add(hash(('T', b['line1'], b['line2'])))
    finally:
        for which, after, prs in parsers:
            prs.close()

    # (b) t2incon(filename) in a child process, the readers in the given order (plus the default-argument form)
    st, res = in_child(child_t2incon, path, path6, seq + ['fortran-default-argument'])
    if st != 'ok':
        add('C16|t2incon|child-failed|%s' % order, 'reading in a child process failed: %s' % res)
        return viol, n, keys
    prev = 'nothing'
    for which, nv, status, got in res:
        kind = 'fortran' if which.startswith('fortran') else 'plain'
        rf = tables[kind]
        label = 't2incon(%s)' % kind
        src = blocks if nv is None else blocks6
        n += len(src)
        if status == 'timeout':
            add('C16|%s|does-not-terminate|num_variables=%s|after=%s' % (label, nv, prev),
                'read of the file with num_variables=%r did not finish in %d s' % (nv, CHILD_LIMIT))
        elif status == 'raised':
            add('C16|%s|raises|num_variables=%s|after=%s' % (label, nv, prev), 'read raised %s' % got)
        else:
            if len(got) != len(src):
                add('C16|%s|block-count|num_variables=%s|after=%s' % (label, nv, prev),
                    '%d blocks read, file has %d' % (len(got), len(src)))
            for gb, b in zip(got, src):
                if nv is None:
                    wv, wp, ws, wa = expected_block(b, rf, kind == 'fortran')
                    bb = b
                else:
                    bb = {'vars': b}
                    wv = strip_trailing_none([own_reading(rf, 'e', x.rjust(20)) for x in b])
                    wp = ws = wa = None
                cg, cw = gb[1], [canon(x) for x in wv]
                if cg != cw:
                    if len(cg) != len(cw):
                        idx = len(bb['vars']) - 1
                        clause = 'variable-count'
                    else:
                        idx = [i for i in range(len(cg)) if cg[i] != cw[i]][0]
                        clause = 'variable-value'
                    add('C16|%s|%s|%s|num_variables=%s|after=%s' % (label, clause, block_class(bb, idx), nv, prev),
                        'block %r, variables line %r: read %r, the %s readers give %r'
                        % (gb[0], ''.join(x.rjust(20) for x in bb['vars']), cg, kind, cw))
                if nv is None and (gb[2], gb[3], gb[4]) != (canon(wp), canon(ws), canon(wa)):
                    add('C16|%s|header-cell|%s|after=%s' % (label, file_class(b['por'] or b['nseq'] or b['nadd']), prev),
                        'block %r, line %r: porosity/nseq/nadd read %r, the %s readers give %r'
                        % (gb[0], b['line1'], (gb[2], gb[3], gb[4]), kind, (canon(wp), canon(ws), canon(wa))))
        if nv == 6 or kind == 'plain':
            prev = kind + '-reader'
    for pth in (path, path6):
        try:
            os.remove(pth)
        except OSError:
            pass
    return viol, n, keys


_KEEP = []


# ---------------------------------------------------------------------------------------------------------
# TE: the same records as the LAST record of a file, with each way a file can end: a newline and a blank record, a
# newline only, nothing at all.  Read through fixed_format_file.read_values (both reader tables) and t2incon(filename).

FILE_ENDINGS = ('newline+blank-record', 'newline', 'nothing')
ENDING_TEXT = {'newline+blank-record': '\n\n', 'newline': '\n', 'nothing': ''}


def ending_texts():
    return ZEROS + ['0.1000000000000E+06', '-0.9999999999999E-99', '0.1D+01', '-.25-101', '1.5+100', '0.1E 05', '7', '12.',
                    '*' * 20, 'NaN']


def ending_case(ending, vars_):
    """One file whose last record is the variables line vars_.  -> [(sig, what)]"""
    import fixed_format_file as fff
    import t2incons
    out = []
    record = ''.join(v.rjust(20) for v in vars_)
    path = os.path.join(core.scratch(), 'c16_ending.incon')
    with open(path, 'w') as f:
        f.write('INCON\n' + 'zza 1' + '\n' + record + ENDING_TEXT[ending])
    cells = [record[k:k + 20] for k in range(0, 80, 20)]
    cls = file_class(vars_[-1])
    tables = {'plain': fff.default_read_function, 'fortran': fff.fortran_read_function}
    for which in ('fortran', 'plain'):
        rf = tables[which]
        want = [own_reading(rf, 'e', c) for c in cells]
        prs = None
        try:
            with core.timelimit(CHILD_LIMIT):
                prs = fff.fixed_format_file(path, 'r', t2incons.t2incon_format_specification, rf)
                prs.readline()
                prs.read_values('incon1')
                got = prs.read_values('incon2')
        except core.CaseTimeout:
            out.append(('C16|read_values(%s)|does-not-terminate|%s|file-ends-with=%s' % (which, cls, ending), 'no result in %d s' % CHILD_LIMIT))
            continue
        except Exception as e:
            out.append(('C16|read_values(%s)|raises-%s|%s|file-ends-with=%s' % (which, type(e).__name__, cls, ending),
                        'read_values of last record %r raised %r' % (record, e)))
            continue
        finally:
            if prs is not None:
                prs.close()
        if [canon(x) for x in got] != [canon(x) for x in want]:
            out.append(('C16|read_values(%s)|cell-value|%s|file-ends-with=%s' % (which, cls, ending),
                        'last record %r of a file ending with %r: read_values gives %r, the %s readers give %r for its cells'
                        % (record, ENDING_TEXT[ending], got, which, want)))
    want = strip_trailing_none([own_reading(tables['fortran'], 'e', c) for c in cells])
    try:
        with core.timelimit(CHILD_LIMIT):
            with contextlib.redirect_stdout(io.StringIO()):
                inc = t2incons.t2incon(path)
        got = list(inc._blocklist[0].variable) if inc._blocklist else None
        if got is None or [canon(x) for x in got] != [canon(x) for x in want]:
            out.append(('C16|t2incon(fortran)|variable-value|%s|file-ends-with=%s' % (cls, ending),
                        'last record %r of a file ending with %r: t2incon reads %r, the Fortran readers give %r'
                        % (record, ENDING_TEXT[ending], got, want)))
    except core.CaseTimeout:
        out.append(('C16|t2incon(fortran)|does-not-terminate|%s|file-ends-with=%s' % (cls, ending), 'no result in %d s' % CHILD_LIMIT))
    except Exception as e:
        out.append(('C16|t2incon(fortran)|raises-%s|%s|file-ends-with=%s' % (type(e).__name__, cls, ending),
                    't2incon of a file whose last record is %r raised %r' % (record, e)))
    return out


def run_TE(ending, tier, rec):
    n = 0
    for t in ending_texts():
        if R.expect_real(t)[0] == R.ANY:
            continue
        for p in range(4):
            vars_ = FILLER[:p] + [t]
            for sig, what in ending_case(ending, vars_):
                rec.violation(sig, what, {'kind': 'file-ending', 'ending': ending, 'vars': vars_})
            rec.case(('TE', ending, t, p), outcome='file-ending')
            n += 1
    rec.count('file_ending_cases', n)
    rec.sample({'file_ends_with': ending, 'last_record': FILLER[0].rjust(20) + '0.1000000000000E+06'.rjust(20)})


# ---------------------------------------------------------------------------------------------------------
# P: history over callers.  The SAME text is read by every reader entry point - fortran_float / fortran_int with each
# blank value (default, None, an own object, a number by keyword), the partials fortran_read_float / fortran_read_int
# (also with the blank value overridden), default_read_float / default_read_int, each float / integer entry of the two
# read-function dictionaries and of a third table built by read_function_dict, parse_string through parser objects of
# every (format table, read-function table) pair (an own one-field table, t2incon's, t2data's, mulgrid's), t2incon(filename)
# with each reader table, t2listing's own call sites (comma-separated history file, fixed-column table line) - in every
# ORDER of two callers: one forked child per first caller A runs A, B1, A, B2, A, ... over all texts, so that every
# caller B reads each text directly after A whatever a memo keeps (the first answer or the last), and A after every B.
# Oracle (absolute, a correct cache passes it): every caller gives ITS OWN answer - the Fortran readers the statement's
# value / NaN / None and for a blank field the very blank value THIS caller passed; the plain readers what float() /
# int() give, else None - and gives it again every time it is asked (repeatability, also for don't-care texts).

PAIR_BLANKS = [0, 1, 4, 5, 10, 15, 20, 24]


def pair_texts(tier):
    out, seen = [], set()

    def put(t):
        if t not in seen and len(t) <= 24 and ',' not in t:
            seen.add(t)
            out.append(t)

    for w in (PAIR_BLANKS if tier == 'quick' else range(0, 25)):
        put(' ' * w)
    for t in ZEROS:
        put(t)
    for t in ('0.1D+01', ' 0.25d-03', '.25-101', '1.5+100', '0.1E 05', '- 0.1234-100', '+0.3+100', '-.1234D-05', '1.5', ' 1.5 ',
              '12', ' 1 2', '- 7', '+7', '-0', '7', '    3', '1 2 3', '99999', '*', '*****', '*' * 15, '*' * 20, 'NaN', 'Infinity',
              '-Inf', '1x', '1_0', '1e5', '1d5', '0.5e', '--1', '1.5.', 'e', '+', '.', '0.1000000E+00', '-0.9999999999999E-99',
              '0.1000000000000E+06', '12.'):
        put(t)
    if tier == 'thorough':
        for t in file_texts('thorough', 20):
            put(t)
        for t in int_texts():
            put(t)
    else:
        for t in file_texts('quick', 20)[::7]:
            put(t)
    return out


class _Obj(object):
    def __init__(self, name):
        self.name = name

    def __repr__(self):
        return '<%s>' % self.name


def blank_matches(got, bv):
    if bv is None or isinstance(bv, (_Obj, _Sentinel)):
        return got is bv
    if isinstance(bv, float):
        return type(got) is float and got == bv and math.copysign(1, got) == math.copysign(1, bv)
    return type(got) is type(bv) and got == bv


def judge_caller(real, mode, bv, s, got):
    """-> None or (clause, expected) for the answer of one caller (mode 'fortran' with blank value bv, or 'plain')."""
    if mode == 'plain':
        try:
            want = float(s) if real else int(s)
        except ValueError:
            return None if got is None else ('plain-none', 'None')
        if real:
            return None if R.same_float(got, want) else ('plain-value', repr(want))
        return None if (type(got) is int and got == want) else ('plain-value', repr(want))
    cls = (R.expect_real if real else R.expect_int)(s)[0]
    if cls == R.BLANK:
        return None if blank_matches(got, bv) else ('blank-value', 'the blank value %r of this caller' % (bv,))
    if isinstance(bv, (_Obj, _Sentinel)) and got is bv:
        return ('blank-value-for-text', 'not the blank value')
    return (R.judge_real if real else R.judge_int)(s, got, _Never)


def pair_files(tier, d):
    """Files the file-reading callers use (written once, before any child is forked).  -> dict"""
    texts = pair_texts(tier)
    a = 'abcdefghijklmnopqrstuvwxyz'
    lines, roles = ['INCON'], []

    def add(role, t, vars_, por='', nseq='', nadd=''):
        i = len(roles)
        name = a[(i // 2600) % 26] + a[(i // 100) % 26] + 'p' + '%2d' % (i % 100)
        lines.append(name + nseq.rjust(5) + nadd.rjust(5) + por.rjust(15))
        lines.append(''.join(v.rjust(20) for v in vars_))
        roles.append((role, t))

    for t in texts:
        if len(t) <= 20:
            add('var', t, [t, FILLER[1]])
        if len(t) <= 15:
            add('por', t, FILLER[:2], por=t)
        if len(t) <= 5:
            add('nseq', t, FILLER[:1], por='0.1000000E+00', nseq=t, nadd='1')
    lines.append('')
    incon = os.path.join(d, 'c16_pair.incon')
    with open(incon, 'w') as f:
        f.write('\n'.join(lines) + '\n')
    hd = os.path.join(d, 'c16_pair_hist')
    os.makedirs(hd, exist_ok=True)
    hist = os.path.join(hd, 'FOFT')
    htexts = [t for t in texts if len(t) <= 20]
    recs = [list(HF_FILL) + list(HF_FILL)] + [[t] + HF_FILL[1:] + list(HF_FILL) for t in htexts]
    with open(hist, 'w') as f:
        for k, vals in enumerate(recs):
            f.write('%6d, %s,%8d,%s,%8d,%s,\n' % (k + 1, '%.6E' % (10.0 * (k + 1)), 3, ','.join(vals[:3]), 17, ','.join(vals[3:])))
    empty = os.path.join(d, 'c16_pair_empty.dat')
    with open(empty, 'w') as f:
        f.write('\n')
    return {'incon': incon, 'roles': roles, 'hist': hist, 'htexts': htexts, 'empty': empty, 'texts': texts}


def make_callers(files):
    """-> list of dict(name, family, batch) ; batch() -> list of (real?, mode, blank value, cell text, ('ok', got) | ('raised', e))."""
    from functools import partial
    import fixed_format_file as fff
    import t2incons
    import t2data
    import mulgrids
    import t2listing
    texts = files['texts']
    callers = []

    def guarded(f, *a, **k):
        try:
            return ('ok', f(*a, **k))
        except core.CaseTimeout:
            raise
        except BaseException as e:
            if isinstance(e, (KeyboardInterrupt, SystemExit)):
                raise
            return ('raised', e)

    def direct(name, family, real, mode, bv, f):
        def batch():
            return [(real, mode, bv, s, guarded(f, s)) for s in texts]
        callers.append({'name': name, 'family': family, 'batch': batch})

    OWN_F, OWN_I, KW_F, KW_I = _Obj('own-float-blank'), _Obj('own-int-blank'), -1.5, -9
    ff, fi = fff.fortran_float, fff.fortran_int
    direct('fortran_float(s)', 'fortran-blank-0', True, 'fortran', 0.0, lambda s: ff(s))
    direct('fortran_float(s,None)', 'fortran-blank-None', True, 'fortran', None, lambda s: ff(s, None))
    direct('fortran_float(s,object)', 'fortran-blank-other', True, 'fortran', OWN_F, lambda s: ff(s, OWN_F))
    direct('fortran_float(s,blank_value=-1.5)', 'fortran-blank-other', True, 'fortran', KW_F, lambda s: ff(s, blank_value=KW_F))
    direct('fortran_int(s)', 'fortran-blank-0', False, 'fortran', 0, lambda s: fi(s))
    direct('fortran_int(s,None)', 'fortran-blank-None', False, 'fortran', None, lambda s: fi(s, None))
    direct('fortran_int(s,object)', 'fortran-blank-other', False, 'fortran', OWN_I, lambda s: fi(s, OWN_I))
    direct('fortran_int(s,blank_value=-9)', 'fortran-blank-other', False, 'fortran', KW_I, lambda s: fi(s, blank_value=KW_I))
    direct('fortran_read_float', 'fortran-blank-None', True, 'fortran', None, fff.fortran_read_float)
    direct('fortran_read_int', 'fortran-blank-None', False, 'fortran', None, fff.fortran_read_int)
    direct('fortran_read_float(blank_value=2.5)', 'fortran-blank-other', True, 'fortran', 2.5,
           lambda s: fff.fortran_read_float(s, blank_value=2.5))
    direct('fortran_read_int(blank_value=3)', 'fortran-blank-other', False, 'fortran', 3,
           lambda s: fff.fortran_read_int(s, blank_value=3))
    direct('default_read_float', 'plain', True, 'plain', None, fff.default_read_float)
    direct('default_read_int', 'plain', False, 'plain', None, fff.default_read_int)
    CUST_F, CUST_I = _Obj('third-table-float-blank'), _Obj('third-table-int-blank')
    third = fff.read_function_dict(partial(ff, blank_value=CUST_F), partial(fi, blank_value=CUST_I))
    tables = [('default', fff.default_read_function, 'plain', None, None, 'plain'),
              ('fortran', fff.fortran_read_function, 'fortran', None, None, 'fortran-blank-None'),
              ('third', third, 'fortran', CUST_F, CUST_I, 'fortran-blank-other')]
    for tn, table, mode, bvf, bvi, family in tables:
        for typ in 'efg':
            direct("%s_read_function[%r]" % (tn, typ), family, True, mode, bvf, table[typ])
        direct("%s_read_function['d']" % tn, family, False, mode, bvi, table['d'])

    # parse_string through parser objects of every (format table, read-function table) pair, all alive at once
    own_spec = {'r': [['v'], ['24.16e']], 'i': [['v'], ['24d']], 'f': [['u', 'v'], ['5x', '24.10f']]}
    specs = [('own', fff.fixed_format_file, own_spec),
             ('t2incon', fff.fixed_format_file, t2incons.t2incon_format_specification),
             ('t2data', fff.fixed_format_file, t2data.t2data_format_specification),
             ('mulgrid', fff.fixed_format_file, mulgrids.mulgrid_format_specification)]
    _KEEP.append(own_spec)
    for sn, cls_, spec in specs:
        for tn, table, mode, bvf, bvi, family in tables:
            prs = cls_(files['empty'], 'r', spec, table)
            _KEEP.append(prs)

            def batch(prs=prs, sn=sn, mode=mode, bvf=bvf, bvi=bvi):
                out = []
                for s in texts:
                    if sn == 'own':
                        jobs = [(True, 'r', s, 0, s), (False, 'i', s, 0, s), (True, 'f', ' ' * 5 + s, 1, s)]
                    elif sn == 't2incon':
                        jobs = []
                        if len(s) <= 20:
                            for p in (0, 3):
                                cells = list(FILLER)
                                cells[p] = s
                                jobs.append((True, 'incon2', ''.join(c.rjust(20) for c in cells), p, s.rjust(20)))
                        if len(s) <= 15:
                            jobs.append((True, 'incon1', 'aa  1' + '    1' + '    1' + s.rjust(15), 3, s.rjust(15)))
                        if len(s) <= 5:
                            jobs.append((False, 'incon1', 'aa  1' + s.rjust(5) + '    1' + '  0.1000000E+00', 1, s.rjust(5)))
                    elif sn == 't2data':
                        jobs = []
                        if len(s) <= 20:
                            jobs.append((True, 'default_incons', FILLER[0].rjust(20) + s.rjust(20), 1, s.rjust(20)))
                        if len(s) <= 10:
                            jobs.append((True, 'timestep', '0.1000E+01' + s.ljust(10) + '0.3000E+01', 1, s.ljust(10)))
                    else:
                        jobs = [(True, 'node', 'abc' + s.rjust(10) + '     12.50', 1, s.rjust(10))] if len(s) <= 10 else []
                    for real, kind, line, idx, cell in jobs:
                        r = guarded(prs.parse_string, line, kind)
                        if r[0] == 'ok':
                            try:
                                r = ('ok', r[1][idx])
                            except Exception as e:
                                r = ('raised', e)
                        out.append((real, mode, bvf if real else bvi, cell, r))
                return out
            callers.append({'name': 'parse_string(%s table,%s readers)' % (sn, tn), 'family': family, 'batch': batch})

    # t2incon(filename) with each reader table and with its default argument
    for tn, kw, mode, family in (('default', {'read_function': fff.default_read_function}, 'plain', 'plain'),
                                 ('fortran', {'read_function': fff.fortran_read_function}, 'fortran', 'fortran-blank-None'),
                                 ('default-argument', {}, 'fortran', 'fortran-blank-None')):
        def batch(kw=kw, mode=mode):
            def read():
                with core.timelimit(CHILD_LIMIT):
                    with contextlib.redirect_stdout(io.StringIO()):
                        return t2incons.t2incon(files['incon'], **kw)
            r = guarded(read)
            roles = files['roles']
            if r[0] != 'ok':
                return [(True, mode, None, 'whole file', r)]
            bl = r[1]._blocklist
            if len(bl) != len(roles):
                return [(True, mode, None, 'whole file', ('raised', ValueError('%d blocks read, file has %d' % (len(bl), len(roles)))))]
            out = []
            for blk, (role, t) in zip(bl, roles):
                if role == 'var':
                    v = list(blk.variable)
                    out.append((True, mode, None, t.rjust(20), ('ok', v[0]) if len(v) == 2 else
                                ('raised', ValueError('%d variables read from a line of 2' % len(v)))))
                elif role == 'por':
                    out.append((True, mode, None, t.rjust(15), ('ok', blk.porosity)))
                else:
                    out.append((False, mode, None, t.rjust(5), ('ok', blk.nseq)))
            return out
        callers.append({'name': 't2incon(filename,%s)' % tn, 'family': family, 'batch': batch})

    # t2listing's own call sites: comma-separated history file; fixed-column table line
    def batch_hist():
        def read():
            with core.timelimit(CHILD_LIMIT):
                with contextlib.redirect_stdout(io.StringIO()):
                    h = t2listing.t2historyfile(files['hist'])
                    return [list(row) for row in h._data]
        r = guarded(read)
        ht = files['htexts']
        if r[0] != 'ok':
            return [(True, 'fortran', 0.0, 'whole file', r)]
        rows = r[1]
        if len(rows) != 2 * (len(ht) + 1):
            return [(True, 'fortran', 0.0, 'whole file', ('raised', ValueError('%d rows read, %d printed' % (len(rows), 2 * (len(ht) + 1)))))]
        return [(True, 'fortran', 0.0, t, guarded(lambda x: float(x), rows[2 * (k + 1)][1])) for k, t in enumerate(ht)]
    callers.append({'name': 't2historyfile(FOFT)', 'family': 'fortran-blank-0', 'batch': batch_hist})

    bare = object.__new__(t2listing.t2listing)

    def batch_line():
        out = []
        fmt = {'values': [5, 29, 49]}
        for s in texts:
            line = 'abc 1' + s.rjust(24) + FILLER[0].rjust(20)
            r = guarded(bare.read_table_line_TOUGH2, line, 2, fmt)
            if r[0] == 'ok':
                try:
                    r = ('ok', r[1][0])
                except Exception as e:
                    r = ('raised', e)
            out.append((True, 'fortran', 0.0, s.rjust(24), r))
        return out
    callers.append({'name': 't2listing.read_table_line_TOUGH2', 'family': 'fortran-blank-0', 'batch': batch_line})
    return callers


def pair_caller_names(tier):
    return _PAIR_NAMES


_PAIR_NAMES = (['fortran_float(s)', 'fortran_float(s,None)', 'fortran_float(s,object)', 'fortran_float(s,blank_value=-1.5)',
                'fortran_int(s)', 'fortran_int(s,None)', 'fortran_int(s,object)', 'fortran_int(s,blank_value=-9)',
                'fortran_read_float', 'fortran_read_int', 'fortran_read_float(blank_value=2.5)', 'fortran_read_int(blank_value=3)',
                'default_read_float', 'default_read_int'] +
               ["%s_read_function[%r]" % (tn, typ) for tn in ('default', 'fortran', 'third') for typ in 'efgd'] +
               ['parse_string(%s table,%s readers)' % (sn, tn) for sn in ('own', 't2incon', 't2data', 'mulgrid')
                for tn in ('default', 'fortran', 'third')] +
               ['t2incon(filename,%s)' % tn for tn in ('default', 'fortran', 'default-argument')] +
               ['t2historyfile(FOFT)', 't2listing.read_table_line_TOUGH2'])


def pair_child(first, files):
    """Runs in a forked child.  -> (violations [(sig, what)], evaluations, ordered pairs of callers run)."""
    callers = make_callers(files)
    names = [c['name'] for c in callers]
    if names != list(_PAIR_NAMES):
        raise core.HarnessError('caller table differs from its declaration')
    A = callers[names.index(first)]
    viol, n, pairs = [], 0, 0
    memo = {}

    def run(c, prev):
        k = 0
        for idx, (real, mode, bv, cell, r) in enumerate(c['batch']()):
            k += 1
            cls = file_class(cell) if real else file_class_int(cell)
            if r[0] == 'raised':
                viol.append(('C16|%s|raises-%s|%s|after=%s' % (c['name'], type(r[1]).__name__, cls, prev),
                             '%s on %r raised %r (read just before by: %s)' % (c['name'], cell, r[1], prev)))
                continue
            got = r[1]
            j = judge_caller(real, mode, bv, cell, got)
            if j is not None:
                viol.append(('C16|%s|%s|%s|after=%s' % (c['name'], j[0], cls, prev),
                             '%s reads %r as %r, expected %s (the same text was read just before by: %s)'
                             % (c['name'], cell, got, j[1], prev)))
            key = (c['name'], idx)
            cg = 'blank-value' if (got is bv and bv is not None) else canon(got)
            if key in memo and memo[key] != cg:
                viol.append(('C16|%s|not-repeatable|%s|after=%s' % (c['name'], cls, prev),
                             '%s reads %r as %s now and as %s earlier in the same process (in between: %s)'
                             % (c['name'], cell, cg, memo[key], prev)))
            memo.setdefault(key, cg)
        return k

    n += run(A, 'nothing')
    for B in callers:
        n += run(B, A['family'] if B is not A else A['family'] + '(itself)')
        n += run(A, B['family'])
        pairs += 2
    return viol, n, pairs


def pair_route(first, tier):
    d = os.path.join(core.scratch(), 'c16_pair_%d' % _PAIR_NAMES.index(first))
    os.makedirs(d, exist_ok=True)
    files = pair_files(tier, d)
    try:
        st, res = in_child(pair_child, first, files)
    finally:
        import shutil
        shutil.rmtree(d, ignore_errors=True)
    if st != 'ok':
        return [('C16|pairs-of-callers|child-failed|first=%s' % first, 'the child process failed: %s' % res)], 0, 0
    return res


def run_P(first, tier, rec):
    viol, n, pairs = pair_route(first, tier)
    for sig, what in viol:
        rec.violation(sig, what, {'kind': 'pair', 'first': first, 'tier': tier, 'sig': sig})
    rec.bulk(n, set(hash(('P', first, k)) for k in range(pairs)), outcome='caller-pair')
    rec.count('caller_pairs_ordered', pairs)
    rec.count('caller_pair_readings', n)
    if first == 'default_read_float':
        rec.sample({'first_caller': first, 'callers': len(_PAIR_NAMES), 'texts': len(pair_texts(tier)), 'ordered_pairs': pairs})


# ---------------------------------------------------------------------------------------------------------
# H: the readers as the listing reader uses them for the results header of an AUTOUGH2 listing
# (' OUTPUT AFTER<I4 steps> TIME STEPS <time> SECONDS').  The header lines of one result set of a shipped listing are
# rewritten with Fortran renderings of the step (incl. overflow asterisks, blanks) and of the time; the listing must
# open, and at that result set step and time must be what fortran_int / fortran_float give for the field texts.

HEADER_LISTING = os.path.join('tests', 'listing', 'AUTOUGH2', '2', 'case2.listing')
_HEADER_SRC = {}


def header_source():
    if not _HEADER_SRC:
        path = os.path.join(core.REPO, HEADER_LISTING)
        if not os.path.exists(path):
            raise core.HarnessError('shipped listing %s not found' % path)
        with open(path) as f:
            lines = f.read().split('\n')
        hdr = [i for i, l in enumerate(lines) if 'OUTPUT AFTER' in l and 'TIME STEPS' in l and 'SECONDS' in l]
        steps = []
        for i in hdr:
            a, b = lines[i].find('AFTER') + 5, lines[i].find('TIME STEPS')
            steps.append(lines[i][a:b])
        real = [t for t in steps if t.strip() not in ('', '0')]
        _HEADER_SRC.update(lines=lines, hdr=hdr, steps=steps, first=real[0], last=real[-1])
    return _HEADER_SRC


def step_texts():
    return ['   1', '  12', ' 999', '9999', '****', '+  3', ' 1 2', '  -1', '   0', '  +7']


def time_texts(tier):
    out, seen = [], set()

    def put(t):
        if t not in seen and len(t) <= 24 and R.expect_real(t)[0] != R.ANY:
            seen.add(t)
            out.append(t)

    for z in ('0.0000000000000000E+00', '0.1000000000000000E+01'):
        put(z)
    for sign, digs, e, value in R.real_values([-100, 0, 9, 300] if tier == 'quick' else [-300, -100, -99, 0, 9, 99, 100, 300], [1, 16]):
        if sign:
            continue
        for c in R.e_renderings(value, len(digs)):
            put(c)
    put('*' * 22)
    put('1000000.')
    return out


def header_case(which_set, step_text, time_text):
    import t2listing
    import fixed_format_file as fff
    src = header_source()
    target = src[which_set]
    lines = list(src['lines'])
    for i, st in zip(src['hdr'], src['steps']):
        if st == target:
            l = lines[i]
            a, b = l.find('AFTER') + 5, l.find('TIME STEPS')
            l = l[:a] + step_text + l[b:]
            b2, c = l.find('TIME STEPS') + 10, l.find('SECONDS')
            lines[i] = l[:b2] + ' ' + time_text.rjust(24) + ' ' + l[c:]
    path = os.path.join(core.scratch(), 'c16_header.listing')
    with open(path, 'w') as f:
        f.write('\n'.join(lines))
    time_field = ' ' + time_text.rjust(24) + ' '
    want_step, want_time = fff.fortran_int(step_text), fff.fortran_float(time_field)
    cls = 'step=%s,time=%s' % (file_class_int(step_text), file_class(time_text))
    site = 'C16|t2listing.read_header_AUTOUGH2'
    out, lst = [], None
    try:
        with core.timelimit(CHILD_LIMIT):
            with contextlib.redirect_stdout(io.StringIO()):
                lst = t2listing.t2listing(path)
                lst.index = 0 if which_set == 'first' else lst.num_fulltimes - 1
                got_step, got_time = lst.step, lst.time
    except core.CaseTimeout:
        return [('%s|does-not-terminate|%s|set=%s' % (site, cls, which_set), 'no result in %d s' % CHILD_LIMIT)]
    except BaseException as e:
        if isinstance(e, (KeyboardInterrupt, SystemExit)):
            raise
        return [('%s|raises-%s|%s|set=%s' % (site, type(e).__name__, cls, which_set),
                 'listing whose %s results header reads AFTER%sTIME STEPS%sSECONDS cannot be read: %r' % (which_set, step_text, time_field, e))]
    finally:
        if lst is not None:
            try:
                lst.close()
            except Exception:
                pass
    if canon(got_step) != canon(want_step):
        out.append(('%s|step-value|%s|set=%s' % (site, cls, which_set),
                    'step field %r read as %r, fortran_int gives %r' % (step_text, got_step, want_step)))
    if canon(float(got_time) if got_time is not None else None) != canon(want_time):
        out.append(('%s|time-value|%s|set=%s' % (site, cls, which_set),
                    'time field %r read as %r, fortran_float gives %r' % (time_field, got_time, want_time)))
    return out


# ---------------------------------------------------------------------------------------------------------
# HF: the readers as the TOUGH2 history-file reader (t2historyfile, comma-separated FOFT/COFT/GOFT) uses them: records
# 'step, time, key, v1, v2, v3, key, v1, v2, v3,' whose value fields hold blank / D-exponent / letter-less / asterisk /
# padded texts, one field at a time and all at once.  Every row must be [time] + fortran_float(field text) per field.

HF_FILL = ['0.1230000000E+01', '0.4560000000E+02', '0.7890000000E+03']


def history_texts():
    return ['', '   ', '0.1D+01', ' 0.25d-03', '.25-101', '1.5+100', '0.1E 05', '**********', '0.0000000000E+00', '-0.0',
            ' 0.1000000000E+06 ', '+.5E+00', 'NaN']


def history_case(texts):
    """texts: list of records, each a list of 6 value-field texts (two keys x three columns).  -> [(sig, what)]"""
    import t2listing
    import fixed_format_file as fff
    d = os.path.join(core.scratch(), 'c16_hist')
    os.makedirs(d, exist_ok=True)
    path = os.path.join(d, 'FOFT')
    recs = [list(HF_FILL) + list(HF_FILL)] + [list(t) for t in texts]
    lines = []
    for k, vals in enumerate(recs):
        lines.append('%6d, %s,%8d,%s,%8d,%s,' % (k + 1, '%.6E' % (10.0 * (k + 1)), 3, ','.join(vals[:3]), 17, ','.join(vals[3:])))
    with open(path, 'w') as f:
        f.write('\n'.join(lines) + '\n')
    want = []
    for k, vals in enumerate(recs):
        t = float('%.6E' % (10.0 * (k + 1)))
        want.append([t] + [fff.fortran_float(v) for v in vals[:3]])
        want.append([t] + [fff.fortran_float(v) for v in vals[3:]])
    site = 'C16|t2historyfile.read_data_TOUGH2'
    try:
        with core.timelimit(CHILD_LIMIT):
            with contextlib.redirect_stdout(io.StringIO()):
                h = t2listing.t2historyfile(path)
        got = [list(row) for row in h._data]
    except core.CaseTimeout:
        return [('%s|does-not-terminate|history-file' % site, 'no result in %d s' % CHILD_LIMIT)]
    except BaseException as e:
        if isinstance(e, (KeyboardInterrupt, SystemExit)):
            raise
        return [('%s|raises-%s|history-file' % (site, type(e).__name__), 'history file with records %r cannot be read: %r' % (lines[1:3], e))]
    out = []
    if len(got) != len(want):
        out.append(('%s|row-count|history-file' % site, '%d rows read, %d printed' % (len(got), len(want))))
    for r, (g, w) in enumerate(zip(got, want)):
        cg, cw = [canon(float(x)) for x in g], [canon(x) for x in w]
        if cg != cw:
            vals = recs[r // 2][(r % 2) * 3:(r % 2) * 3 + 3]
            bad = [v for v, a, b in zip(vals, cg[1:], cw[1:]) if a != b] or vals
            out.append(('%s|row-values|%s' % (site, file_class(bad[0])),
                        'record %r: values of key %d read as %r, fortran_float gives %r for the fields %r'
                        % (lines[r // 2], (3, 17)[r % 2], g, w, vals)))
            break
    return out


def run_HF(tier, rec):
    n = 0
    texts = history_texts()
    f = fns()
    for t in texts:
        if t.strip(' ') and R.expect_real(t)[0] != R.ANY:
            j = R.judge_real(t, f['fortran_float'](t, SENT), SENT)
            if j is not None:
                rec.violation('C16|fortran_float|%s|%s' % (j[0], R.input_class(t)), 'fortran_float(%r) is not %s' % (t, j[1]),
                              {'fn': 'fortran_float', 's': t, 'blank': 'sentinel'})
    # one file per (text, position): the text in one field, fillers elsewhere; plus one file with every text everywhere
    cases = []
    for t in texts:
        for p in range(6):
            v = list(HF_FILL) + list(HF_FILL)
            v[p] = t
            cases.append([v])
    cases.append([[texts[(i + p) % len(texts)] for p in range(6)] for i in range(len(texts))])
    for recs in cases:
        for sig, what in history_case(recs):
            rec.violation(sig, what, {'kind': 'history-file', 'texts': recs})
        rec.case(('HF', repr(recs)), outcome='history-file')
        n += 1
    rec.count('history_file_cases', n)
    rec.sample({'history_record': '     2, 2.000000E+01,       3,0.1230000000E+01,   ,0.7890000000E+03,      17,...'})


def file_class_int(t):
    cls, val = R.expect_int(t)
    if cls == R.NONE:
        return 'not-a-number'
    if cls == R.BLANK:
        return 'blank'
    return 'integer' if ' ' not in t.strip(' ') else 'integer-with-blank'


BASE_STEP = '   1'
BASE_TIMES = ['0.1000000000000000E+01', '.25-101', '*' * 22]


def header_times(step_text, tier):
    """quick: the base step with every time text, every step text with three base times (one deviation at a time);
    thorough: every step text with every quick time text, the base step with the larger time set."""
    if tier == 'quick':
        return time_texts('quick') if step_text == BASE_STEP else BASE_TIMES
    return time_texts('thorough') if step_text == BASE_STEP else time_texts('quick')


def run_H(which_set, tier, rec):
    n = 0
    f = fns()
    for st in step_texts():
        j = R.judge_int(st, f['fortran_int'](st, SENT), SENT)
        if j is not None:
            rec.violation('C16|fortran_int|%s|%s' % (j[0], R.input_class(st)), 'fortran_int(%r) is not %s' % (st, j[1]),
                          {'fn': 'fortran_int', 's': st, 'blank': 'sentinel'})
        for tt in header_times(st, tier):
            for sig, what in header_case(which_set, st, tt):
                rec.violation(sig, what, {'kind': 'listing-header', 'set': which_set, 'step_text': st, 'time_text': tt})
            rec.case(('H', which_set, st, tt), outcome='listing-header')
            n += 1
    rec.count('listing_header_cases', n)
    rec.sample({'listing_header': ' OUTPUT AFTER**** TIME STEPS    0.1000000000000000E+07 SECONDS', 'result_set': which_set})


def run_T(order, tier, rec):
    viol, n, keys = file_route(order, tier)
    for sig, what in viol:
        rec.violation(sig, what, {'kind': 'file', 'order': order, 'tier': tier, 'sig': sig})
    rec.bulk(n, keys, outcome='file-cell')
    rec.count('file_route_records', n)
    lines, blocks = build_incon(tier)
    rec.sample({'file_route': order, 'blocks': len(blocks), 'example_variables_line': blocks[5]['line2']})


def run_unit(unit, tier, rec):
    kind = unit[0]
    if kind == 'B':
        run_B(tier, rec)
    elif kind == 'E':
        run_E(list(unit[1]), tier, rec)
    elif kind == 'F':
        run_F(tier, rec)
    elif kind == 'E2':
        run_E2(unit[1], tier, rec)
    elif kind == 'I':
        run_I(tier, rec)
    elif kind == 'S':
        run_S(unit[1], unit[2], tier, rec)
    elif kind == 'R':
        run_R(unit[1], unit[2], tier, rec)
    elif kind == 'T':
        run_T(unit[1], tier, rec)
    elif kind == 'TE':
        run_TE(unit[1], tier, rec)
    elif kind == 'H':
        run_H(unit[1], tier, rec)
    elif kind == 'HF':
        run_HF(tier, rec)
    elif kind == 'P':
        run_P(unit[1], tier, rec)
    else:
        raise core.HarnessError('unknown unit %r' % (unit,))


def finalize(rec, tier):
    return {'dimensions': {'sign': 'crossed', 'exponent': 'crossed over the tier\'s exponent set',
                           'mantissa_length': 'crossed 1..17', 'digit_pattern': 'bounded: 2 patterns',
                           'style': 'crossed (all distinct texts of 96 option combinations)',
                           'blank_placement': 'every single gap crossed; multiple blanks bounded to padding and 4 combined placements '
                                              '(integers: every subset of gaps)',
                           'two_blanks': 'every pair of gaps crossed on the boundary exponent set',
                           'caller_history': 'every ordered pair of 43 entry points crossed with every text of the history set; depth 2 (A, B, A)',
                           'strings': 'crossed to the length bound', 'replacement': 'every position x every letter, one at a time'}}


def replay(case):
    if case.get('kind') == 'file-ending':
        return ending_case(case['ending'], case['vars'])
    if case.get('kind') == 'history-file':
        return history_case(case['texts'])
    if case.get('kind') == 'listing-header':
        return header_case(case['set'], case['step_text'], case['time_text'])
    if case.get('kind') == 'pair':
        viol, n, pairs = pair_route(case['first'], case['tier'])
        return [(sig, what) for sig, what in viol if sig == case.get('sig', sig)]
    if case.get('kind') == 'file':
        viol, n, keys = file_route(case['order'], case['tier'])
        return [(sig, what) for sig, what in viol if sig == case.get('sig', sig)]
    name, s, blank = case['fn'], case['s'], case.get('blank', 'sentinel')
    if name in ('fortran_read_float', 'fortran_read_int', 'dict_float', 'dict_int'):
        st, got = call(name, s, 'default')
        if st == 'raised':
            return [('C16|%s|raises-%s|%s' % (name, type(got).__name__, R.input_class(s)), '%s(%r) raised %r' % (name, s, got))]
        j = (R.judge_real if 'float' in name else R.judge_int)(s, got, None if not s.strip(' ') else _Never)
        return [] if j is None else [('C16|%s|%s|%s' % (name, j[0], R.input_class(s)),
                                      '%s(%r) returned %r, expected %s' % (name, s, got, j[1]))]
    if blank not in ('default', 'none', 'sentinel'):
        blank = 'sentinel'
    viol, cls = eval_text(name, s, blank)
    return viol
