"""C01 - TOUGH2 data file write/read round trip preserves the whole model.

Engine E2.  Two base models (AUTOUGH2, TOUGH2) hold every section kind legal for the flavour with every optional
field filled and long-mantissa values in every real field.  Enumerated: the bases, every single deviation (quick),
every compatible pair of single deviations (thorough) over
  sections   drop S / keep only S and what it depends on / move S to every legal slot / ENDFI
  lengths    every n of the stated range of every list that is chunked 4 or 8 to a line or repeated per record
  None       every optional field of one record of each kind, singly, all together, pairs within a record (thorough)
crossed with the global modes mesh {in file, MESH, MESHA+MESHB} x extra precision {off, subsets} x echo {off, on}
(quick: all modes x bases, the main modes x every single deviation; thorough: all modes x every single deviation); plus every real data file of the repository.
Two further dimensions on the base models:
  over-wide values   in each of 12 families of fields that share one file and one format (10.4e, 10.3e, 20.14e, 14.7e,
             15.9e, 20.13e, 10.7f of the main file, the same of the MESH file, 15.8e / 15.8f of the companion file, and
             one family mixing four formats) every assignment of value kinds {fits, negative, three-digit exponent,
             negative with three-digit exponent (thorough: + the two other sign / exponent combinations)} to the slots
             of the family, in writing order; every re-read value is judged against the reference rule "the most
             decimals with which the value fits the width", independent of what was written before it
  object histories   before the round trip the object answers queries that may build hidden state (block / connection
             / generator indices, total and specific generation, an earlier write with each mesh carrier) and has
             its grid edited (reorder blocks / connections / both, rename one / swap two, demote, delete, add,
             replace a block): every (query, edit) (thorough: every two rounds) x final mesh carrier; the object's
             own projection after the history is the model the round trip must keep

Oracle (DESIGN C01) for w1 = write(obj); r1 = read(w1); w2 = write(r1); r2 = read(w2); w3 = write(r2):
 * the keyword sequence the reference reader finds in each written file == the sequence the object announced for
   that file, and r1 announces the same (side-file sections appended by the reader are accounted per file);
 * canon(r1) == canon(obj)  (ref/t2canon: names exact in their (A3,I2) meaning, integers exact, None == absent ==
   blank, reals to the reference digits of their field);
 * the reference reader (ref/t2layout: reference columns, ref/fortnum number grammar) applied to the bytes of w1
   yields the same model - so write and read cannot be wrong in compensating ways;
 * w2 == w1 up to trailing blanks and w3 == w2 byte for byte, main file and each side file, compared section by
   section so that one differing section does not hide the others;
 * the model rendered by the reference Fortran-style writer is read by the library as the same model.
For real files: canon(read(orig)) takes the place of the model.
"""
import contextlib
import copy
import io
import itertools
import os
import shutil

from mc import core
from ref import t2canon, t2layout

ID = 'C01'
LEVEL = 'exploration'
ENGINE = 'E2'
EXHAUSTIVE = True
RULE = ('two base models x {no deviation, every single deviation; thorough: every compatible pair of single '
        'deviations (moves in pairs: adjacent swap / to the end / to slot 1)} x global modes (quick: all modes x base, main modes x every single deviation; thorough: all modes x every single deviation); deviations = '
        'drop section S / keep only S (+ stated dependencies) / move S to every legal slot / end keyword; list length := n '
        'for every n of the stated range of every chunked or repeated list; field := None for every optional field of '
        'one record of every kind (+ every pair within a record, + all of them, thorough); plus every real data file. '
        'plus, on the base models: every assignment of over-wide value kinds to the slots of every field family '
        '(WIDE_FAMILIES x WIDE_KINDS) and every history (query, edit) (thorough: two rounds) of OP_QUERIES x OP_EDITS '
        'before a round trip with every mesh carrier. '
        'A case is one five-step write/read chain + reference reader + reference writer; non-trivial when the first '
        'write produced a file; distinct = distinct (base, deviation set, mode, value kinds, history) or file')
ASSUMPTIONS = [
    'values fit their fields at reference precision (except in the over-wide value cases: there a value fits at a '
    'reduced precision, and the reference is the most decimals with which it fits the width - the library\'s '
    'documented "written with reduced precision"); names have the full width of their field; MOP digits 0..9',
    'object histories: only what the object holds after the history (its canonical projection) is the model - the '
    'edits themselves are the subject of other properties; a history step the library refuses (raises) is counted, '
    'not judged, except a write; deleted / replaced blocks are ones nothing else of the object names',
    'optional field = a field for which the library\'s own reader yields None when it is blank; fields whose '
    'in-memory default is a number (tstart, const_timestep, gravity, the four ROCKS.1.1 fields with 0.0 defaults) '
    'and the record keys (names, counts that fix the number of following records) are not set to None',
    'PARAM cannot be dropped (a t2data object always has a parameter dictionary); an object without blocks / '
    'connections has no ELEME / CONNE section (an empty ELEME block makes TOUGH2 overwrite the MESH file); AUTOUGH2 '
    'models keep SIMUL first',
    'legal orders: ROCKS < ELEME < CONNE, MULTI < DIFFU, mesh and GENER < SHORT, mesh < COFT (connection history '
    'is resolved against the grid while reading)',
    'SHORT and COFT only together with the blocks/connections they name (INCON entries need no grid: the mesh may '
    'be in a side file that was not read); with a mesh side file the main file holds no SHORT section and '
    'FOFT/COFT/GOFT hold names',
    'the list of extra-precision sections is a set of names: it is also given in reverse order; the companion file '
    'is looked for under every spelling of the path of the main file (relative / absolute, upper-case first letter)',
    'a dictionary-backed section (LINEQ) with every value None is an absent section, not a deviation',
    'table values avoid double-rounding ties between the 8-digit echo and the 9-digit extra-precision field',
    'the EOS name of MULTI is kept stripped in memory (read_multi strips it, the conversion code compares stripped '
    'names): a blank-padded EOS name is a name shorter than its field, excluded like those',
    'INCON nseq/nadd are used as a pair (documented: "if they are not used they can be set to None or omitted")',
    'extra precision subsets: ELEME only together with ROCKS, CONNE only with ROCKS+ELEME (the companion file is '
    'read before the main file); with a mesh side file ELEME and CONNE are both or neither in extra precision '
    '(documented: side mesh files are read only when no mesh came from the data file); with MESHA+MESHB the mesh '
    'is not also put in the extra-precision file (the 9-digit companion file would override the exact binary '
    'numbers)',
    'binary mesh files carry no nseq/nadd/nad1/nad2; absent ahtx/pmx/sigma/centre are 0.0 there; volume, '
    'distances, area, direction and direction cosine are required there (no None deviation)',
    'reference layouts: ref/t2layout.py (TOUGH2 V2 user guide record formats; AUTOUGH2-only records cross-read '
    'from the shipped files); reference number grammar: ref/fortnum.py',
]
BOUNDS = {
    'quick': {'k': 1, 'modes': 'all modes x base models; every single deviation x {3 mesh carriers} x {extra precision '
                               'off, all sections the carrier allows} x {echo off, on}', 'real_files': 'all 11 (13 file/mesh combinations)',
              'none_fields': 'one record of each kind, every optional field singly + all together',
              'over_wide_values': '12 field families (x MESH carrier for the mesh families) x 4 value kinds ^ all slots '
                                  '(4; 15.9e: 3) x flavour',
              'object_histories': '7 queries x 11 edits x 3 final mesh carriers x flavour; two rounds: first query '
                                  '"indices" x 11 x 7 x 11 x 3 (AUTOUGH2 model)'},
    'thorough': {'k': 2, 'pairs': 'all compatible pairs of single deviations (of the moves: adjacent swap, to the end, '
                                   'to slot 1) + every pair of optional fields within a record',
                 'modes': 'all modes x every single deviation', 'real_files': 'all 11 (13 file/mesh combinations)',
                 'over_wide_values': 'as quick + 6 value kinds ^ 3 slots',
                 'object_histories': 'as quick + every two rounds (7 x 11)^2 x 3 (AUTOUGH2 model)'},
}
TECHNIQUE = ('deviation-bounded exhaustive enumeration of data objects, each driven through the real five-step '
             'write/read chain and compared with a reference column reader, a reference Fortran-style writer and a '
             'canonical projection')
LEVEL_TEXT = ('Every base model, single deviation (sections, list lengths across every 4/8-per-line boundary, None in '
              'every optional field), representative pair and global mode is written and re-read by the real code; '
              'nothing is sampled.')
LEVEL_NOTE = ('Trusted: ref/t2layout.py reference columns and reader/writer, ref/t2canon.py projection, ref/fortnum.py. '
              'In pairs the moves are reduced to three per section; triples are not explored; values are a fixed '
              'alphabet (numeric limits are C02).')

CASE_TIMEOUT = 30            # a case needs about 0.02 s
FILE_TIMEOUT = 600
SIZE_CAP = 4 << 20           # a generated model writes < 20 kB; real files at most 20 x their own size
MAX_TIMEOUTS = 3             # per worker process: after that the remaining cases are not run (cap_hit)
MSG = 600                    # longest message kept
SECTIONS = ['SIMUL', 'ROCKS', 'PARAM', 'MOMOP', 'START', 'NOVER', 'RPCAP', 'LINEQ', 'SOLVR', 'MULTI', 'TIMES',
            'SELEC', 'DIFFU', 'ELEME', 'CONNE', 'MESHM', 'GENER', 'SHORT', 'FOFT', 'COFT', 'GOFT', 'INCON', 'INDOM']
XP_ALL = ['ROCKS', 'ELEME', 'CONNE', 'RPCAP', 'GENER']

# --------------------------------------------------------------------------------------------------
# base models (canonical form, see ref/t2canon.py)

BLOCKS = ['  a 1', '  b 1', ' cc12', 'dd1 3', 'aa1 2', 'bb1 2', ' cc 2', 'dd1 4']   # (A3,I2) canonical spelling

# Real values carry more digits than any field (15), from the digits {1,2,3,6,7,8} only: every field has to
# round (both ways occur), and no rounding position ever sees ...4999/5000, so printing the 9-digit
# extra-precision value with 5 or 8 digits gives the same text as printing the original (no double rounding).
_DIG = '1236782317683271'


def V(k, e=0, sign=1):
    d = (_DIG[k % 16:] + _DIG[:k % 16])[:15]
    return sign * float('%s.%se%d' % (d[0], d[1:], e))


def VL(n, k0=0, e=0, sign=1, alt=False):
    """n distinct long-mantissa values, increasing in magnitude (alt: alternating sign)."""
    return [V(k0 + i, e + i // 16, (-1 if (alt and i % 2) else 1) * sign) * (1 + i // 16 * 0) for i in range(n)]


def _rocks():
    rp = {'type': 3, 'parameters': [V(1, -1), V(2, -2), V(3), V(4, -1), V(5, -1), V(6), V(7, -1)]}
    cp = {'type': 1, 'parameters': [V(8, 6), V(9, -1), V(10), V(11, -1), V(12, -2), V(13), V(14)]}
    l1 = {'compressibility': V(1, -10), 'expansivity': V(2, -5), 'dry_conductivity': V(3), 'tortuosity': V(4, -1),
          'klinkenberg': V(5, 5), 'xkd3': V(6, -3), 'xkd4': V(7, -3)}
    return [
        {'name': 'dfalt', 'nad': 0, 'density': V(0, 3), 'porosity': V(1, -1), 'k1': V(2, -15), 'k2': V(3, -15),
         'k3': V(4, -16), 'conductivity': V(5), 'specific_heat': V(6, 3)},
        {'name': 'rock1', 'nad': 1, 'density': V(7, 3), 'porosity': V(8, -1), 'k1': V(9, -13), 'k2': V(10, -13),
         'k3': V(11, -14), 'conductivity': V(12), 'specific_heat': V(13, 2), 'l1': dict(l1)},
        {'name': 'ATMOS', 'nad': 2, 'density': V(14, 3), 'porosity': V(15, -1), 'k1': V(0, -12), 'k2': V(1, -12),
         'k3': V(2, -12), 'conductivity': V(3, -1), 'specific_heat': V(4, 4), 'l1': dict(l1), 'rp': copy.deepcopy(rp),
         'cp': copy.deepcopy(cp)},
    ]


def _blocks():
    out = []
    rocks = ['dfalt', 'rock1', 'ATMOS']
    for i, name in enumerate(BLOCKS):
        out.append({'name': name, 'nseq': 1 + i % 3, 'nadd': 1 + i % 2, 'rocktype': rocks[i % 3],
                    'volume': V(i, [3, 3, 5, 30][i % 4]), 'ahtx': V(i + 1, 1), 'pmx': V(i + 2),
                    'x': V(i + 3, 1 + i % 2), 'y': V(i + 4, 2), 'z': V(i + 5, 1 + i // 4, -1)})
    return out


def _connections():
    pairs = [(0, 1, 1), (2, 3, 1), (0, 2, 2), (1, 3, 2), (4, 5, 1), (6, 7, 1), (4, 6, 2), (5, 7, 2),
             (0, 4, 3), (1, 5, 3), (2, 6, 3), (3, 7, 3)]
    out = []
    for k, (i, j, d) in enumerate(pairs):
        out.append({'block1': BLOCKS[i], 'block2': BLOCKS[j], 'nseq': 1 + k % 2, 'nad1': 1 + k % 3, 'nad2': 2,
                    'direction': d, 'distance1': V(k, 1), 'distance2': V(k + 1, 1), 'area': V(k + 2, 3),
                    'dircos': [0.0, -1.0, V(6, -1), V(7, -1, -1)][k % 4], 'sigma': V(k + 3, -1)})
    return out


def _generators(flavour):
    special = 'DELG' if flavour == 'AUTOUGH2' else 'COM2'
    return [
        {'block': BLOCKS[0], 'name': 'wel 1', 'nseq': 1, 'nadd': 2, 'nads': 3, 'ltab': 1, 'type': 'MASS', 'itab': None,
         'gx': V(1, 1, -1), 'ex': V(2, 6), 'hg': V(3, 2), 'fg': V(4, -1), 'time': [], 'rate': [], 'enthalpy': []},
        {'block': BLOCKS[3], 'name': 'ht1 2', 'nseq': None, 'nadd': None, 'nads': None, 'ltab': 0, 'type': 'HEAT',
         'itab': None, 'gx': V(5, 4), 'ex': None, 'hg': None, 'fg': None, 'time': [], 'rate': [], 'enthalpy': []},
        {'block': BLOCKS[4], 'name': 'tab 1', 'nseq': 1, 'nadd': 1, 'nads': 1, 'ltab': 5, 'type': 'MASS', 'itab': None,
         'gx': 0.0, 'ex': V(6, 5), 'hg': V(7), 'fg': V(8, -1), 'time': [0.0] + VL(4, 1, 5),
         'rate': VL(5, 2, 0, -1, True), 'enthalpy': []},
        {'block': BLOCKS[4], 'name': 'tab 2', 'nseq': 1, 'nadd': 1, 'nads': 1, 'ltab': 6, 'type': 'MASS', 'itab': 'E',
         'gx': V(9), 'ex': V(10, 5), 'hg': V(11), 'fg': V(12, -1), 'time': VL(6, 3, 5), 'rate': VL(6, 4, 0, 1, True),
         'enthalpy': VL(6, 5, 5)},
        {'block': BLOCKS[7], 'name': 'del 1', 'nseq': 2, 'nadd': 1, 'nads': 1, 'ltab': 3, 'type': 'DELV', 'itab': None,
         'gx': V(13, -12), 'ex': V(14, 6), 'hg': V(15, 1), 'fg': V(0), 'time': [], 'rate': [], 'enthalpy': []},
        {'block': BLOCKS[5], 'name': 'spc 9', 'nseq': 1, 'nadd': 1, 'nads': 1, 'ltab': 1, 'type': special, 'itab': None,
         'gx': V(1, -11), 'ex': V(2, 5), 'hg': V(3, 6), 'fg': V(4), 'time': [], 'rate': [], 'enthalpy': []},
    ]


def _param(flavour):
    p = {'max_iterations': 8, 'print_level': 2, 'max_timesteps': 500, 'max_duration': 900, 'print_interval': 50,
         'option': '100210003400056000780009', 'texp': V(1), 'be': V(2, -1),
         'tstart': V(3, 3), 'tstop': V(4, 9), 'const_timestep': -2.0, 'max_timestep': V(5, 7), 'print_block': BLOCKS[3],
         'gravity': V(6), 'timestep_reduction': V(7), 'scale': V(8),
         'timestep': VL(9, 1, 2),
         'relative_error': V(9, -5), 'absolute_error': V(10), 'pivot': V(11, -1), 'upstream_weight': V(12),
         'newton_weight': V(13, -1), 'derivative_increment': V(14, -8),
         'default_incons': [V(0, 5), V(1, 1), V(2, -1), V(3, -4), V(4, 1, -1)]}
    if flavour == 'AUTOUGH2':
        p['diff0'] = V(15, -5)
    return p


def base_model(flavour):
    """-> (model, ordered section list)."""
    M = {'title': 'C01 base model, %s flavour' % flavour}
    M['ROCKS'] = _rocks()
    M['PARAM'] = _param(flavour)
    M['START'] = True
    M['NOVER'] = True
    M['RPCAP'] = {'rp': {'type': 1, 'parameters': [V(1, -1), V(2, -2), V(3), V(4, -1), V(5, -1), V(6), V(7, -1)]},
                  'cp': {'type': 7, 'parameters': [V(8, -1), V(9, -3), V(10, -4), V(11, 7), V(12), V(13, -1),
                                                   V(14, -1)]}}
    M['TIMES'] = {'num_times_specified': 9, 'num_times': 11, 'max_timestep': V(1, 6), 'time_increment': V(2, 5),
                  'time': VL(9, 3, 3)}
    M['SELEC'] = {'integer': [2] + [k for k in range(1, 16)],
                  'float': VL(10, 0, 0, 1, True)}
    M['DIFFU'] = [[V(1, -5), V(2, -10)], [V(3, -5), V(4, -10)]]
    M['ELEME'] = _blocks()
    M['CONNE'] = _connections()
    M['GENER'] = _generators(flavour)
    M['INCON'] = {
        BLOCKS[0]: {'block': BLOCKS[0], 'nseq': 1, 'nadd': 2, 'porosity': V(1, -1),
                    'variables': [V(2, 5), V(3, 1), V(6, -1), V(7, -3, -1)]},
        BLOCKS[3]: {'block': BLOCKS[3], 'nseq': None, 'nadd': None, 'porosity': V(8, -1),
                    'variables': [V(9, 5), V(10, 2)]},
        BLOCKS[4]: {'block': BLOCKS[4], 'nseq': 2, 'nadd': 1, 'porosity': V(11, -1),
                    'variables': [V(12, 5), V(13, -1), V(14, 1)]},
    }
    M['INDOM'] = {'dfalt': [V(0, 5), V(1, 1), V(2, -1)], 'ATMOS': [V(3, 5), V(4, 1), V(5, -1), V(6, -5, -1)]}
    if flavour == 'AUTOUGH2':
        M['SIMUL'] = 'AUTOUGH2.2EWAV'
        M['LINEQ'] = {'type': 2, 'epsilon': V(1, -11), 'max_iterations': 999, 'gauss': 1, 'num_orthog': 100}
        M['MULTI'] = {'num_components': 2, 'num_equations': 3, 'num_phases': 2, 'num_secondary_parameters': 6,
                      'eos': 'EWAV'}
        M['SHORT'] = {'frequency': 5, 'block': [BLOCKS[0], BLOCKS[3], BLOCKS[4]],
                      'connection': [(BLOCKS[0], BLOCKS[1]), (BLOCKS[3], BLOCKS[7])],
                      'generator': [(BLOCKS[0], 'wel 1'), (BLOCKS[3], 'ht1 2'), (BLOCKS[4], 'tab 2')]}
        order = ['SIMUL', 'ROCKS', 'PARAM', 'START', 'NOVER', 'RPCAP', 'LINEQ', 'MULTI', 'TIMES', 'SELEC', 'DIFFU',
                 'ELEME', 'CONNE', 'GENER', 'SHORT', 'INCON', 'INDOM']
    else:
        M['MOMOP'] = '120000000300000000045'
        M['SOLVR'] = {'type': 5, 'z_precond': 'Z1', 'o_precond': 'O0', 'relative_max_iterations': V(1, -1),
                      'closure': V(2, -6)}
        M['MULTI'] = {'num_components': 2, 'num_equations': 3, 'num_phases': 2, 'num_secondary_parameters': 6,
                      'num_inc': 3}
        M['MESHM'] = [
            ('rz2d', [('radii', {'radii': [0.0, V(1, -1), V(2)]}), ('equid', {'nequ': 4, 'dr': V(3)}),
                      ('logar', {'nlog': 10, 'rlog': V(4, 2), 'dr': V(5, -1)}),
                      ('layer', {'layer': VL(3, 6, 1)})]),
            ('xyz', {'deg': V(7, 1), 'sub': [{'ntype': 'NX', 'no': 4, 'del': V(8, 1)},
                                             {'ntype': 'NY', 'no': 1, 'del': V(9)},
                                             {'ntype': 'NZ', 'no': 3, 'del': 0.0, 'deli': VL(3, 10, 1)}]}),
            ('minc', {'type': 'THRED', 'dual': 'MMVER', 'num_continua': 3, 'where': 'OUT ',
                      'spacing': VL(7, 11, 1), 'vol': VL(3, 2, -2)}),
        ]
        M['FOFT'] = [BLOCKS[0], BLOCKS[3], BLOCKS[4]]
        M['COFT'] = [(BLOCKS[0], BLOCKS[1]), (BLOCKS[3], BLOCKS[7])]
        M['GOFT'] = [BLOCKS[0], BLOCKS[4]]
        order = ['ROCKS', 'PARAM', 'MOMOP', 'START', 'NOVER', 'RPCAP', 'SOLVR', 'MULTI', 'TIMES', 'SELEC', 'DIFFU',
                 'ELEME', 'CONNE', 'MESHM', 'GENER', 'FOFT', 'COFT', 'GOFT', 'INCON', 'INDOM']
    return M, order


# --------------------------------------------------------------------------------------------------
# model -> t2data object (through the library's own constructors)


def _mem_name(n):
    """In-memory spelling of a canonical (A3,I2) name: the library keeps 'aa1 2' as 'aa102'."""
    if n is None:
        return None
    if len(n) == 5 and n[2].isdigit() and n[4].isdigit() and n[3] == ' ':
        return n[:3] + '0' + n[4]
    return n


def build(M, order):
    import numpy as np
    import t2data
    from t2grids import rocktype, t2block, t2connection
    dat = t2data.t2data()
    dat.title = M.get('title', '')
    if M.get('SIMUL'):
        dat.simulator = M['SIMUL']
    g = dat.grid
    for r in M.get('ROCKS') or []:
        rt = rocktype(r['name'], r['nad'], r['density'], r['porosity'], [r['k1'], r['k2'], r['k3']],
                      r['conductivity'], r['specific_heat'])
        for k, v in (r.get('l1') or {}).items():
            rt.__dict__[k] = v
        if r.get('rp') is not None:
            rt.relative_permeability = {'type': r['rp']['type'], 'parameters': list(r['rp']['parameters'])}
        if r.get('cp') is not None:
            rt.capillarity = {'type': r['cp']['type'], 'parameters': list(r['cp']['parameters'])}
        g.add_rocktype(rt)
    P = M.get('PARAM')
    if P is not None:
        for k, v in P.items():
            if k == 'option':
                dat.parameter['option'] = np.array([0] + [int(c) for c in v], np.int8)
            elif k == 'print_block':
                dat.parameter[k] = _mem_name(v)
            elif k == 'timestep':
                dat.parameter[k] = list(v) if v is not None else []
            elif k == 'default_incons':
                dat.parameter[k] = list(v)
            else:
                dat.parameter[k] = v
    if M.get('MOMOP'):
        dat.more_option = np.array([0] + [int(c) for c in M['MOMOP']], np.int8)
    dat.start = bool(M.get('START'))
    dat.noversion = bool(M.get('NOVER'))
    if M.get('RPCAP'):
        dat.relative_permeability = {'type': M['RPCAP']['rp']['type'],
                                     'parameters': list(M['RPCAP']['rp']['parameters'])}
        dat.capillarity = {'type': M['RPCAP']['cp']['type'], 'parameters': list(M['RPCAP']['cp']['parameters'])}
    for kw, attr in (('LINEQ', 'lineq'), ('SOLVR', 'solver'), ('MULTI', 'multi')):
        if M.get(kw):
            setattr(dat, attr, dict(M[kw]))
    if M.get('TIMES'):
        dat.output_times = dict(M['TIMES'])
        dat.output_times['time'] = list(M['TIMES'].get('time') or [])
    if M.get('SELEC'):
        dat.selection = {'integer': list(M['SELEC']['integer']), 'float': list(M['SELEC']['float'])}
    if M.get('DIFFU'):
        dat.diffusion = [list(c) for c in M['DIFFU']]
    for b in M.get('ELEME') or []:
        centre = None if b['x'] is None else [b['x'], b['y'], b['z']]
        g.add_block(t2block(_mem_name(b['name']), b['volume'], g.rocktype[b['rocktype']], centre=centre,
                            ahtx=b['ahtx'], pmx=b['pmx'], nseq=b['nseq'], nadd=b['nadd']))
    for c in M.get('CONNE') or []:
        g.add_connection(t2connection([g.block[_mem_name(c['block1'])], g.block[_mem_name(c['block2'])]],
                                      c['direction'], [c['distance1'], c['distance2']], c['area'], c['dircos'],
                                      c['sigma'], c['nseq'], c['nad1'], c['nad2']))
    for typ, sec in M.get('MESHM') or []:
        if typ == 'rz2d':
            dat.meshmaker.append(('rz2d', [(st, copy.deepcopy(sub)) for st, sub in sec]))
        elif typ == 'xyz':
            dat.meshmaker.append(('xyz', [sec['deg']] + [copy.deepcopy(s) for s in sec['sub']]))
        else:
            dat.meshmaker.append(('minc', copy.deepcopy(sec)))
    for x in M.get('GENER') or []:
        dat.add_generator(t2data.t2generator(
            name=_mem_name(x['name']), block=_mem_name(x['block']), nseq=x['nseq'], nadd=x['nadd'], nads=x['nads'],
            type=x['type'], ltab=x['ltab'], itab=x['itab'] if x['itab'] is not None else '', gx=x['gx'], ex=x['ex'],
            hg=x['hg'], fg=x['fg'], time=list(x['time']), rate=list(x['rate']), enthalpy=list(x['enthalpy'])))
    have_grid = bool(M.get('ELEME'))
    S = M.get('SHORT')
    if S:
        so = {}
        if S.get('frequency') is not None:
            so['frequency'] = S['frequency']
        if 'block' in S:
            so['block'] = [g.block[_mem_name(n)] for n in S['block']]
        if 'connection' in S:
            so['connection'] = [g.connection[(_mem_name(a), _mem_name(b))] for a, b in S['connection']]
        if 'generator' in S:
            so['generator'] = [dat.generator[(_mem_name(a), _mem_name(b))] for a, b in S['generator']]
        dat.short_output = so
    if M.get('FOFT'):
        dat.history_block = [g.block[_mem_name(n)] if have_grid else _mem_name(n) for n in M['FOFT']]
    if M.get('COFT'):
        dat.history_connection = [g.connection[(_mem_name(a), _mem_name(b))] if have_grid
                                  else (_mem_name(a), _mem_name(b)) for a, b in M['COFT']]
    if M.get('GOFT'):
        dat.history_generator = [g.block[_mem_name(n)] if have_grid else _mem_name(n) for n in M['GOFT']]
    for name, a in (M.get('INCON') or {}).items():
        v = [a['porosity'], list(a['variables'])]
        if a.get('nseq') is not None or a.get('nadd') is not None:
            v += [a.get('nseq'), a.get('nadd')]
        dat.incon[_mem_name(name)] = v
    for rock, vals in (M.get('INDOM') or {}).items():
        dat.indom[rock] = list(vals)
    dat._sections = list(order)
    return dat


# --------------------------------------------------------------------------------------------------
# deviations: pure functions (model, order) -> (model, order) or None when not applicable


def _has(M, kw):
    v = M.get(kw)
    return v is not None and v is not False and (not hasattr(v, '__len__') or len(v) > 0)


def _drop_keys(M, order, kws):
    M = dict(M)
    for k in kws:
        M.pop(k, None)
    return M, [s for s in order if s not in kws]


def _restrict_refs(M):
    """Keep only references that resolve: items of SHORT / FOFT / COFT / GOFT / INCON / GENER-independent."""
    M = dict(M)
    blocks = set(b['name'] for b in M.get('ELEME') or [])
    cons = set((c['block1'], c['block2']) for c in M.get('CONNE') or [])
    gens = set((x['block'], x['name']) for x in M.get('GENER') or [])
    if 'CONNE' in M:
        M['CONNE'] = [c for c in M['CONNE'] if c['block1'] in blocks and c['block2'] in blocks]
        cons = set((c['block1'], c['block2']) for c in M['CONNE'])
    if M.get('SHORT'):
        S = dict(M['SHORT'])
        if 'block' in S:
            S['block'] = [n for n in S['block'] if n in blocks]
        if 'connection' in S:
            S['connection'] = [p for p in S['connection'] if p in cons]
        if 'generator' in S:
            S['generator'] = [p for p in S['generator'] if p in gens]
        M['SHORT'] = S
    if blocks:
        for kw in ('FOFT', 'GOFT'):
            if M.get(kw):
                M[kw] = [n for n in M[kw] if n in blocks]
        if M.get('COFT'):
            M['COFT'] = [p for p in M['COFT'] if p in cons]
    else:
        M.pop('SHORT', None)
    return M


def _prune(M, order):
    """Drop sections that became empty from the order."""
    # (an object without blocks / connections has no ELEME / CONNE section: an empty ELEME block in a TOUGH2
    # input makes the simulator write an empty MESH file over the real one)
    order = [s for s in order if s == 'PARAM' or _has(M, s)]
    M = dict((k, v) for k, v in M.items() if k == 'title' or _has(M, k))
    return M, order


DEPENDS = {'ELEME': ['ROCKS'], 'CONNE': ['ROCKS', 'ELEME'], 'SHORT': ['ROCKS', 'ELEME', 'CONNE', 'GENER'],
           'INCON': [], 'DIFFU': ['MULTI'], 'COFT': [], 'FOFT': [], 'GOFT': []}


def legal_order(order):
    pos = dict((s, i) for i, s in enumerate(order))

    def before(a, b):
        return a not in pos or b not in pos or pos[a] < pos[b]
    if 'SIMUL' in pos and pos['SIMUL'] != 0:
        return False
    ok = before('ROCKS', 'ELEME') and before('ELEME', 'CONNE') and before('MULTI', 'DIFFU')
    for s in ('ELEME', 'CONNE', 'GENER'):
        ok = ok and before(s, 'SHORT')
    for s in ('ELEME', 'CONNE'):
        ok = ok and before(s, 'COFT')
    return ok


def noncanon(order):
    """A legal order far from the canonical one: run parameters first, initial conditions and generators before
    the mesh (what a file written by hand or by another tool looks like)."""
    front = [x for x in ('SIMUL', 'PARAM', 'MULTI', 'TIMES', 'START') if x in order]
    early = [x for x in ('INDOM', 'INCON', 'GENER', 'MESHM') if x in order]
    rest = [x for x in order if x not in front and x not in early]
    i = rest.index('ELEME') if 'ELEME' in rest else len(rest)
    return front + rest[:i] + early + rest[i:]


def apply_dev(M, order, dev):
    kind = dev[0]
    if kind == 'drop':
        S = dev[1]
        if S not in order or S in ('PARAM', 'SIMUL'):
            return None
        if S == 'ROCKS':
            return None if M.get('ELEME') else _prune(*_drop_keys(M, order, ['ROCKS']))
        if S == 'ELEME':
            M2 = dict(M)
            M2['ELEME'], M2['CONNE'] = [], []
            M2 = _restrict_refs(M2)
            return _prune(M2, order)
        if S == 'CONNE':
            M2 = dict(M)
            M2['CONNE'] = []
            M2 = _restrict_refs(M2)
            return _prune(M2, order)
        M2, o2 = _drop_keys(M, order, [S] + (['DIFFU'] if S == 'MULTI' else []))
        M2 = _restrict_refs(M2)
        return _prune(M2, o2)
    if kind == 'only':
        S = dev[1]
        if S not in order or S == 'SIMUL':
            return None
        keep = set([S, 'PARAM', 'SIMUL'] + DEPENDS.get(S, []))
        M2 = dict((k, v) for k, v in M.items() if k == 'title' or k in keep)
        if 'ELEME' not in keep:
            M2['ELEME'], M2['CONNE'] = [], []
        elif 'CONNE' not in keep:
            M2['CONNE'] = []
        M2 = _restrict_refs(M2)
        return _prune(M2, [s for s in order if s in keep or s in ('ELEME', 'CONNE')])
    if kind == 'move':
        S, j = dev[1], dev[2]
        if S not in order:
            return None
        i = order.index(S)
        rest = [s for s in order if s != S]
        if j == i or j > len(rest):
            return None
        new = rest[:j] + [S] + rest[j:]
        if new == order or not legal_order(new):
            return None
        return M, new
    if kind == 'end':
        return M, order      # handled through the mode of the case (end keyword)
    if kind == 'len':
        return _apply_len(M, order, dev[1], dev[2])
    if kind == 'none':
        return _apply_none(M, order, dev[1], dev[2])
    if kind == 'trail':
        return _apply_trail(M, order, dev[1])
    if kind == 'perm':
        new = noncanon(order)
        return (M, new) if (new != order and legal_order(new)) else None
    if kind == 'late':
        # the section has its data but is not in the object's section list: the library inserts it when the
        # object is written (handled in the chain); 'P': into the legal non-canonical order
        if dev[1] not in order:
            return None
        if len(dev) > 2:
            new = noncanon(order)
            return (M, new) if legal_order(new) else None
        return M, order
    if kind == 'rzdrop':
        if not M.get('MESHM') or M['MESHM'][0][0] != 'rz2d':
            return None
        M2 = dict(M)
        typ, sec = M['MESHM'][0]
        if dev[1] >= len(sec) - 1:
            return None
        M2['MESHM'] = [(typ, [x for j, x in enumerate(sec) if j != dev[1]])] + list(M['MESHM'][1:])
        return M2, order
    if kind == 'mesubset':
        if not M.get('MESHM'):
            return None
        M2 = dict(M)
        M2['MESHM'] = [M['MESHM'][i] for i in dev[1]]
        return M2, order
    raise ValueError(dev)


_SER = VL(20, 5, 0)


def _apply_len(M, order, what, n):
    M = copy.deepcopy(M)
    if what == 'default_incons':
        M['PARAM']['default_incons'] = VL(n, 3, 2, 1, True)
    elif what == 'timestep':
        if n == 0:
            M['PARAM']['const_timestep'] = V(5, 2)
            M['PARAM']['timestep'] = None
        else:
            M['PARAM']['const_timestep'] = -float((n + 7) // 8)
            M['PARAM']['timestep'] = VL(n, 7, 1)
    elif what == 'times':
        if 'TIMES' not in M:
            return None
        M['TIMES']['num_times_specified'] = n
        M['TIMES']['time'] = VL(n, 9, 3)
    elif what in ('gen_rate', 'gen_enth'):
        if not M.get('GENER') or len(M['GENER']) < 3:
            return None
        x = M['GENER'][2]
        x['ltab'] = n
        x['itab'] = 'E' if what == 'gen_enth' else None
        x['time'] = VL(n, 11, 4) if n > 1 else []
        x['rate'] = VL(n, 12, 0, -1, True) if n > 1 else []
        x['enthalpy'] = VL(n, 13, 5) if (n > 1 and what == 'gen_enth') else []
        if n <= 1 and what == 'gen_enth':
            return None
    elif what == 'selec':
        if 'SELEC' not in M:
            return None
        M['SELEC']['integer'][0] = (n + 7) // 8
        M['SELEC']['float'] = _SER[:n]
    elif what in ('radii', 'layer', 'deli', 'vol'):
        if not M.get('MESHM'):
            return None
        for typ, sec in M['MESHM']:
            if typ == 'rz2d' and what in ('radii', 'layer'):
                for st, sub in sec:
                    if st == what:
                        sub[what] = _SER[:n]
            elif typ == 'xyz' and what == 'deli':
                sec['sub'][-1]['no'] = n
                sec['sub'][-1]['deli'] = _SER[:n]
            elif typ == 'minc' and what == 'vol':
                sec['vol'] = VL(n, 4, -2)
    elif what == 'diffu':
        nk, nph = n
        if 'DIFFU' not in M or 'MULTI' not in M:
            return None
        M['MULTI']['num_components'], M['MULTI']['num_phases'] = nk, nph
        M['DIFFU'] = [[V(i + 3 * j, -5 - 5 * j) for j in range(nph)] for i in range(nk)]
    elif what == 'rocks':
        if 'ROCKS' not in M or len(M['ROCKS']) < n:
            return None
        M['ROCKS'] = M['ROCKS'][:n]
        names = [r['name'] for r in M['ROCKS']]
        if n == 0:
            M['ELEME'], M['CONNE'] = [], []
        else:
            for b in M.get('ELEME') or []:
                if b['rocktype'] not in names:
                    b['rocktype'] = names[0]
        M = _restrict_refs(M)
    elif what == 'blocks':
        if not M.get('ELEME'):
            return None
        M['ELEME'] = M['ELEME'][:n]
        M = _restrict_refs(M)
    elif what == 'connections':
        if not M.get('CONNE'):
            return None
        M['CONNE'] = M['CONNE'][:n]
        M = _restrict_refs(M)
    elif what == 'generators':
        if 'GENER' not in M:
            return None
        M['GENER'] = M['GENER'][:n]
        M = _restrict_refs(M)
    elif what == 'incons':
        if 'INCON' not in M:
            return None
        M['INCON'] = dict(list(M['INCON'].items())[:n])
    elif what == 'indom':
        if 'INDOM' not in M:
            return None
        M['INDOM'] = dict(list(M['INDOM'].items())[:n])
    elif what in ('FOFT', 'COFT', 'GOFT'):
        if what not in M:
            return None
        M[what] = M[what][:n]
    elif what in ('short_block', 'short_connection', 'short_generator'):
        if 'SHORT' not in M:
            return None
        key = what.split('_')[1]
        if n < 0:
            M['SHORT'].pop(key, None)
        else:
            M['SHORT'][key] = M['SHORT'][key][:n]
    elif what in ('incon_vars', 'indom_vars'):
        kw = 'INCON' if what == 'incon_vars' else 'INDOM'
        if not M.get(kw):
            return None
        k0 = list(M[kw].keys())[0]
        vals = [V(1, 5), V(2, 1), V(3, -1), V(4, -3, -1)][:n]
        if kw == 'INCON':
            M[kw][k0]['variables'] = vals
        else:
            M[kw][k0] = vals
    else:
        raise ValueError(what)
    return _prune(M, order)


TRAIL = ['rock', 'gen_type', 'gen_name', 'z_precond', 'o_precond', 'minc_type', 'minc_dual', 'xyz_ntype',
         'print_block', 'indom_rock']


def _apply_trail(M, order, what):
    """A text field of full width whose last characters are blanks ('DFLT ', 'rk1  ', 'AIR ')."""
    M = copy.deepcopy(M)
    if what in ('rock', 'indom_rock'):
        if not M.get('ROCKS'):
            return None
        old, new = M['ROCKS'][0]['name'], 'rk1  '
        if what == 'indom_rock' and old not in (M.get('INDOM') or {}):
            return None
        M['ROCKS'][0]['name'] = new
        for b in M.get('ELEME') or []:
            if b['rocktype'] == old:
                b['rocktype'] = new
        if M.get('INDOM') and old in M['INDOM']:
            M['INDOM'] = dict((new if k == old else k, v) for k, v in M['INDOM'].items())
    elif what in ('gen_type', 'gen_name'):
        if not M.get('GENER'):
            return None
        g = M['GENER'][0]
        if what == 'gen_type':
            g['type'] = 'AIR '
        else:
            old, new = g['name'], 'inj  '
            g['name'] = new
            if M.get('SHORT') and 'generator' in M['SHORT']:
                M['SHORT']['generator'] = [(a, new if (a == g['block'] and b == old) else b)
                                           for a, b in M['SHORT']['generator']]
    elif what == 'eos':
        if 'eos' not in (M.get('MULTI') or {}):
            return None
        M['MULTI']['eos'] = 'EW  '
    elif what in ('z_precond', 'o_precond'):
        if not M.get('SOLVR'):
            return None
        M['SOLVR'][what] = what[0].upper() + ' '
    elif what in ('minc_type', 'minc_dual', 'xyz_ntype'):
        hit = False
        mm = []
        for typ, sec in M.get('MESHM') or []:
            if typ == 'minc' and what != 'xyz_ntype':
                sec[what[5:]] = 'ONE  ' if what == 'minc_type' else 'DFLT '
                hit = True
            elif typ == 'xyz' and what == 'xyz_ntype':
                sec['sub'][0]['ntype'] = 'N '
                hit = True
            mm.append((typ, sec))
        if not hit:
            return None
        M['MESHM'] = mm
    elif what == 'print_block':
        # a block name ending in a blank: (A3, I2) with a blank number field is not a TOUGH2 name; use a
        # name whose number needs the repair instead
        names = [b['name'] for b in M.get('ELEME') or []]
        if 'aa1 2' not in names:
            return None
        M['PARAM']['print_block'] = 'aa1 2'
    else:
        raise ValueError(what)
    return M, order


# optional fields per record kind: (id, section, locator, fields)
def none_targets(M):
    T = []
    if M.get('ROCKS'):
        i = len(M['ROCKS']) - 1
        T.append(('rocks1', ('ROCKS', i), ['nad', 'density', 'porosity', 'k1', 'k2', 'k3', 'conductivity',
                                           'specific_heat']))
        if M['ROCKS'][i].get('l1'):
            T.append(('rocks1.1', ('ROCKS', i, 'l1'), ['klinkenberg', 'xkd3', 'xkd4']))
        if M['ROCKS'][i].get('rp'):
            T.append(('rocks1.2', ('ROCKS', i, 'rp'), ['type'] + ['parameters:%d' % k for k in range(7)]))
            T.append(('rocks1.3', ('ROCKS', i, 'cp'), ['type'] + ['parameters:%d' % k for k in range(7)]))
    P = M.get('PARAM')
    if P:
        T.append(('param1', ('PARAM',), ['max_iterations', 'print_level', 'max_timesteps', 'max_duration',
                                         'print_interval'] + (['diff0'] if 'diff0' in P else []) + ['texp', 'be']))
        T.append(('param2', ('PARAM',), ['tstop', 'max_timestep', 'print_block', 'timestep_reduction', 'scale']))
        T.append(('param3', ('PARAM',), ['relative_error', 'absolute_error', 'pivot', 'upstream_weight',
                                         'newton_weight', 'derivative_increment']))
        n_inc = len(P.get('default_incons') or [])
        if n_inc >= 3:
            # every position but the last (a trailing None is an absent value, not a blank field)
            T.append(('param4', ('PARAM',), ['default_incons:%d' % k for k in range(n_inc - 1)]))
    if M.get('RPCAP'):
        T.append(('rpcap1', ('RPCAP', 'rp'), ['type'] + ['parameters:%d' % k for k in range(7)]))
        T.append(('rpcap2', ('RPCAP', 'cp'), ['type'] + ['parameters:%d' % k for k in range(7)]))
    if M.get('LINEQ'):
        T.append(('lineq', ('LINEQ',), ['type', 'epsilon', 'max_iterations', 'gauss', 'num_orthog']))
    if M.get('SOLVR'):
        T.append(('solvr', ('SOLVR',), ['type', 'z_precond', 'o_precond', 'relative_max_iterations', 'closure']))
    if M.get('MULTI'):
        f = ['num_equations', 'num_secondary_parameters'] + [k for k in ('num_inc', 'eos') if k in M['MULTI']]
        if not M.get('DIFFU'):
            f += ['num_components', 'num_phases']
        T.append(('multi', ('MULTI',), f))
    if M.get('TIMES'):
        T.append(('times1', ('TIMES',), ['num_times', 'max_timestep', 'time_increment']))
    if M.get('SELEC'):
        T.append(('selec1', ('SELEC',), ['integer:%d' % k for k in range(1, 16)]))
        if len(M['SELEC']['float']) >= 10:
            T.append(('selec2', ('SELEC',), ['float:%d' % k for k in (0, 3, 7, 8)]))
    if M.get('DIFFU') and len(M['DIFFU'][0]) >= 2:
        T.append(('diffu', ('DIFFU', 0), [':0']))
    if M.get('ELEME'):
        T.append(('eleme', ('ELEME', 0), ['nseq', 'nadd', 'volume', 'ahtx', 'pmx', 'xyz']))
    if M.get('CONNE'):
        T.append(('conne', ('CONNE', 0), ['nseq', 'nad1', 'nad2', 'direction', 'distance1', 'distance2', 'area',
                                          'dircos', 'sigma']))
    if M.get('GENER'):
        T.append(('gener1', ('GENER', 0), ['nseq', 'nadd', 'nads', 'ltab', 'type', 'gx', 'ex', 'hg', 'fg']))
    if M.get('INCON'):
        k0 = list(M['INCON'].keys())[0]
        T.append(('incon1', ('INCON', k0), ['nseq+nadd', 'nadd', 'porosity']))
        if len(M['INCON'][k0]['variables']) >= 3:
            T.append(('incon2', ('INCON', k0), ['variables:%d' % k
                                                for k in range(len(M['INCON'][k0]['variables']) - 1)]))
    if M.get('INDOM'):
        k0 = list(M['INDOM'].keys())[0]
        if len(M['INDOM'][k0]) >= 3:
            T.append(('indom2', ('INDOM', k0), [':%d' % k for k in range(len(M['INDOM'][k0]) - 1)]))
    if M.get('SHORT'):
        T.append(('short', ('SHORT',), ['frequency']))
    for idx, (typ, sec) in enumerate(M.get('MESHM') or []):
        if typ == 'rz2d':
            for j, (st, sub) in enumerate(sec):
                if st == 'equid':
                    T.append(('equid', ('MESHM', idx, 1, j, 1), ['dr']))
                elif st == 'logar':
                    T.append(('logar', ('MESHM', idx, 1, j, 1), ['rlog', 'dr']))
        elif typ == 'xyz':
            T.append(('xyz1', ('MESHM', idx, 1), ['deg']))
            T.append(('xyz2', ('MESHM', idx, 1, 'sub', 0), ['no', 'del']))
        elif typ == 'minc':
            T.append(('minc1', ('MESHM', idx, 1), ['type', 'dual']))
            T.append(('part1', ('MESHM', idx, 1), ['num_continua', 'where'] + ['spacing:%d' % k for k in range(7)]))
    return T


def _locate(M, loc):
    node = M
    for k in loc:
        node = node[k]
    return node


def _apply_none(M, order, rec_id, flds):
    M = copy.deepcopy(M)
    # MESHM items are tuples: make them addressable
    if M.get('MESHM'):
        M['MESHM'] = [[t, s] if t != 'rz2d' else [t, [[a, b] for a, b in s]] for t, s in M['MESHM']]
    target = None
    for rid, loc, fields in none_targets(M):
        if rid == rec_id:
            target = (loc, fields)
            break
    if target is None:
        return None
    loc, fields = target
    node = _locate(M, loc)
    for f in flds:
        if f not in fields:
            return None
        if f == 'xyz':
            node['x'] = node['y'] = node['z'] = None
        elif f == 'nseq+nadd':
            node['nseq'] = node['nadd'] = None
        elif ':' in f:
            key, i = f.split(':')
            lst = node[key] if key else node
            if int(i) >= len(lst):
                return None
            lst[int(i)] = None
        else:
            node[f] = None
            if rec_id == 'rocks1' and f == 'nad':
                for k in ('l1', 'rp', 'cp'):
                    node.pop(k, None)
            if rec_id == 'gener1' and f == 'ltab':
                node['time'], node['rate'], node['enthalpy'], node['itab'] = [], [], [], None
    if M.get('MESHM'):
        M['MESHM'] = [(t, s) if t != 'rz2d' else (t, [(a, b) for a, b in s]) for t, s in M['MESHM']]
    return M, order


# --------------------------------------------------------------------------------------------------
# enumeration


def single_devs(flavour):
    M, order = base_model(flavour)
    devs = []
    for S in order:
        devs.append(('drop', S))
        devs.append(('only', S))
    for S in order:
        for j in range(len(order)):
            devs.append(('move', S, j))
    devs.append(('end', 'ENDFI'))
    devs.append(('perm', 'P'))
    for S in order:
        devs.append(('late', S))
        devs.append(('late', S, 'P'))
    for what in TRAIL:
        devs.append(('trail', what))
    for n in range(0, 13):
        devs.append(('len', 'default_incons', n))
    for n in range(0, 18):
        devs.append(('len', 'timestep', n))
        devs.append(('len', 'times', n))
        devs.append(('len', 'selec', n))
    for n in range(0, 13):
        devs.append(('len', 'gen_rate', n))
        devs.append(('len', 'gen_enth', n))
    if flavour == 'TOUGH2':
        for what in ('radii', 'layer', 'deli', 'vol'):
            for n in range(1, 18):
                devs.append(('len', what, n))
        for sub in ([0], [1], [2], [0, 1], [1, 2], [0, 2], [1, 0, 2], [0, 1, 2][::-1]):
            devs.append(('mesubset', tuple(sub)))
        for j in range(3):
            devs.append(('rzdrop', j))
        for what in ('FOFT', 'COFT', 'GOFT'):
            for n in range(0, 3):
                devs.append(('len', what, n))
    else:
        for what in ('short_block', 'short_connection', 'short_generator'):
            for n in range(-1, 3):
                devs.append(('len', what, n))
    for nk in range(1, 5):
        for nph in range(1, 4):
            devs.append(('len', 'diffu', (nk, nph)))
    for what in ('rocks', 'blocks', 'connections', 'generators', 'incons', 'indom'):
        for n in range(0, 4):
            devs.append(('len', what, n))
    for n in range(0, 5):
        devs.append(('len', 'incon_vars', n))
        devs.append(('len', 'indom_vars', n))
    for rid, loc, fields in none_targets(M):
        for f in fields:
            devs.append(('none', rid, (f,)))
        if len(fields) > 1:
            fs = [f for f in fields if f != 'nadd' or 'nseq+nadd' not in fields]
            if rid == 'lineq':
                fs = fs[1:]     # a LINEQ dictionary whose every value is None is an absent section
            devs.append(('none', rid, tuple(fs)))
    out = []
    for d in devs:
        if d[0] == 'end' or apply_dev(M, order, d) is not None:
            out.append(d)
    return out


def none_pair_devs(flavour):
    M, order = base_model(flavour)
    out = []
    for rid, loc, fields in none_targets(M):
        for a, b in itertools.combinations(fields, 2):
            if set((a, b)) == set(('nseq+nadd', 'nadd')):
                continue
            out.append(('none', rid, (a, b)))
    return out


def pairable(dev, order):
    """Every single deviation takes part in pairs, except that of the moves only the adjacent swap, the move
    to the end and the move to slot 1 do (moves are a third of the singles and mostly equivalent in pairs)."""
    if dev[0] != 'move':
        return True
    S, j = dev[1], dev[2]
    i = order.index(S)
    return j == i + 1 or j == len(order) - 1 or (j == 1 and i > 2)


def _slots(dev):
    """What a deviation touches; two deviations are a compatible pair when they touch different things."""
    k = dev[0]
    if k == 'drop':
        return set(['order', dev[1]])
    if k in ('only', 'move', 'perm'):
        return set(['order'])
    if k == 'late':
        return set(['late', 'order'] if len(dev) > 2 else ['late'])
    if k == 'end':
        return set(['end'])
    if k in ('mesubset', 'rzdrop'):
        return set(['MESHM'])
    if k == 'trail':
        return set(['trail:' + dev[1], {'rock': 'ROCKS', 'indom_rock': 'ROCKS', 'gen_type': 'GENER', 'gen_name': 'GENER',
                                         'eos': 'MULTI', 'z_precond': 'SOLVR', 'o_precond': 'SOLVR',
                                         'minc_type': 'MESHM', 'minc_dual': 'MESHM', 'xyz_ntype': 'MESHM',
                                         'print_block': 'PARAM'}[dev[1]]])
    if k == 'len':
        w = dev[1]
        sec = {'default_incons': 'PARAM', 'timestep': 'PARAM', 'times': 'TIMES', 'selec': 'SELEC', 'gen_rate': 'GENER',
               'gen_enth': 'GENER', 'radii': 'MESHM', 'layer': 'MESHM', 'deli': 'MESHM', 'vol': 'MESHM',
               'diffu': 'DIFFU', 'rocks': 'ROCKS', 'blocks': 'ELEME', 'connections': 'CONNE', 'generators': 'GENER',
               'incons': 'INCON', 'indom': 'INDOM', 'incon_vars': 'INCON', 'indom_vars': 'INDOM',
               'short_block': 'SHORT', 'short_connection': 'SHORT', 'short_generator': 'SHORT'}.get(w, w)
        return set([sec, 'len:' + w])
    if k == 'none':
        return set(['none:' + dev[1]])
    return set()


MESH_MODES = ['in', 'mesh', 'binary']


def xp_modes(flavour):
    if flavour != 'AUTOUGH2':
        return [('off', None, None)]
    out = [('off', None, None)]
    for sub in (XP_ALL, ['ROCKS'], ['RPCAP'], ['GENER'], ['ROCKS', 'ELEME'], ['ROCKS', 'ELEME', 'CONNE'],
                ['RPCAP', 'GENER'], ['ROCKS', 'RPCAP', 'GENER']):
        for echo in (False, True):
            out.append(('+'.join(sub) + (':echo' if echo else ''), tuple(sub), echo))
    return out


def all_modes(flavour):
    out = []
    for m in MESH_MODES:
        for x in xp_modes(flavour):
            if m != 'in' and x[1] and ('ELEME' in x[1]) != ('CONNE' in x[1]):
                continue     # a mesh side file is read only when no blocks came from the companion file
            if m == 'binary' and x[1] and 'ELEME' in x[1]:
                continue     # two carriers of different precision for the same numbers: the 9-digit companion
                             # file wins over the exact binary pair, so the pair cannot be reproduced
            out.append({'mesh': m, 'xp': list(x[1]) if x[1] else None, 'echo': x[2]})
            if x[1] and len(x[1]) > 1:
                # the same sections named in another order (the list is a set of names for the user)
                out.append({'mesh': m, 'xp': list(x[1]), 'echo': x[2], 'rev': True})
    return out


DEFAULT_MODE = {'mesh': 'in', 'xp': None, 'echo': None}


def via_modes(flavour):
    """Every extra-precision mode requested through the property setters instead of the write() arguments, and
    through setters after the opposite setting ('toggle'); 'toggle' with extra precision finally off too."""
    out = []
    for mode in all_modes(flavour):
        if mode['xp'] is None and flavour != 'AUTOUGH2':
            continue
        for via in ('setter', 'toggle'):
            if mode['xp'] is None and via == 'setter':
                continue
            m = dict(mode)
            m['via'] = via
            out.append(m)
    return out


def core_modes(flavour):
    """The modes every single deviation is crossed with in the quick tier: each mesh carrier x extra precision
    {off, everything the carrier allows} x echo."""
    out = []
    for mode in all_modes(flavour):
        full = ['ROCKS', 'RPCAP', 'GENER'] if mode['mesh'] == 'binary' else XP_ALL
        if (mode['xp'] is None or mode['xp'] == full) and not mode.get('rev'):
            out.append(mode)
    return out


def enumerate_cases(tier):
    cases = []
    for flavour in ('AUTOUGH2', 'TOUGH2'):
        M, order = base_model(flavour)
        singles = single_devs(flavour)
        modes = all_modes(flavour)
        for mode in modes + via_modes(flavour):
            cases.append({'base': flavour, 'devs': [], 'mode': mode})
        route = [dv for dv in singles if dv[0] in ('late', 'perm', 'move', 'drop')]
        for dv in (singles if tier == 'thorough' else route):
            for mode in via_modes(flavour):
                if tier == 'thorough' or mode['xp'] in (None, XP_ALL):
                    cases.append({'base': flavour, 'devs': [dv], 'mode': mode})
        for d in singles:
            cases.append({'base': flavour, 'devs': [d], 'mode': DEFAULT_MODE})
        for d in singles:
            for mode in (modes if tier == 'thorough' else core_modes(flavour)):
                if mode != DEFAULT_MODE:
                    cases.append({'base': flavour, 'devs': [d], 'mode': mode})
        if tier == 'thorough':
            for d in none_pair_devs(flavour):
                cases.append({'base': flavour, 'devs': [d], 'mode': DEFAULT_MODE})
            reps = [d for d in singles if pairable(d, order)]
            for a, b in itertools.combinations(reps, 2):
                if _slots(a) & _slots(b):
                    continue
                if (a[0] == 'late') != (b[0] == 'late') and (b if a[0] == 'late' else a)[0] not in \
                        ('move', 'perm', 'drop', 'only'):
                    continue     # a late section is paired with the deviations of the section order only
                cases.append({'base': flavour, 'devs': [a, b], 'mode': DEFAULT_MODE})
    for c in wide_cases(tier):
        cases.append({'base': c['base'], 'devs': [], 'mode': {'mesh': c['mesh'], 'xp': None, 'echo': None},
                      'wide': c['wide'], 'kinds': c['kinds']})
    cases += ophist_cases(tier)
    return cases


REAL_FILES = [
    ('tests/data/TOUGH2/1/r1q', 'tests/data/TOUGH2/1/MESH'),
    ('tests/data/TOUGH2/1/r1q', None),
    ('tests/data/TOUGH2/2/eos7c.dat', None),
    ('tests/data/TOUGH2-MP/1/rfp_nomesh', ['tests/data/TOUGH2-MP/1/MESHA', 'tests/data/TOUGH2-MP/1/MESHB']),
    ('tests/data/TOUGH2-MP/1/rfp_nomesh', None),
    ('tests/data/AUTOUGH2/1/case1.dat', None),
    ('tests/data/AUTOUGH2/2/case2.dat', None),
    ('tests/data/AUTOUGH2/3/a1.dat', None),
    ('tests/grid/minc/orig.dat', None),
    ('tests/grid/minc/minc1.dat', None),
    ('tests/grid/minc/minc2.dat', None),
    ('tests/grid/minc/minc3.dat', None),
    ('tests/grid/rectgeo/data.dat', None),
]


def units(tier):
    us = []
    for path, mesh in REAL_FILES:
        us.append(('file', path, mesh))
    us.append(('history', 'AUTOUGH2'))
    us.append(('history', 'TOUGH2'))
    n = len(enumerate_cases(tier))
    size = 40 if tier == 'quick' else 150
    for start in range(0, n, size):
        us.append(('gen', start, min(n, start + size)))
    return us


_case_cache = {}


def run_unit(unit, tier, rec):
    if unit[0] == 'file':
        case = {'file': unit[1], 'meshfile': unit[2]}
        viol, info = run_file_case(case)
        if info.get('cap'):
            rec.count('cap_hit', 1)
        rec.case(('file', unit[1], repr(unit[2])), nontrivial=info.get('written', False), outcome=info.get('outcome'))
        rec.count('real_files', 1)
        for sig, what in viol:
            rec.violation(sig, what, case)
        rec.sample({'file': unit[1], 'meshfile': unit[2], 'sections': info.get('sections'),
                    'bytes': info.get('bytes'), 'reference_writer': info.get('reference_writer', 'rendered and re-read')})
        if 'reference_writer' in info:
            rec.count('real_files_not_rendered_by_reference_writer', 1)
        return
    if unit[0] == 'history':
        case = {'history': unit[1]}
        viol, info = run_case(case)
        if info.get('cap'):
            rec.count('cap_hit', 1)
        rec.case(('history', unit[1]), nontrivial=info.get('written', False), outcome=info.get('outcome'))
        rec.count('history_comparisons', info.get('comparisons', 0))
        for sig, what in viol:
            rec.violation(sig, what, case)
        rec.sample({'history': unit[1], 'comparisons': info.get('steps_done')}, force=True)
        return
    if tier not in _case_cache:
        _case_cache[tier] = enumerate_cases(tier)
    cases = _case_cache[tier][unit[1]:unit[2]]
    for case in cases:
        viol, info = run_case(case)
        if info.get('outcome') == 'not-applicable':
            rec.count('cases_not_applicable', 1)       # second deviation has nothing left to act on, or mode exclusion
            continue
        if info.get('cap'):
            # this worker had MAX_TIMEOUTS hanging cases: the rest of the unit is not run, and the run is
            # not exhaustive (the violation says so; exit status 1, never a dead worker)
            rec.count('cap_hit', 1)
            rec.count('cases_not_run_after_timeouts', len(cases) - cases.index(case))
            for sig, what in viol:
                rec.violation(sig, what, case)
            break
        rec.case(case_key(case), nontrivial=info.get('written', False), outcome=info.get('outcome'))
        if 'wide' in case:
            rec.count('over_wide_value_cases', 1)
            rec.count('over_wide_values_judged', 2 * len([k for k in case['kinds'] if k]))
        elif 'hist' in case:
            rec.count('object_history_cases:depth=%d' % len(case['hist']), 1)
            rec.count('object_history_steps_refused_by_the_library', info.get('refused', 0))
        else:
            rec.count('k=%d' % len(case['devs']), 1)
        rec.count('chain_steps', info.get('steps', 0))
        for sig, what in viol:
            rec.violation(sig, what, case)
        if not case['devs'] and case['mode'] == DEFAULT_MODE and 'wide' not in case and 'hist' not in case:
            rec.sample({'case': case, 'sections': info.get('sections'), 'bytes': info.get('bytes')}, force=True)
    if cases:
        rec.sample({'case': cases[0]})


def case_key(case):
    key = (case['base'], [tuple(d) for d in case['devs']], sorted(case['mode'].items()))
    if 'wide' in case:
        key += ('wide', case['wide'], tuple(case['kinds']))
    if 'hist' in case:
        key += ('hist', tuple(tuple(h) for h in case['hist']))
    return repr(key)


def replay(case):
    if 'file' in case:
        return run_file_case(case)[0]
    if 'history' in case:
        return run_case(case)[0]
    case = dict(case)
    case['devs'] = [_tuplify(d) for d in case['devs']]
    if 'hist' in case:
        case['hist'] = [_tuplify(h) for h in case['hist']]
    return run_case(case)[0]


def _tuplify(x):
    if isinstance(x, list):
        return tuple(_tuplify(y) for y in x)
    return x


# --------------------------------------------------------------------------------------------------
# the chain


def model_of_case(case):
    M, order = base_model(case['base'])
    for d in case['devs']:
        res = apply_dev(M, order, tuple(d))
        if res is None:
            return None
        M, order = res
    return M, order


def _workdir():
    d = os.path.join(core.scratch(), 'c01')
    if os.path.isdir(d):
        shutil.rmtree(d)
    for s in ('w1', 'w2', 'w3', 'rw'):
        os.makedirs(os.path.join(d, s))
    return d


def _quiet():
    return contextlib.redirect_stdout(io.StringIO())


def _mesh_arg(d, step, mesh):
    if mesh == 'in':
        return ''
    if mesh == 'mesh':
        return os.path.join(d, step, 'MESH')
    return [os.path.join(d, step, 'MESHA'), os.path.join(d, step, 'MESHB')]


def _readfile(path, binary=False):
    if not os.path.exists(path):
        return None
    with open(path, 'rb') as f:
        data = f.read()
    return data if binary else data.decode('latin-1')


def _files_of(d, step, mesh):
    """-> dict of the files a write produced: main, pdat, mesh (text) or mesha/meshb (bytes)."""
    out = {'main': _readfile(os.path.join(d, step, 'model.dat')),
           'pdat': _readfile(os.path.join(d, step, 'model.pdat')) or None}    # an empty companion file is none
    if mesh == 'mesh':
        out['mesh'] = _readfile(os.path.join(d, step, 'MESH'))
    elif mesh == 'binary':
        out['mesha'] = _readfile(os.path.join(d, step, 'MESHA'), True)
        out['meshb'] = _readfile(os.path.join(d, step, 'MESHB'), True)
    return out


def _blocks_of(text):
    """Text of a written file as [(keyword, occurrence, [lines])]: the title block, then one block per keyword
    line (the ELEME/CONNE/GENER sub-keywords of SHORT are blocks of their own, told apart by occurrence)."""
    blocks, count = [['title', 0, []]], {}
    for line in text.split('\n'):
        k = line[:5].rstrip()
        if k in SECTIONS or k in ('ENDCY', 'ENDFI'):
            count[k] = count.get(k, 0) + 1
            blocks.append([k, count[k] - 1, []])
        blocks[-1][2].append(line)
    return blocks


def _compare_files(f1, f2, strip, tag, inp, viol):
    """Section by section, so that a difference in one section does not hide the others."""
    for key in sorted(set(f1) | set(f2)):
        a, b = f1.get(key), f2.get(key)
        if a is None and b is None:
            continue
        if a is None or b is None:
            viol.append(('C01|%s|file-%s|%s|%s' % (tag, 'missing' if b is None else 'extra', key, inp),
                         '%s: file %s %s' % (tag, key, 'is no longer written' if b is None else 'appeared')))
            continue
        if isinstance(a, bytes):
            if a != b:
                viol.append(('C01|%s|bytes-differ|%s|%s' % (tag, key, inp),
                             '%s: binary file %s differs (%d vs %d bytes)' % (tag, key, len(a), len(b))))
            continue
        if a == b:
            continue
        ba, bb = _blocks_of(a), _blocks_of(b)
        sa, sb = [(k, n) for k, n, l in ba], [(k, n) for k, n, l in bb]
        if sa != sb:
            ka, kb = [k for k, n in sa] + ['<eof>'], [k for k, n in sb] + ['<eof>']
            j = next(i for i in range(min(len(ka), len(kb))) if ka[i] != kb[i])
            viol.append(('C01|%s|keyword-lines-differ|%s:%s->%s|%s' % (tag, key, ka[j], kb[j], inp),
                         '%s: %s file has keyword lines %s, before %s' % (tag, key, [k for k, n in sb],
                                                                          [k for k, n in sa])))
        db = dict(((k, n), l) for k, n, l in bb)
        for k, n, la in ba:
            lb = db.get((k, n))
            if lb is None:
                continue
            if strip:
                la, lb = [x.rstrip() for x in la], [x.rstrip() for x in lb]
            if la == lb:
                continue
            for i in range(max(len(la), len(lb))):
                x = la[i] if i < len(la) else '<end of section>'
                y = lb[i] if i < len(lb) else '<end of section>'
                if x != y:
                    if x.startswith('<end') or y.startswith('<end'):
                        col = 'line-count'
                    else:
                        col = 'col%d' % (next((j for j in range(min(len(x), len(y))) if x[j] != y[j]),
                                               min(len(x), len(y))) + 1)
                    viol.append(('C01|%s|text-differs|%s:%s@%s|%s' % (tag, key, k, col, inp),
                                 '%s: %s file differs in section %s, line %d of the section: %r became %r'
                                 % (tag, key, k, i + 1, x, y)))
                    break


def expected_for_mode(M, mode):
    """What the carrier of the mode can hold of model M."""
    if mode['mesh'] != 'binary':
        return M
    M = copy.deepcopy(M)
    xp = mode['xp'] or ()
    if 'ELEME' not in xp:
        for b in M.get('ELEME') or []:
            b['nseq'] = b['nadd'] = None
    if 'CONNE' not in xp:
        for c in M.get('CONNE') or []:
            c['nseq'] = c['nad1'] = c['nad2'] = None
    return M


def _cmp_kwargs(mode, stage):
    """Digits carried: extra-precision sections 8 digits, binary mesh exact."""
    xp = tuple(mode['xp'] or ())
    exact = tuple(s for s in ('ELEME', 'CONNE') if s not in xp) if mode['mesh'] == 'binary' else ()
    return {'xp': xp, 'exact': exact, 'zero_is_none': exact}


def _diff_viol(tag, diffs, inp, viol, what):
    seen = set()
    for path, a, b in diffs:
        cls = t2canon.field_class(path)
        if cls in seen:
            continue
        seen.add(cls)
        viol.append(('C01|%s|content-differs|%s|%s' % (tag, cls, inp),
                     '%s: %s' % (what, t2canon.show([(path, a, b)]))))


def _ref_read_files(files, mode, flavour, rock_names):
    """Reference reader over every file of one write -> (model, {file: sequence})."""
    M, seq, end = t2layout.read_main(files['main'], flavour)
    seqs = {'main': seq}
    if mode['mesh'] == 'mesh' and files.get('mesh') is not None:
        X, ms = t2layout.read_mesh(files['mesh'])
        seqs['mesh'] = ms
        M.update(X)
    elif mode['mesh'] == 'binary' and files.get('mesha') is not None:
        X = t2layout.read_binary_mesh(files['mesha'], files['meshb'], rock_names)
        M.update(X)
    if files.get('pdat') is not None:
        X, xs = t2layout.read_pdat(files['pdat'])
        seqs['pdat'] = xs
        for k, v in X.items():
            M[k] = v           # the companion file overrides the main file and the mesh files
    return M, seqs, end


def _norm_model(M):
    """Reference-read model -> comparable with canon(): option digits, stripped EOS, print_block spelling."""
    M = dict(M)
    if M.get('PARAM'):
        P = dict(M['PARAM'])
        P['option'] = (P.get('option') or '').rstrip().ljust(24).replace(' ', '0')
        P['print_block'] = t2layout.norm_name(P['print_block']) if not t2layout.blank(P.get('print_block')) else None
        M['PARAM'] = P
    if M.get('MOMOP') is not None:
        M['MOMOP'] = M['MOMOP'].rstrip().ljust(21).replace(' ', '0')
        if not M['MOMOP'].strip('0'):
            M.pop('MOMOP')
    if M.get('MULTI') and isinstance(M['MULTI'].get('eos'), str):
        mu = dict(M['MULTI'])
        mu['eos'] = mu['eos'].strip() or None
        M['MULTI'] = mu
    if M.get('SIMUL') is not None:
        M['SIMUL'] = M['SIMUL'].rstrip()
    M['title'] = (M.get('title') or '').strip()
    if M.get('SHORT'):
        S = dict(M['SHORT'])
        S['frequency'] = S.get('frequency') or None
        M['SHORT'] = S
    for kw in ('ELEME', 'CONNE'):
        if kw in M and not M[kw]:
            M.pop(kw)
    return M


_timeouts = [0]


def _guarded(fn, inp, limit, primer=None):
    """Runs one case: whatever happens becomes a violation, never a dead worker.  CaseTimeout is caught only
    outside the timelimit block (the limit re-fires until the exception has left it)."""
    info = {'written': False}
    if _timeouts[0] >= MAX_TIMEOUTS:
        return [('C01|case|not-run-after-%d-timeouts' % MAX_TIMEOUTS,
                 'case not run: this worker process already had %d cases that did not finish' % MAX_TIMEOUTS)], \
            {'outcome': 'skipped-after-timeouts', 'written': False, 'cap': True}
    _state_snapshot()
    try:
        try:
            with core.timelimit(limit):
                _probe_files()
                viol, info = fn()
        except core.CaseTimeout:
            _timeouts[0] += 1
            viol, info = [('C01|chain|timeout|%s' % inp, 'case did not finish in %d s' % limit)], \
                {'outcome': 'timeout', 'written': False}
        except _TooBig as e:
            viol, info = [e.args[0]], {'outcome': 'file-size-explodes', 'written': True}
        except MemoryError:
            viol, info = [('C01|chain|raises-MemoryError|%s' % inp, 'case ran out of memory')], \
                {'outcome': 'raised', 'written': False}
        except Exception as e:
            viol, info = [_exc_sig('case', e, inp)], {'outcome': 'raised', 'written': False}
        with core.timelimit(limit):
            viol = list(viol) + _order_check(primer or inp)
    except core.CaseTimeout:
        # fired between or after the blocks above (late signal): still a timeout of this case
        _timeouts[0] += 1
        viol, info = [('C01|chain|timeout|%s' % inp, 'case did not finish in %d s' % limit)], \
            {'outcome': 'timeout', 'written': False}
    return [(sig[:240], what[:MSG]) for sig, what in viol], info


def run_case(case):
    """-> (violations [(sig, what)], info)."""
    core.load_library()
    if 'history' in case:
        return _guarded(lambda: _history(case['history']), 'history:' + case['history'][0], CASE_TIMEOUT, 'history')
    if 'wide' in case:
        return _guarded(lambda: _wide(case), case['base'][0], CASE_TIMEOUT,
                        '%s/%s/wide' % (case['base'][0], case['mode']['mesh']))
    res = model_of_case(case)
    if res is None:
        return [], {'outcome': 'not-applicable', 'written': False}
    M, order = res
    mode = dict(case['mode'])
    end_kw = 'ENDFI' if any(d[0] == 'end' for d in case['devs']) else 'ENDCY'
    flavour = case['base']
    if mode['mesh'] != 'in':
        # SHORT items are resolved against the grid while the main file is read: in-file mesh only
        M, order = _prune(*_drop_keys(M, order, ['SHORT']))
    if mode['mesh'] == 'binary':
        # MESHA/MESHB have no blank: volume, distances, area, direction and direction cosine are required there
        for dv in case['devs']:
            if dv[0] == 'none' and ((dv[1] == 'eleme' and 'ELEME' not in (mode['xp'] or ()) and 'volume' in dv[2]) or
                                    (dv[1] == 'conne' and 'CONNE' not in (mode['xp'] or ()) and
                                     set(dv[2]) & set(['direction', 'distance1', 'distance2', 'area', 'dircos']))):
                return [], {'outcome': 'not-applicable', 'written': False}
    late = [dv[1] for dv in case['devs'] if dv[0] == 'late']
    primer = '%s/%s/%s' % (flavour[0], mode['mesh'], 'std' if not mode['xp'] else ('xp+echo' if mode['echo'] else 'xp'))
    if 'hist' in case:
        hist = [tuple(h) for h in case['hist']]
        return _guarded(lambda: _chain(M, order, mode, flavour, end_kw, late, hist=hist), flavour[0], CASE_TIMEOUT,
                        primer + '/hist')
    return _guarded(lambda: _chain(M, order, mode, flavour, end_kw, late), flavour[0], CASE_TIMEOUT, primer)


def _exc_sig(step, e, inp):
    """Signature of an exception escaping the library: innermost library frame (no source look-up)."""
    where = '?'
    tb = e.__traceback__
    repo = os.path.realpath(core.REPO)
    while tb is not None:
        fn = tb.tb_frame.f_code.co_filename
        if os.path.realpath(os.path.dirname(fn)) == repo:
            where = '%s:%s' % (os.path.basename(fn), tb.tb_frame.f_code.co_name)
        tb = tb.tb_next
    return ('C01|%s|raises-%s|%s|%s' % (step, type(e).__name__, where, inp),
            '%s raised %s: %s' % (step, type(e).__name__, str(e)[:200]))


class _TooBig(Exception):
    pass


def _size_guard(d, step, cap, tag, inp):
    """A write whose files explode is reported and the chain stops (nothing that big is read back)."""
    total = 0
    sd = os.path.join(d, step)
    for f in os.listdir(sd):
        total += os.path.getsize(os.path.join(sd, f))
    if total > cap:
        raise _TooBig(('C01|%s|file-size-explodes|%s' % (tag, inp),
                       '%s wrote %d bytes, more than %d' % (tag, total, cap)))


# ---- module-level state of the library: must not be changed by reading, writing or editing objects

_LIB_MODULES = ('t2data', 't2grids', 't2incons', 'mulgrids', 'fixed_format_file')
_state0 = None


def _fingerprint(v):
    try:
        import numpy as np
        if isinstance(v, np.ndarray):
            return ('nd', v.tolist())
    except Exception:
        pass
    if isinstance(v, dict):
        return ('d', [(repr(k), _fingerprint(x)) for k, x in v.items()])
    if isinstance(v, (list, tuple)):
        return ('l', [_fingerprint(x) for x in v])
    if isinstance(v, (set, frozenset)):
        return ('s', sorted(repr(x) for x in v))
    if isinstance(v, (int, float, str, bytes, bool)) or v is None:
        return v
    return ('o', type(v).__name__)


def _lib_globals():
    """Module-level and class-level mutable containers of the library (name, object)."""
    import sys
    seen, out = set(), []
    for m in _LIB_MODULES:
        mod = sys.modules.get(m)
        if mod is None:
            continue
        for name, v in sorted(vars(mod).items()):
            if name.startswith('__'):
                continue
            if isinstance(v, (dict, list, set)) and id(v) not in seen:
                seen.add(id(v))
                out.append(('%s.%s' % (m, name), v))
            elif isinstance(v, type) and getattr(v, '__module__', None) == m:
                for an, av in sorted(vars(v).items()):
                    if not an.startswith('__') and isinstance(av, (dict, list, set)) and id(av) not in seen:
                        seen.add(id(av))
                        out.append(('%s.%s.%s' % (m, name, an), av))
    return out


def _state_snapshot():
    """Taken once per process, before the first case touches the library."""
    global _state0
    if _state0 is None:
        for m in _LIB_MODULES:
            __import__(m)
        _state0 = _state_copy()
    return _state0


def _state_copy():
    return dict((name, (copy.deepcopy(v), _fingerprint(v))) for name, v in _lib_globals())


def _state_install(snap):
    """Puts the library's module/class-level containers into the recorded state (in place: other modules hold
    references to the same objects)."""
    for name, v in _lib_globals():
        if name not in snap:
            continue
        fresh = copy.deepcopy(snap[name][0])
        if isinstance(v, list):
            v[:] = fresh
        else:
            v.clear()
            v.update(fresh)


def _state_changed():
    """Names of the containers that differ from the pristine state.  NOT a verdict (a correct cache is
    legal): only the trigger for the order-independence comparison below, and the means to restore isolation."""
    snap = _state_snapshot()
    out = []
    for name, v in _lib_globals():
        if name in snap and _fingerprint(v) != snap[name][1]:
            out.append(name)
    return out


# ---- order independence: the same reads and writes give the same results whatever ran before them

_probe = {}


def _probe_files():
    """Three small models written once per process from pristine state: standard AUTOUGH2, AUTOUGH2 with the
    extra-precision companion file, TOUGH2."""
    if _probe:
        return _probe
    _state_install(_state_snapshot())
    root = os.path.join(core.scratch(), 'c01probe')
    if os.path.isdir(root):
        shutil.rmtree(root)
    specs = [('standard-A', 'AUTOUGH2', {}), ('extra-precision-A', 'AUTOUGH2',
                                              {'extra_precision': list(XP_ALL), 'echo_extra_precision': False}),
             ('standard-T', 'TOUGH2', {})]
    files = {}
    with _quiet():
        for name, flavour, kw in specs:
            os.makedirs(os.path.join(root, name, 'out'))
            M, order = base_model(flavour)
            f = os.path.join(root, name, 'model.dat')
            build(M, order).write(f, **kw)
            files[name] = f
    _probe['files'] = files
    _probe['names'] = [x[0] for x in specs]
    _probe['pristine'] = dict((n, _probe_observe(n, _state_snapshot())) for n in _probe['names'])
    _state_install(_state_snapshot())
    return _probe


def _probe_observe(name, state):
    """Observation of one probe directly after the library state 'state': the object read and the bytes it
    writes."""
    import t2data
    _state_install(state)
    f = _probe['files'][name]
    out = os.path.join(os.path.dirname(f), 'out')
    for x in os.listdir(out):
        os.remove(os.path.join(out, x))
    with _quiet():
        r = t2data.t2data(f)
        c = t2canon.canon(r)
        r.write(os.path.join(out, 'model.dat'))
    files = {}
    for x in sorted(os.listdir(out)):
        if os.path.getsize(os.path.join(out, x)) > SIZE_CAP:
            files[x] = '<%d bytes>' % os.path.getsize(os.path.join(out, x))
        else:
            files[x] = _readfile(os.path.join(out, x))
    return {'canon': c, 'sections': list(r._sections), 'xp': list(r.extra_precision), 'files': files}


def _primer_class(primer):
    if primer.startswith('file:'):
        return 'real-file'
    if primer == 'history':
        return primer
    fl, mesh, xp = primer.split('/')
    return fl + '/' + ('extra-precision' if xp != 'std' else 'standard')


def _order_check(primer):
    """Called when a case left module/class-level state of the library changed.  The three probes are observed
    from that state and compared with their observation from pristine state; only a difference in what is
    read or written is a violation.  Pristine state is restored afterwards."""
    viol = []
    changed = _state_changed()
    if not changed:
        return viol
    dirty = _state_copy()
    P = _probe_files()
    for name in P['names']:
        try:
            obs = _probe_observe(name, dirty)
        except (core.CaseTimeout, MemoryError):
            raise
        except Exception as e:
            viol.append(_exc_sig('probe:%s|after=%s' % (name, primer), e, 'order'))
            continue
        ref = P['pristine'][name]
        diffs = t2canon.compare({'canon': ref['canon'], 'sections': ref['sections'], 'xp': ref['xp']},
                                {'canon': obs['canon'], 'sections': obs['sections'], 'xp': obs['xp']}, limit=12)
        pc = _primer_class(primer)
        if diffs:
            # one signature per probe and kind of preceding case: the first differing section
            path, a, b = diffs[0]
            sec = '/'.join(str(x) for x in path[:2] if not isinstance(x, int))
            viol.append(('C01|order|read-differs|%s|%s|after=%s' % (name, sec, pc),
                         'reading the %s probe file after a %s case gives a different object than reading it '
                         'first (state left in %s): %s' % (name, primer, '+'.join(changed)[:120],
                                                           t2canon.show(diffs, 2))))
        sub = []
        _compare_files(ref['files'], obs['files'], False, 'order', 'x', sub)
        for sig, what in sub[:1]:
            viol.append(('C01|order|write-differs|%s|%s|after=%s' % (name, sig.split('|')[3], pc),
                         'the %s probe re-written after a %s case differs from the same re-written first: %s'
                         % (name, primer, what)))
    _state_install(_state_snapshot())
    return viol


def _chain(M, order, mode, flavour, end_kw, late=(), hist=None):
    import t2data
    viol = []
    info = {'written': False, 'steps': 0}
    inp = flavour[0] if not hist else flavour[0] + '|after=' + '>'.join('%s,%s' % h for h in hist)
    d = _workdir()
    with _quiet():
        dat = build(M, [s_ for s_ in order if s_ not in late])
    dat.end_keyword = end_kw
    c0 = t2canon.canon(dat)
    diffs = t2canon.compare(M, c0)
    if diffs:
        # the harness could not express the model through the library's constructors
        _diff_viol('build', diffs, inp, viol, 'object built from the model does not project back to it')
        info['outcome'] = 'build-mismatch'
        return viol, info
    if hist:
        # the object goes through queries, earlier writes and grid edits first; what it holds afterwards (its
        # canonical projection - the edits themselves are not judged here) is the model the round trip must keep
        for n, (q, e) in enumerate(hist):
            try:
                with _quiet():
                    _op_query(dat, q, d, n)
            except core.CaseTimeout:
                raise
            except Exception as ex:
                if q.startswith('write:'):
                    viol.append(_exc_sig('history-' + q, ex, inp))
                    info['outcome'] = 'history-write-raised'
                    return viol, info
                info['refused'] = info.get('refused', 0) + 1
            try:
                with _quiet():
                    _op_edit(dat, e, n)
            except core.CaseTimeout:
                raise
            except Exception:
                info['refused'] = info.get('refused', 0) + 1
        M = t2canon.canon(dat)
    expect = expected_for_mode(M, mode)
    rock_names = [r['name'] for r in M.get('ROCKS') or []]
    kw = {}
    via = mode.get('via') or 'args'
    if mode['xp'] is not None:
        xpv = True if (via != 'args' and list(mode['xp']) == XP_ALL and not mode.get('rev')) else \
            (list(mode['xp'])[::-1] if mode.get('rev') else list(mode['xp']))
        if via == 'args':
            kw = {'extra_precision': xpv, 'echo_extra_precision': bool(mode['echo'])}
        else:
            # the same request through the property setters (they insert / delete sections themselves)
            if via == 'toggle':
                dat.extra_precision = ['RPCAP']
                dat.echo_extra_precision = not mode['echo']
            dat.extra_precision = xpv
            dat.echo_extra_precision = bool(mode['echo'])
    elif via == 'toggle' and flavour == 'AUTOUGH2':
        dat.extra_precision = True
        dat.echo_extra_precision = False
        dat.echo_extra_precision = True
        dat.extra_precision = False
    main1 = os.path.join(d, 'w1', 'model.dat')
    # ---- w1
    try:
        with _quiet():
            dat.write(main1, _mesh_arg(d, 'w1', mode['mesh']), **kw)
    except core.CaseTimeout:
        raise
    except Exception as e:
        viol.append(_exc_sig('write(obj)', e, inp))
        info['outcome'] = 'w1-raised'
        return viol, info
    info['written'] = True
    info['steps'] = 1
    _size_guard(d, 'w1', SIZE_CAP, 'write(obj)', inp)
    f1 = _files_of(d, 'w1', mode['mesh'])
    info['bytes'] = len(f1['main'])
    announced = list(dat._sections)
    info['sections'] = announced
    # the order in which the object lists its extra-precision sections is its own (the request is a set of names)
    ann_xp = list(dat.extra_precision) if mode['xp'] else []
    if sorted(ann_xp) != sorted(mode['xp'] or []):
        viol.append(('C01|write(obj)|extra-precision-list|%s' % flavour[0],
                     'object lists extra precision sections %s, requested %s' % (ann_xp, mode['xp'])))
    side = ('ELEME', 'CONNE') if mode['mesh'] != 'in' else ()
    xp = tuple(mode['xp'] or ())
    if late or via == 'toggle':
        # where the library puts a section it inserts itself (at write time, or when the echo / extra precision
        # setters take sections out and put them back) is its own choice: the order it announces is taken; the
        # sections it was given and did not touch must keep their order, every section with data must be there
        touched = set(late) | (set(XP_ALL) if via == 'toggle' else set())
        given = [s_ for s_ in order if s_ not in touched]
        hidden = (set(mode['xp'] or ()) & set(order)) if not mode['echo'] else set()
        if [s_ for s_ in announced if s_ in given] != [s_ for s_ in given if s_ in announced] or \
                (set(announced) | hidden) != set(order):
            viol.append(('C01|write(obj)|announced-sections|late=%s|%s' % ('+'.join(late) or via, inp),
                         'object given sections %s and data for %s announces %s' % (given, sorted(touched), announced)))
        order = [s_ for s_ in announced if s_ in order] + [s_ for s_ in order if s_ not in announced]
    exp_main = [s for s in order if s not in side and not (s in xp and not mode['echo'])]
    ann_main = [s for s in announced if s not in side and not (s in xp and not mode['echo'])]
    if ann_main != exp_main:
        extra = '+'.join(s_ for s_ in ann_main if s_ not in exp_main)
        gone = '+'.join(s_ for s_ in exp_main if s_ not in ann_main)
        viol.append(('C01|write(obj)|announced-sections|%s|%s' % (
            ('without-data=' + extra) if extra else (('missing=' + gone) if gone else 'order'), inp),
                     'object announces %s for the main file, model order is %s' % (ann_main, exp_main)))
    # ---- reference reader on the bytes of w1
    try:
        R, seqs, end = _ref_read_files(f1, mode, flavour, rock_names)
    except t2layout.RefReadError as e:
        viol.append(('C01|refread(w1)|unreadable|%s.%s|%s' % (e.rec, e.field, inp),
                     'reference reader cannot read the written file: %s' % e))
        R = None
    except (core.CaseTimeout, MemoryError):
        raise
    except Exception as e:
        viol.append(('C01|refread(w1)|unreadable|%s|%s' % (type(e).__name__, inp),
                     'reference reader failed on the written file: %r' % e))
        R = None
    if R is not None:
        if seqs['main'] != exp_main:
            viol.append(('C01|refread(w1)|section-sequence|main|%s' % inp,
                         'main file holds sections %s, announced %s' % (seqs['main'], exp_main)))
        if end != end_kw:
            viol.append(('C01|refread(w1)|end-keyword|%s' % inp, 'file ends with %r, object says %r' % (end, end_kw)))
        if mode['mesh'] == 'mesh' and seqs.get('mesh') != ['ELEME', 'CONNE']:
            viol.append(('C01|refread(w1)|section-sequence|mesh|%s' % inp,
                         'mesh file holds sections %s' % (seqs.get('mesh'),)))
        if xp:
            # ROCKS / ELEME / CONNE write their keyword even when empty; RPCAP and GENER only with data
            exp_xp = [s for s in ann_xp if s in ('ROCKS', 'ELEME', 'CONNE') or _has(M, s)]
            got_xp = seqs.get('pdat') or []
            if got_xp != exp_xp:
                viol.append(('C01|refread(w1)|section-sequence|pdat|%s' % inp,
                             'extra-precision file holds sections %s, requested %s with data for %s'
                             % (got_xp, list(xp), exp_xp)))
        diffs = t2canon.compare(expect, _norm_model(R), **_cmp_kwargs(mode, 'ref'))
        _diff_viol('refread(w1)', diffs, inp, viol,
                   'reference reader (reference columns) on the written bytes does not see the model')
    # ---- r1
    try:
        with _quiet():
            r1 = t2data.t2data(main1, _mesh_arg(d, 'w1', mode['mesh']))
    except core.CaseTimeout:
        raise
    except Exception as e:
        viol.append(_exc_sig('read(w1)', e, inp))
        info['outcome'] = 'r1-raised'
        return viol, info
    info['steps'] = 2
    # the reader appends the sections of an ASCII mesh file it read (it reads one only when no blocks came
    # from the main or the extra-precision file)
    exp_r1 = exp_main + (['ELEME', 'CONNE'] if (mode['mesh'] == 'mesh' and
                                                 ('ELEME' not in xp or not M.get('ELEME'))) else [])
    if list(r1._sections) != exp_r1:
        viol.append(('C01|read(w1)|announced-sections|%s' % inp,
                     're-read object announces %s, file holds %s' % (list(r1._sections), exp_r1)))
    diffs = t2canon.compare(expect, t2canon.canon(r1), **_cmp_kwargs(mode, 'r1'))
    _diff_viol('read(w1)', diffs, inp, viol, 're-read object differs from the object written')
    lost = sorted(set(t2canon.unresolved(r1)) - set(t2canon.unresolved(dat)))
    for kind_, name_ in lost[:6]:
        viol.append(('C01|read(w1)|name-not-in-own-grid|%s|%s' % (kind_, inp),
                     're-read object: %s %r is not the name of a block of its own grid (names in the grid are in '
                     'their repaired spelling, e.g. %r)' % (kind_, name_, _mem_name(t2layout.norm_name(name_)))))
    if r1.end_keyword != end_kw:
        viol.append(('C01|read(w1)|end-keyword|%s->%s|%s' % (end_kw, r1.end_keyword, inp),
                     're-read object has end keyword %r, file ends with %r' % (r1.end_keyword, end_kw)))
    # the echo flag can be seen in the files only when at least one extra-precision section is in the main file
    echo_seen = bool(xp and mode['echo'] and any(s in exp_main for s in xp))
    if xp:
        exp_xp = [s for s in ann_xp if s in ('ROCKS', 'ELEME', 'CONNE') or _has(M, s)]
        if list(r1.extra_precision) != exp_xp:
            viol.append(('C01|read(w1)|extra-precision-list|%s' % inp,
                         're-read object lists extra precision sections %s, companion file was written with %s'
                         % (list(r1.extra_precision), exp_xp)))
        if (echo_seen or not mode['echo']) and bool(r1.echo_extra_precision) != bool(mode['echo']):
            viol.append(('C01|read(w1)|echo-flag|echo=%s|%s' % (bool(mode['echo']), inp),
                         're-read object has echo_extra_precision=%s, file was written with %s'
                         % (r1.echo_extra_precision, bool(mode['echo']))))
    # ---- w2, r2, w3  (a lost echo flag has been reported above; it is restored on the re-read objects - what
    # a correct read would have produced - so that the rest of the chain is still explored behind that defect)
    kw2 = {}

    def remedy(r):
        if echo_seen and not r.echo_extra_precision:
            r._echo_extra_precision = True
            r.update_read_write_functions()
    remedy(r1)
    try:
        with _quiet():
            r1.write(os.path.join(d, 'w2', 'model.dat'), _mesh_arg(d, 'w2', mode['mesh']), **kw2)
    except core.CaseTimeout:
        raise
    except Exception as e:
        viol.append(_exc_sig('write(r1)', e, inp))
        info['outcome'] = 'w2-raised'
        return viol, info
    info['steps'] = 3
    _size_guard(d, 'w2', SIZE_CAP, 'write(r1)', inp)
    f2 = _files_of(d, 'w2', mode['mesh'])
    _compare_files(f1, f2, True, 'w2-vs-w1', inp, viol)
    try:
        with _quiet():
            r2 = t2data.t2data(os.path.join(d, 'w2', 'model.dat'), _mesh_arg(d, 'w2', mode['mesh']))
            info['steps'] = 4
            remedy(r2)
            r2.write(os.path.join(d, 'w3', 'model.dat'), _mesh_arg(d, 'w3', mode['mesh']), **kw2)
            info['steps'] = 5
            _size_guard(d, 'w3', SIZE_CAP, 'write(r2)', inp)
    except core.CaseTimeout:
        raise
    except _TooBig:
        raise
    except Exception as e:
        viol.append(_exc_sig('read(w2)/write(r2)', e, inp))
        info['outcome'] = 'w3-raised'
        return viol, info
    f3 = _files_of(d, 'w3', mode['mesh'])
    _compare_files(f2, f3, False, 'w3-vs-w2', inp, viol)
    # ---- the model as a Fortran program would write it, read by the library (does not involve the object: not
    # repeated for every history of it)
    if mode['mesh'] != 'binary' and not hist:
        viol += _ref_written(M, order, exp_main, mode, flavour, end_kw, d, inp)
    info['outcome'] = 'ok' if not viol else 'violations'
    return viol, info


def _wide_exponents(M):
    """The model with a few reals whose decimal exponent needs three digits (a Fortran program prints them
    without the exponent letter: 0.1237+106), in the main file, the mesh and the generator tables."""
    M = copy.deepcopy(M)
    if M.get('PARAM'):
        M['PARAM']['tstop'] = V(4, 104)
        M['PARAM']['derivative_increment'] = V(14, -108)
    if M.get('ELEME'):
        M['ELEME'][0]['volume'] = V(0, 105)
    if M.get('CONNE'):
        M['CONNE'][0]['area'] = V(2, 103)
        M['CONNE'][0]['distance2'] = V(1, -103)
    if M.get('ROCKS'):
        M['ROCKS'][0]['k3'] = V(4, -116)
    for g in M.get('GENER') or []:
        if g['rate']:
            g['rate'][-1] = V(3, 101, -1)
    return M


def _ref_written(M, order, exp_main, mode, flavour, end_kw, d, inp):
    """The model as a Fortran program would write it, read by the library: plain E exponents through the
    default conversion functions, and the other legal Fortran spellings (D exponents, blank for '+', three-digit
    exponents without letter) through the library's Fortran conversion functions - main file, MESH file and
    companion file alike."""
    import t2data
    import fixed_format_file
    viol = []
    main = os.path.join(d, 'rw', 'model.dat')
    for style in ('E', 'D', 'blank-plus'):
        Ms = M if style == 'E' else _wide_exponents(M)
        tag = 'read(fortran-style)' if style == 'E' else 'read(fortran-style:%s,fortran_read_function)' % style
        try:
            t2layout.set_number_style(style)
            text = t2layout.write_main(Ms, exp_main, flavour, end_kw)
            with open(main, 'w') as f:
                f.write(text)
            meshfile = ''
            if mode['mesh'] == 'mesh':
                meshfile = os.path.join(d, 'rw', 'MESH')
                with open(meshfile, 'w') as f:
                    f.write(t2layout.write_mesh(Ms))
            if mode['xp']:
                with open(os.path.join(d, 'rw', 'model.pdat'), 'w') as f:
                    f.write(t2layout.write_pdat(Ms, [s for s in mode['xp'] if _has(Ms, s)]))
        except ValueError as e:
            viol.append(('C01|harness|reference-writer|%s|%s' % (style, inp),
                         'reference writer cannot render the model: %s' % e))
            continue
        finally:
            t2layout.set_number_style('E')
        try:
            with _quiet():
                if style == 'E':
                    rr = t2data.t2data(main, meshfile)
                else:
                    rr = t2data.t2data(main, meshfile, read_function=fixed_format_file.fortran_read_function)
        except (core.CaseTimeout, MemoryError):
            raise
        except Exception as e:
            viol.append(_exc_sig(tag, e, inp))
            continue
        kw = _cmp_kwargs(mode, 'rw')
        diffs = t2canon.compare(Ms, t2canon.canon(rr), **kw)
        _diff_viol(tag, diffs, inp, viol,
                   'library reading the model as written by the reference Fortran-style writer (%s exponents)' % style)
    return viol


# --------------------------------------------------------------------------------------------------
# histories of one object before the round trip: queries and earlier writes (which may build hidden state),
# then edits of its grid

OP_QUERIES = ['none', 'indices', 'total_generation', 'specific_generation', 'write:in', 'write:mesh', 'write:binary']
OP_EDITS = ['none', 'reorder:blocks-reversed', 'reorder:blocks-interleaved', 'reorder:connections-reversed',
            'reorder:both', 'rename:one', 'rename:swap', 'demote:first', 'delete', 'add', 'replace']


def ophist_cases(tier):
    """Every single round (query, edit) x mesh carrier of the final round trip x flavour; every two rounds
    (query, edit, query, edit) on the AUTOUGH2 model x mesh carrier - quick: the first query is 'indices'."""
    out = []
    for flavour in ('AUTOUGH2', 'TOUGH2'):
        for mesh in MESH_MODES:
            mode = {'mesh': mesh, 'xp': None, 'echo': None}
            for q in OP_QUERIES:
                for e in OP_EDITS:
                    out.append({'base': flavour, 'devs': [], 'mode': mode, 'hist': [(q, e)]})
            if flavour == 'AUTOUGH2':
                for q1 in (OP_QUERIES if tier == 'thorough' else ['indices']):
                    for e1 in OP_EDITS:
                        for q2 in OP_QUERIES:
                            for e2 in OP_EDITS:
                                if (q2, e2) != ('none', 'none'):
                                    out.append({'base': flavour, 'devs': [], 'mode': mode,
                                                'hist': [(q1, e1), (q2, e2)]})
    return out


def _op_query(dat, q, d, n):
    g = dat.grid
    if q == 'indices':
        for b in list(g.blocklist):
            g.block_index(b.name)
        for c in list(g.connectionlist):
            g.connection_index(tuple(b.name for b in c.block))
        for x in list(dat.generatorlist):
            dat.generator_index((x.block, x.name))
    elif q == 'total_generation':
        dat.total_generation()
    elif q == 'specific_generation':
        dat.specific_generation()
    elif q.startswith('write:'):
        sub = os.path.join(d, 'h%d' % n)
        os.makedirs(sub)
        dat.write(os.path.join(sub, 'model.dat'), _mesh_arg(d, 'h%d' % n, q[6:]))
        dat.meshfilename = ''        # (the name of the mesh file is kept by the object: the next write names its own)


def _unreferenced_block(dat):
    """Last block of the grid that nothing else of the object names (None when there is none)."""
    g = dat.grid
    used = set(x.block for x in dat.generatorlist) | set(dat.incon)
    pb = dat.parameter.get('print_block')
    if isinstance(pb, str):
        used.add(pb)
    items = list(dat.history_block or []) + list(dat.history_generator or []) + list(dat.history_connection or [])
    so = dat.short_output or {}
    items += list(so.get('block') or []) + list(so.get('connection') or [])
    for it in items:
        if isinstance(it, str):
            used.add(it)
        elif isinstance(it, tuple):
            used.update(it)
        elif hasattr(it, 'block'):
            used.update(b.name for b in it.block)
        else:
            used.add(it.name)
    free = [b for b in g.blocklist if b.name not in used]
    return free[-1] if free else None


def _op_edit(dat, e, n):
    from t2grids import t2block, t2connection
    g = dat.grid
    names = [b.name for b in g.blocklist]
    cnames = [tuple(b.name for b in c.block) for c in g.connectionlist]
    if e == 'reorder:blocks-reversed':
        g.reorder(block_names=names[::-1])
    elif e == 'reorder:blocks-interleaved':
        g.reorder(block_names=names[1::2] + names[0::2])
    elif e == 'reorder:connections-reversed':
        g.reorder(connection_names=cnames[::-1])
    elif e == 'reorder:both':
        g.reorder(block_names=names[::-1], connection_names=cnames[::-1])
    elif e == 'rename:one':
        dat.rename_blocks({names[0]: 'zr%s 7' % 'ab'[n]})
    elif e == 'rename:swap':
        dat.rename_blocks({names[0]: names[1], names[1]: names[0]})
    elif e == 'demote:first':
        g.demote_block(names[0])
    elif e == 'delete':
        b = _unreferenced_block(dat)
        if b is not None:
            g.delete_block(b.name)
    elif e == 'add':
        nb = t2block('zn%s 3' % 'ab'[n], V(3 + n, 4), g.rocktypelist[0], centre=[V(4, 1), V(5, 1), V(6, 1, -1)],
                     ahtx=V(7), pmx=V(8))
        g.add_block(nb)
        g.add_connection(t2connection([g.blocklist[0], nb], 1, [V(1, 1), V(2, 1)], V(3, 2), 0.0, V(4, -1)))
    elif e == 'replace':
        b = _unreferenced_block(dat)
        if b is not None:
            g.add_block(t2block(b.name, V(5 + n, 2), b.rocktype, centre=[V(1, 1), V(2, 1), V(3, 1, -1)],
                                ahtx=V(4), pmx=V(5)))


# --------------------------------------------------------------------------------------------------
# over-wide values: several values of one file that need their precision cut to fit, in every order


def _carried(val, fmt):
    """Reference: the text of a real in a '<w>.<p><e|f>' field.  The library's documented rule for a value too wide
    for its field is 'written with reduced precision': the field carries the most decimals (<= p) with which
    the value still fits the width - whatever else was written to the file before it."""
    w, p, typ = int(fmt[:-1].split('.')[0]), int(fmt[:-1].split('.')[1]), fmt[-1]
    for q in range(p, -1, -1):
        s = ('%%%d.%d%s' % (w, q, typ)) % val
        if len(s) <= w:
            return s
    raise ValueError('%r does not fit %s at any precision' % (val, fmt))


def _wide_value(kind, fmt, i):
    """Value of the given kind for slot i (another mantissa per slot)."""
    k = 3 * i + 1
    if fmt[-1] == 'e':
        sign, e = {'p2': (1, 2 + i), 'n2': (-1, 1 + i), 'p3': (1, 100 + i), 'n3': (-1, -100 - i),
                   'p-3': (1, -101 - i), 'n+3': (-1, 102 + i)}[kind]
        return V(k, e, sign)
    w, p = [int(x) for x in fmt[:-1].split('.')]
    nint = w - p - 1                       # integer digits of a positive value that just fits
    sign, digits = {'p2': (1, 1), 'n2': (-1, nint), 'p3': (1, nint + 1), 'n3': (-1, nint + 1),
                    'p-3': (1, nint + 2), 'n+3': (-1, 1)}[kind]
    return V(k, digits - 1, sign)


_B0, _B3, _B4 = BLOCKS[0], BLOCKS[3], BLOCKS[4]
# family -> (mesh carriers, extra precision, slots [(path in the canonical model, reference format)]): two slots on
# one line, one in another record kind, one in another record of the same kind (every assignment of kinds to the
# slots is enumerated, so every writing order of the kinds occurs)
WIDE_FAMILIES = [
    ('main:10.4e', ('in',), None, [(('ROCKS', 0, 'conductivity'), '10.4e'), (('ROCKS', 0, 'specific_heat'), '10.4e'),
                                   (('PARAM', 'gravity'), '10.4e'), (('ROCKS', 1, 'density'), '10.4e')]),
    ('main:10.3e', ('in',), None, [(('ROCKS', 2, 'rp', 'parameters', 0), '10.3e'),
                                   (('ROCKS', 2, 'rp', 'parameters', 1), '10.3e'), (('PARAM', 'tstart'), '10.3e'),
                                   (('ROCKS', 2, 'cp', 'parameters', 0), '10.3e')]),
    ('main:20.14e', ('in',), None, [(('PARAM', 'default_incons', 0), '20.14e'), (('PARAM', 'default_incons', 1), '20.14e'),
                                    (('INCON', _B0, 'variables', 0), '20.14e'), (('INCON', _B3, 'variables', 1), '20.14e')]),
    ('main:14.7e', ('in',), None, [(('GENER', 2, 'time', 1), '14.7e'), (('GENER', 2, 'rate', 0), '14.7e'),
                                   (('GENER', 3, 'enthalpy', 0), '14.7e'), (('GENER', 3, 'rate', 1), '14.7e')]),
    ('main:15.9e', ('in',), None, [(('INCON', _B0, 'porosity'), '15.9e'), (('INCON', _B3, 'porosity'), '15.9e'),
                                   (('INCON', _B4, 'porosity'), '15.9e')]),
    ('main:20.13e', ('in',), None, [(('INDOM', 'dfalt', 0), '20.13e'), (('INDOM', 'dfalt', 1), '20.13e'),
                                    (('INDOM', 'ATMOS', 0), '20.13e'), (('INDOM', 'ATMOS', 1), '20.13e')]),
    ('main:mixed', ('in',), None, [(('ROCKS', 0, 'conductivity'), '10.4e'), (('PARAM', 'tstart'), '10.3e'),
                                   (('PARAM', 'default_incons', 0), '20.14e'), (('INCON', _B0, 'porosity'), '15.9e')]),
    ('mesh:10.4e', ('in', 'mesh'), None, [(('ELEME', 0, 'volume'), '10.4e'), (('ELEME', 0, 'ahtx'), '10.4e'),
                                          (('CONNE', 0, 'area'), '10.4e'), (('ELEME', 1, 'pmx'), '10.4e')]),
    ('mesh:10.3e', ('in', 'mesh'), None, [(('ELEME', 0, 'x'), '10.3e'), (('ELEME', 0, 'z'), '10.3e'),
                                          (('CONNE', 0, 'sigma'), '10.3e'), (('ELEME', 1, 'y'), '10.3e')]),
    ('mesh:10.7f', ('in', 'mesh'), None, [(('CONNE', 0, 'dircos'), '10.7f'), (('CONNE', 1, 'dircos'), '10.7f'),
                                          (('CONNE', 2, 'dircos'), '10.7f'), (('CONNE', 3, 'dircos'), '10.7f')]),
    ('pdat:15.8e', ('in',), XP_ALL, [(('ROCKS', 0, 'conductivity'), '15.8e'), (('ROCKS', 0, 'specific_heat'), '15.8e'),
                                     (('ELEME', 0, 'volume'), '15.8e'), (('GENER', 0, 'gx'), '15.8e')]),
    ('pdat:15.8f', ('in',), XP_ALL, [(('CONNE', 0, 'dircos'), '15.8f'), (('CONNE', 1, 'dircos'), '15.8f'),
                                     (('CONNE', 2, 'dircos'), '15.8f'), (('CONNE', 3, 'dircos'), '15.8f')]),
]
WIDE_KINDS = {'quick': ['p2', 'n2', 'p3', 'n3'], 'thorough': ['p2', 'n2', 'p3', 'n3', 'p-3', 'n+3']}


def wide_cases(tier):
    """Every assignment of the four quick value kinds (sign x exponent width; p2 = fits) to all slots of every
    family (thorough: also the six kinds on the first three slots)."""
    out = []
    for flavour in ('AUTOUGH2', 'TOUGH2'):
        for fam, carriers, xp, slots in WIDE_FAMILIES:
            if xp and flavour != 'AUTOUGH2':
                continue
            for mesh in carriers:
                seen = set()
                plans = [(WIDE_KINDS['quick'], len(slots))]
                if tier == 'thorough':
                    plans.append((WIDE_KINDS['thorough'], 3))
                for kinds, n in plans:
                    for assign in itertools.product(kinds, repeat=n):
                        # (a slot without a kind keeps the value of the base model)
                        assign = tuple(assign) + (None,) * (len(slots) - n)
                        if assign in seen:
                            continue
                        seen.add(assign)
                        out.append({'base': flavour, 'wide': fam, 'mesh': mesh, 'kinds': list(assign)})
    return out


def _path_get(M, path):
    for p in path:
        M = M[p]
    return M


def _path_set(M, path, v):
    for p in path[:-1]:
        M = M[p]
    M[path[-1]] = v


def _wide(case):
    """write -> read -> write of the base model with over-wide values in the slots of one family: every re-read
    slot value (library reader and reference reader) equals the value its field carries by the reference rule,
    the rest of the model is unchanged, the second write reproduces the first."""
    import t2data
    flavour, inp = case['base'], case['base'][0]
    fam, carriers, xp, slots = [f for f in WIDE_FAMILIES if f[0] == case['wide']][0]
    mode = {'mesh': case['mode']['mesh'], 'xp': list(xp) if xp else None, 'echo': False if xp else None}
    viol, info = [], {'written': False, 'steps': 0}
    M, order = base_model(flavour)
    if mode['mesh'] != 'in':
        M, order = _prune(*_drop_keys(M, order, ['SHORT']))
    M = copy.deepcopy(M)
    E = copy.deepcopy(M)
    want = []
    for i, ((path, fmt), kind) in enumerate(zip(slots, case['kinds'])):
        if kind is None:
            continue
        v = _wide_value(kind, fmt, i)
        _path_set(M, path, v)
        text = _carried(v, fmt)
        _path_set(E, path, float(text))
        want.append((path, fmt, kind, v, float(text), text.strip()))
    d = _workdir()
    with _quiet():
        dat = build(M, order)
    kw = {'extra_precision': list(xp), 'echo_extra_precision': False} if xp else {}
    tag = 'wide:%s' % fam
    try:
        with _quiet():
            dat.write(os.path.join(d, 'w1', 'model.dat'), _mesh_arg(d, 'w1', mode['mesh']), **kw)
    except core.CaseTimeout:
        raise
    except Exception as e:
        return [_exc_sig('write(obj):' + tag, e, inp)], dict(info, outcome='w1-raised')
    info['written'] = True
    _size_guard(d, 'w1', SIZE_CAP, 'write(obj)', inp)
    f1 = _files_of(d, 'w1', mode['mesh'])

    def judge(step, C):
        for path, fmt, kind, v, carried, text in want:
            try:
                got = _path_get(C, path)
            except (KeyError, IndexError, TypeError):
                got = None
            if got is None or float(got) != carried:
                pos = [p for p, f, k, x, c, t in want].index(path)
                before = '+'.join(k for p, f, k, x, c, t in want[:pos]) or 'first'
                viol.append(('C01|%s|%s|value-not-to-the-digits-of-its-field|%s|%s|after=%s|%s'
                             % (step, tag, fmt, kind, before, inp),
                             '%s: %s = %r comes back as %r; a %s field carries %r (%s), kinds in the slots '
                             'before it: %s' % (step, '/'.join(str(p) for p in path), v, got, fmt, text, carried, before)))
        diffs = t2canon.compare(E, C, **_cmp_kwargs(mode, 'wide'))
        _diff_viol(step + '|' + tag, diffs, inp, viol, 'model with over-wide values: the rest of the model')
    rock_names = [r['name'] for r in M.get('ROCKS') or []]
    try:
        R, seqs, end = _ref_read_files(f1, mode, flavour, rock_names)
        judge('refread(w1)', _norm_model(R))
    except t2layout.RefReadError as e:
        viol.append(('C01|refread(w1)|%s|unreadable|%s.%s|%s' % (tag, e.rec, e.field, inp),
                     'reference reader cannot read the written file: %s' % e))
    try:
        with _quiet():
            r1 = t2data.t2data(os.path.join(d, 'w1', 'model.dat'), _mesh_arg(d, 'w1', mode['mesh']))
    except core.CaseTimeout:
        raise
    except Exception as e:
        viol.append(_exc_sig('read(w1):' + tag, e, inp))
        return viol, dict(info, outcome='r1-raised')
    info['steps'] = 2
    judge('read(w1)', t2canon.canon(r1))
    try:
        with _quiet():
            r1.write(os.path.join(d, 'w2', 'model.dat'), _mesh_arg(d, 'w2', mode['mesh']))
    except core.CaseTimeout:
        raise
    except Exception as e:
        viol.append(_exc_sig('write(r1):' + tag, e, inp))
        return viol, dict(info, outcome='w2-raised')
    info['steps'] = 3
    _size_guard(d, 'w2', SIZE_CAP, 'write(r1)', inp)
    _compare_files(f1, _files_of(d, 'w2', mode['mesh']), True, 'w2-vs-w1|' + tag, inp, viol)
    info['outcome'] = 'ok' if not viol else 'violations'
    return viol, info


# --------------------------------------------------------------------------------------------------
# real files


def run_file_case(case):
    core.load_library()
    return _guarded(lambda: _file_chain(case), 'file:' + os.path.basename(case['file']), FILE_TIMEOUT,
                    'file:' + os.path.basename(case['file']))


def _file_chain(case):
    import t2data
    viol, info = [], {'written': False}
    d = _workdir()
    src = os.path.join(core.REPO, case['file'])
    tag = os.path.basename(os.path.dirname(case['file'])) + '/' + os.path.basename(case['file'])
    mesh = case.get('meshfile')
    mode_mesh = 'in' if not mesh else ('mesh' if isinstance(mesh, str) else 'binary')
    inp = 'file:' + tag + ('+' + mode_mesh if mesh else '')
    # copy next to the scratch area so that the companion .pdat is found and nothing is read twice from /repo
    os.makedirs(os.path.join(d, 'orig'))
    base = os.path.basename(src)
    shutil.copy(src, os.path.join(d, 'orig', base))
    stem = os.path.splitext(src)[0]
    for ext in ('.pdat', '.PDAT'):
        if os.path.exists(stem + ext):
            shutil.copy(stem + ext, os.path.join(d, 'orig', os.path.basename(stem) + ext))
    if mesh:
        marg = os.path.join(core.REPO, mesh) if isinstance(mesh, str) else [os.path.join(core.REPO, m) for m in mesh]
    else:
        marg = ''

    def step_names(step):
        mainf = os.path.join(d, step, 'model.dat')
        return mainf, _mesh_arg(d, step, mode_mesh)

    try:
        with _quiet():
            r0 = t2data.t2data(os.path.join(d, 'orig', base), marg)
    except core.CaseTimeout:
        raise
    except Exception as e:
        return [_exc_sig('read(orig)', e, inp)], info
    c0 = t2canon.canon(r0)
    cap = (1 << 20) + 20 * sum(os.path.getsize(os.path.join(d, 'orig', f)) for f in os.listdir(os.path.join(d, 'orig')))
    info['sections'] = list(r0._sections)
    secs0 = [s_ for s_ in r0._sections if s_ in c0]      # the sections of the original that hold data
    flavour = 'AUTOUGH2' if r0.simulator else 'TOUGH2'
    xp = tuple(r0.extra_precision or ())
    mode = {'mesh': mode_mesh, 'xp': list(xp) or None, 'echo': bool(r0.echo_extra_precision) if xp else None}
    try:
        with _quiet():
            m1, a1 = step_names('w1')
            r0.write(m1, a1)
            info['written'] = True
            _size_guard(d, 'w1', cap, 'write(read(orig))', inp)
            f1 = _files_of(d, 'w1', mode_mesh)
            info['bytes'] = len(f1['main'])
            r1 = t2data.t2data(m1, a1)
            secs1 = list(r1._sections)
            m2, a2 = step_names('w2')
            r1.write(m2, a2)
            _size_guard(d, 'w2', cap, 'write(r1)', inp)
            f2 = _files_of(d, 'w2', mode_mesh)
            r2 = t2data.t2data(m2, a2)
            m3, a3 = step_names('w3')
            r2.write(m3, a3)
            _size_guard(d, 'w3', cap, 'write(r2)', inp)
            f3 = _files_of(d, 'w3', mode_mesh)
    except (core.CaseTimeout, _TooBig, MemoryError):
        raise
    except Exception as e:
        return [_exc_sig('file-chain', e, inp)], info
    kw = _cmp_kwargs(mode, 'r1')
    diffs = t2canon.compare(c0, t2canon.canon(r1), **kw)
    _diff_viol('read(w1)', diffs, inp, viol, 'object read from the rewritten file differs from the object read '
               'from the original')
    if secs1 != secs0:
        extra = '+'.join(s_ for s_ in secs1 if s_ not in secs0)
        viol.append(('C01|read(w1)|announced-sections|%s|%s' % (('without-data=' + extra) if extra else 'differ', inp),
                     'sections after rewrite %s, sections with data of the original %s' % (secs1, secs0)))
    # reference reader on the rewritten bytes against the object the library read from the original
    try:
        rock_names = [rt.name for rt in r0.grid.rocktypelist]
        R, seqs, end = _ref_read_files(f1, mode, flavour, rock_names)
        side = ('ELEME', 'CONNE') if mode_mesh != 'in' else ()
        exp_main = [s for s in r0._sections if s not in side and not (s in xp and not mode['echo'])]
        if mode_mesh == 'mesh':
            exp_main = list(r0._sections)
            for s in side:       # the reader appended the side-file sections
                if s in exp_main:
                    exp_main.reverse()
                    exp_main.remove(s)
                    exp_main.reverse()
        if seqs['main'] != exp_main:
            viol.append(('C01|refread(w1)|section-sequence|main|%s' % inp,
                         'rewritten main file holds sections %s, object announces %s' % (seqs['main'], exp_main)))
        diffs = t2canon.compare(c0, _norm_model(R), **kw)
        _diff_viol('refread(w1)', diffs, inp, viol,
                   'reference reader on the rewritten bytes does not see what the library read from the original')
    except t2layout.RefReadError as e:
        viol.append(('C01|refread(w1)|unreadable|%s.%s|%s' % (e.rec, e.field, inp),
                     'reference reader cannot read the rewritten file: %s' % e))
    _compare_files(f1, f2, True, 'w2-vs-w1', inp, viol)
    _compare_files(f2, f3, False, 'w3-vs-w2', inp, viol)
    # the content of the real file rendered by the reference Fortran-style writer (all in one file)
    secs = []
    for s_ in list(r0._sections) + [x for x in xp]:
        if s_ not in secs and (s_ in c0 or s_ in ('ELEME', 'CONNE')):
            secs.append(s_)
    for a, b in (('ROCKS', 'ELEME'), ('ELEME', 'CONNE'), ('GENER', 'SHORT')):
        if a in secs and b in secs and secs.index(a) > secs.index(b):
            secs.remove(a)
            secs.insert(secs.index(b), a)
    try:
        text = t2layout.write_main(c0, secs, flavour, r0.end_keyword)
    except (ValueError, KeyError, TypeError) as e:
        text = None
        info['reference_writer'] = 'cannot render: %s' % e
    if text is not None:
        with open(os.path.join(d, 'rw', 'model.dat'), 'w') as f:
            f.write(text)
        try:
            with _quiet():
                rr = t2data.t2data(os.path.join(d, 'rw', 'model.dat'))
            diffs = t2canon.compare(c0, t2canon.canon(rr))
            _diff_viol('read(fortran-style)', diffs, inp, viol,
                       'library reading the content of the file as written by the reference Fortran-style writer')
        except core.CaseTimeout:
            raise
        except Exception as e:
            viol.append(_exc_sig('read(fortran-style)', e, inp))
    info['outcome'] = 'ok' if not viol else 'violations'
    return viol, info


# --------------------------------------------------------------------------------------------------
# history: what one object does must not show in another object of the same process


def _plain(v, depth=0):
    """Everything an object holds besides its grid and bound methods, as plain data."""
    try:
        import numpy as np
        if isinstance(v, np.ndarray):
            return v.tolist()
        if isinstance(v, np.generic):
            return v.item()
    except Exception:
        pass
    if isinstance(v, dict):
        return dict((str(k), _plain(x, depth + 1)) for k, x in v.items())
    if isinstance(v, (list, tuple)):
        return [_plain(x, depth + 1) for x in v]
    if isinstance(v, (int, float, str, bool)) or v is None:
        return v
    return '<%s>' % type(v).__name__


def _projection(dat):
    raw = dict((k, _plain(v)) for k, v in vars(dat).items()
               if k not in ('read_fn', 'write_fn', 'read_function', 'grid', 'filename', 'meshfilename', 'generator'))
    return {'canon': t2canon.canon(dat), 'raw': raw}


def _scribble(dat):
    """Edits every mutable container of an object in place (the way user code does: append, item assignment)."""
    import numpy as np
    from t2grids import rocktype, t2block
    for k, v in list(vars(dat).items()):
        if isinstance(v, list):
            v.append(1.0)
        elif isinstance(v, np.ndarray):
            v[...] = 7
        elif isinstance(v, dict) and k not in ('read_fn', 'write_fn', 'read_function'):
            for k2, v2 in list(v.items()):
                if isinstance(v2, list):
                    v2.append(1.0)
                elif isinstance(v2, np.ndarray):
                    v2[...] = 7
            v['c01 scribble'] = 1
    dat.grid.add_rocktype(rocktype('scrib'))
    dat.grid.add_block(t2block('scr 1', 1.0, dat.grid.rocktype['scrib']))


def _history(flavour):
    """Same file read twice; another file read in between; fresh objects before / after reads and after
    in-place edits of another object.  Every comparison is between two objects of this process, so the
    verdict does not depend on what the process did before."""
    import t2data
    viol, info = [], {'written': False, 'comparisons': 0, 'steps_done': []}
    inp = 'history:' + flavour[0]
    d = _workdir()

    def differ(tag, a, b, what):
        info['comparisons'] += 1
        info['steps_done'].append(tag)
        diffs = t2canon.compare(a, b, limit=12)
        if any(path[0] == 'canon' for path, x, y in diffs):
            diffs = [x for x in diffs if x[0][0] == 'canon']    # the raw attributes only where the projection is blind
        seen = set()
        for path, x, y in diffs:
            cls = t2canon.field_class(path)
            if cls in seen:
                continue
            if len(seen) >= 2:
                break       # two field classes per comparison tell the defect; the rest is in the message
            seen.add(cls)
            viol.append(('C01|history|%s|%s|%s' % (tag, cls, inp), '%s: %s' % (what, t2canon.show(diffs, 3))))

    with _quiet():
        fresh0 = _projection(t2data.t2data())
        M, order = base_model(flavour)
        fa, fb = os.path.join(d, 'w1', 'model.dat'), os.path.join(d, 'w2', 'model.dat')
        obj = build(M, order)
        obj.write(fa)
        info['written'] = True
        fresh_w = _projection(t2data.t2data())
        differ('fresh-object-after-write', fresh0, fresh_w, 'a new object created after another object was written '
               'differs from one created before')
        M2, order2 = apply_dev(*(apply_dev(M, order, ('len', 'default_incons', 3)) + (('len', 'timestep', 11),)))
        build(M2, order2).write(fb)
        ra1 = t2data.t2data(fa)
        ca1 = _projection(ra1)
        ra2 = t2data.t2data(fa)
        ca2 = _projection(ra2)
        differ('second-read-of-same-file', ca1, ca2, 'the same file read twice in one process gives different objects')
        differ('object-changed-by-later-read', ca1, _projection(ra1), 'an object changed when the file was read '
               'again into another object')
        differ('read-vs-written', {'canon': M}, {'canon': ca1['canon']}, 'first read of the written base model')
        rb = t2data.t2data(fb)
        differ('read-of-second-file', {'canon': M2}, {'canon': t2canon.canon(rb)}, 'a file read after another file '
               'was read does not give its own content')
        ra3 = t2data.t2data(fa)
        differ('read-after-other-file', ca1, _projection(ra3), 'the file read again after another file was read '
               'gives a different object')
        fresh1_obj = t2data.t2data()
        differ('fresh-object-after-reads', fresh0, _projection(fresh1_obj), 'a new object created after files were '
               'read differs from one created before')
        _scribble(fresh1_obj)
        _scribble(ra3)
        differ('fresh-object-after-edits', fresh0, _projection(t2data.t2data()), 'a new object created after another '
               'object was edited in place differs from one created before')
        differ('read-after-edits', ca1, _projection(t2data.t2data(fa)), 'the file read after other objects were '
               'edited in place gives a different object')
        if flavour == 'AUTOUGH2':
            _history_xp(M, order, d, fa, ca1, differ, viol, inp, info)
    info['outcome'] = 'ok' if not viol else 'violations'
    return viol, info


def _history_xp(M, order, d, fa, ca1, differ, viol, inp, info):
    """Routes through the extra-precision companion file (inside the caller's quiet block)."""
    import t2data
    pristine = _state_snapshot()
    hx = os.path.join(d, 'hx')
    for sub in ('xp', 'over', 'a', 'b'):
        os.makedirs(os.path.join(hx, sub))
    fx = os.path.join(hx, 'xp', 'model.dat')
    build(M, order).write(fx, extra_precision=list(XP_ALL), echo_extra_precision=False)
    # both orders of the two parsers on the same model, each order from pristine library state
    _state_install(pristine)
    std1 = _projection(t2data.t2data(fa))
    xp2 = _projection(t2data.t2data(fx))
    _state_install(pristine)
    xp1 = _projection(t2data.t2data(fx))
    std2 = _projection(t2data.t2data(fa))
    differ('standard-read-after-extra-precision-read', std1, std2, 'a standard file read after an extra-precision '
           'model was read differs from the same file read first')
    differ('extra-precision-read-after-standard-read', xp1, xp2, 'an extra-precision model read after a standard '
           'file was read differs from the same model read first')
    differ('extra-precision-read-vs-written', {'canon': M}, {'canon': xp1['canon']},
           'first read of the base model written with extra precision')
    # a model written over the files of another model (same name): what is read back is what was written last
    M2, order2 = apply_dev(M, order, ('len', 'rocks', 2))
    fo = os.path.join(hx, 'over', 'model.dat')
    build(M2, order2).write(fo, extra_precision=list(XP_ALL), echo_extra_precision=False)
    build(M, order).write(fo, extra_precision=False)
    differ('rewrite-without-extra-precision-over-extra-precision-files', {'canon': M},
           {'canon': t2canon.canon(t2data.t2data(fo))}, 'a model written without extra precision over the files of '
           'a model written with it is not what is read back (companion file left behind)')
    build(M2, order2).write(fo, extra_precision=['ROCKS'], echo_extra_precision=True)
    differ('rewrite-with-other-extra-precision-sections', {'canon': M2},
           {'canon': t2canon.canon(t2data.t2data(fo))}, 'a model written with extra precision over files written '
           'with other settings is not what is read back')
    # the same files reached by another spelling of their path (relative / absolute, upper-case first letter of
    # the file or of its directory): the companion file must be found again
    cwd = os.getcwd()
    try:
        for dname, fname in (('lower', 'Model.dat'), ('Upper', 'model.dat'), ('Upper2', 'Model.dat')):
            top = os.path.join(hx, 'paths')
            os.makedirs(os.path.join(top, dname))
            os.chdir(top)
            rel, absf = os.path.join(dname, fname), os.path.join(top, dname, fname)
            for wpath, rpath, tag in ((rel, absf, 'relative-then-absolute'), (absf, rel, 'absolute-then-relative')):
                for x in os.listdir(dname):
                    os.remove(os.path.join(dname, x))
                build(M, order).write(wpath, extra_precision=list(XP_ALL), echo_extra_precision=False)
                differ('written-%s|%s' % (tag, rel), {'canon': M}, {'canon': t2canon.canon(t2data.t2data(rpath))},
                       'a model written to %r (extra precision, not echoed) and read from %r, the same file'
                       % (wpath if wpath == rel else '<abs>/' + rel, rpath if rpath == rel else '<abs>/' + rel))
            os.chdir(dname)
            for x in os.listdir('.'):
                os.remove(x)
            build(M, order).write(fname, extra_precision=list(XP_ALL), echo_extra_precision=False)
            differ('written-in-directory|%s' % rel, {'canon': M}, {'canon': t2canon.canon(t2data.t2data(absf))},
                   'a model written to %r from inside its directory and read from <abs>/%s' % (fname, rel))
    finally:
        os.chdir(cwd)
    # an object that was written and then reads its own file again must not change what other objects write
    fa_, fb_ = os.path.join(hx, 'a', 'model.dat'), os.path.join(hx, 'b', 'model.dat')
    a = build(M, order)
    a.write(fa_, extra_precision=True, echo_extra_precision=False)
    first = _readfile(os.path.join(hx, 'a', 'model.pdat'))
    a.read(fa_)
    build(M, order).write(fb_, extra_precision=True, echo_extra_precision=False)
    second = _readfile(os.path.join(hx, 'b', 'model.pdat'))
    info['comparisons'] += 1
    info['steps_done'].append('companion-file-of-later-object')
    if first != second:
        sub = []
        _compare_files({'pdat': first}, {'pdat': second}, False, 'x', 'x', sub)
        viol.append(('C01|history|companion-file-of-later-object|%s|%s'
                     % (sub[0][0].split('|')[3] if sub else 'differs', inp),
                     'the same model written with extra_precision=True by a new object gives a different companion '
                     'file after another object was written and re-read its own file: %s'
                     % (sub[0][1] if sub else '')))


def finalize(rec, tier):
    cases = enumerate_cases(tier)
    dims = {}
    for c in cases:
        for dv in c['devs']:
            k = dv[0] + (':' + str(dv[1]) if dv[0] in ('len', 'none') else '')
            dims[k] = dims.get(k, 0) + 1
    modes = dict((f, len(all_modes(f))) for f in ('AUTOUGH2', 'TOUGH2'))
    return {'generated_cases': len(cases), 'deviation_uses': dims, 'modes_per_flavour': modes,
            'single_deviations': dict((f, len(single_devs(f))) for f in ('AUTOUGH2', 'TOUGH2')),
            'dimensions': {'sections': 'drop/only/move crossed completely (k=1)',
                           'lengths': 'every n of the stated range (k=1); boundary values in pairs',
                           'none': 'every optional field singly, all together; pairs within a record (thorough)',
                           'modes': 'crossed with the base (quick) / with every single deviation (thorough)',
                           'over_wide_values': 'families x kinds^slots, complete',
                           'object_histories': 'queries x edits (x queries x edits) x final carrier, complete'},
            'over_wide_value_cases': len([c for c in cases if 'wide' in c]),
            'object_history_cases': len([c for c in cases if 'hist' in c])}
