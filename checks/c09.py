"""C09 - reorder / rename / MINC / embed keep the physics the grid describes.

Parts (each a family of work units):
  reorder  E2  per base grid: complete permutation x reversal-subset space when the grid is small, otherwise
               identity, every transposition of blocks and of connections, every single and double reversal,
               full reversal, reversed order, reorder(geo=) of the geometry and of a block-order variant
  rename   E2  per base grid: every one-to-one map on a 4-name sub-universe + spare, whole-grid maps; names that
               fix_blockname() changes ('AB1 5' -> 'AB105') as keys and values: every one-to-one map on 3 present names +
               2 such spares, alias-keyed and whole-grid maps x fix_blocknames default/True/False x t2grid/t2data route x
               3 pre-states (geometry names / an unfixed name present / its fixed form present); every rename is followed
               by neighbour lookups, delete_block of each of the first 6 blocks, and a full reversal
  seq      E1  breadth-first over {reorder, rename (incl. to / from (a3,i2) names, fixing on and off), delete_block, write+read of the data file with the mesh inline / in a text MESH
               file / in the binary MESHA+MESHB pair} (mc/engine_seq.py)
  minc     E2  every composition of 10 tenths into 2..6 parts x 1,2,3 fracture-plane sets x 3 spacings x
               block selections of a 4-block grid (+ boundary / inactive block variants)
  embed    E2  2-block sub-grid into every block of every base grid; two successive embeds (second connection from the
               result's block / the original grid's block object / the same connection object re-used)

Oracle: the physical signature of ref/gridmodel.physics() - per block (volume, rock, centre); per
interface {block: own distance}, area, permeability direction, which block is the upper one, |cosine| -
computed from the real grid before and after (names pushed through the rename map; field digits after a
file round trip); MINC / embed volume bookkeeping from the statement.
The signature is read from blocklist/connectionlist and the objects' names only, so it is judged even where
the by-name dictionaries disagree; a state with the right physics but a broken C08 invariant is counted and
not expanded (it is C08's finding); lists that do not describe a network are reported as network-unreadable.
"""
import contextlib
import copy
import io
import itertools
import os

from mc import core, engine_seq
from ref.gridmodel import GridModel, ModelError, fix_blockname
from checks import c08

ID = 'C09'
LEVEL = 'exploration'
ENGINE = 'E1'
EXHAUSTIVE = True
RULE = ('per base grid (6 geometries incl. a stepped-surface and a tilted one x 3 atmosphere types): all block permutations x connection permutations x reversal '
        'subsets when <= 4 blocks and <= 4 connections, else identity + all transpositions + all single/double/full '
        'reversals + geometry orders; all one-to-one rename maps on a 4-name sub-universe plus spare and whole-grid maps; '
        'all one-to-one maps on 3 present names + 2 spares of the (a3,i2) form that fix_blockname changes, alias-keyed and whole-grid '
        'such maps, x fix_blocknames (default, True, False) x (t2grid, t2data) route x 3 pre-states, each followed by neighbour '
        'lookups, delete_block of each of the first 6 blocks and a full reversal; '
        'breadth-first compositions of {reorder, rename, file write+read}; all compositions of 10 tenths into 2..6 MINC '
        'fractions x planes x spacings x block selections; embed into every block. A case is non-trivial when it changes '
        'the grid (not the identity / empty map); distinct = distinct (part, base grid, arguments)')
ASSUMPTIONS = [
    'contract: reorder gets complete lists; a pair is listed reversed only when the reversed name is not another connection',
    'contract: rename maps are one-to-one and avoid unrenamed present blocks - judged on the names after fix_blockname() when the '
    'fixing is on; the resulting names stay distinct as TOUGH2 (a3,i2) names (no \'AB1 5\' beside \'AB105\')',
    'with fix_blocknames on (the default) keys and values of the map are read through fix_blockname(): a key \'AB1 5\' names the block '
    '\'AB105\' and not a block literally called \'AB1 5\'; a data file returns every name in its fixed form',
    'after a rename each block\'s neighbour_name / connection_name (as unordered pairs) must name the pairs of the connection list; '
    'delete_block removes the block and exactly the connections it takes part in',
    'the physical signature is read from the ordered lists and the objects\' names only; a state whose physics is right but '
    'whose C08 invariant (dict/list agreement) is broken is counted under gated_by_C08_invariant; in the composition part it is '
    'still expanded and what is found behind it carries |after=<step(clause)>; every rename is also followed by a full reversal',
    'file round trip compares to the digits of the fixed-column fields (10.4e: 1e-4 relative; centre 10.3e: 1e-3 relative; '
    'cosine 10.7f: 1e-7 absolute)',
    'MINC: default block and rock naming; atmos_volume default; the fracture-side distance of the first nested connection '
    'is the documented fracture_connection_distance (default 0); nested distances/areas are otherwise not asserted',
    'embed: host block gives up exactly the sub-grid volume, all other blocks keep theirs (reading of "embedded inside '
    'one of its blocks"); a host that is too small must give None',
    'which block is the upper one: with pair orientation block0 -> block1, cosine < 0 means block1 is upper (fromgeo '
    'writes [lower, upper] with cosine -1)',
    'trusted: ref/gridmodel.py',
]
BOUNDS = {
    'quick': {'reorder': 'all 18 base grids', 'rename': 'all base grids; fixable names: 3 pre-states x 3 fix settings x 2 routes', 'seq_depth': 3,
              'seq_ops': 'up to 22 per state (incl. 6 with (a3,i2) names, fix on/off, delete_block)', 'minc_parts': '2..5 (255 vectors)',
              'minc_selections': 'all, 1 single, 1 pair', 'embed': 'all base grids'},
    'thorough': {'reorder': 'all 18 base grids', 'rename': 'all base grids; fixable names: 3 pre-states x 3 fix settings x 2 routes', 'seq_depth': 4,
                 'seq_ops': 'up to 22 per state (incl. 6 with (a3,i2) names, fix on/off, delete_block)', 'minc_parts': '2..6 (381 vectors)',
                 'minc_selections': 'all, each single, each pair (11)', 'embed': 'all base grids'},
}
TECHNIQUE = ('bounded exhaustive enumeration of permutations, reversal subsets, rename maps, MINC fraction vectors and embed '
             'hosts on real grids built from geometries, plus breadth-first compositions with file round trips; metamorphic '
             'oracle on the physical signature')
LEVEL_TEXT = ('Every member of the stated argument spaces is executed on the real t2grid and the physical signature before '
              'and after is compared exactly (to field digits after a file round trip); small grids are crossed completely, '
              'larger ones to the stated deviation bound.')
LEVEL_NOTE = ('Grids above 4 blocks are covered to transpositions and double reversals, not all permutations. MINC nested '
              'distances and areas are not asserted (the statement fixes volumes, fractions and the chain only). States with the '
              'right physics but a broken C08 invariant are not expanded.')

GEOS = ['R212', 'R222', 'R312', 'IRR6', 'R222S', 'R222T']      # ...S stepped surface, ...T tilted (gdcx, gdcy)
_quiet = io.StringIO()


def quiet():
    _quiet.seek(0)
    _quiet.truncate()
    return contextlib.redirect_stdout(_quiet)


# ------------------------------------------------------------------------------------------------
# base grids
# ------------------------------------------------------------------------------------------------
_GEO = {}


def irregular_geo(atmos_type, block_order=None):
    """Six columns: quad, two triangles, two quads, a pentagon; two layers."""
    import mulgrids
    import numpy as np
    geo = mulgrids.mulgrid(type='GENER', convention=0, atmos_type=atmos_type, block_order=block_order)
    geo.empty()
    pts = [(0., 0.), (10., 0.), (25., 0.), (0., 10.), (10., 10.), (25., 10.), (0., 20.), (10., 20.), (25., 20.),
           (35., 0.), (35., 20.)]
    for i, p in enumerate(pts):
        geo.add_node(mulgrids.node(geo.node_name_from_number(i + 1), np.array(p)))
    cols = [[1, 4, 5, 2], [2, 5, 3], [5, 6, 3], [4, 7, 8, 5], [5, 8, 9, 6], [3, 6, 9, 11, 10]]
    for i, c in enumerate(cols):
        geo.add_column(mulgrids.column(geo.column_name_from_number(i + 1),
                                       [geo.node[geo.node_name_from_number(v)] for v in c]))
    for i, j in itertools.combinations(range(len(cols)), 2):
        if len(set(cols[i]) & set(cols[j])) == 2:
            geo.add_connection(mulgrids.connection([geo.columnlist[i], geo.columnlist[j]]))
    geo.add_layers([5., 7.], 0.)
    geo.set_default_surface()
    geo.identify_neighbours()
    geo.setup_block_name_index()
    geo.setup_block_connection_name_index()
    return geo


def base_geo(gname, atm, block_order=None):
    key = (gname, atm, block_order)
    if key not in _GEO:
        import mulgrids
        with quiet():
            if gname == 'R212':
                g = mulgrids.mulgrid().rectangular([10., 20.], [30.], [5., 7.], atmos_type=atm, block_order=block_order)
            elif gname == 'R222':
                g = mulgrids.mulgrid().rectangular([10., 20.], [30., 40.], [5., 7.], atmos_type=atm, block_order=block_order)
            elif gname == 'R312':
                g = mulgrids.mulgrid().rectangular([10., 20., 15.], [30.], [5., 7.], atmos_type=atm, block_order=block_order)
            elif gname == 'R222S':
                # stepped / sloping surface: truncated top blocks at different elevations and one column
                # without a top-layer block, so horizontal connections have a non-zero gravity cosine
                g = mulgrids.mulgrid().rectangular([10., 20.], [30., 40.], [5., 7.], atmos_type=atm, block_order=block_order)
                for col, surf in zip(g.columnlist, (0., -2., -5., -1.)):
                    col.surface = surf
                    g.set_column_num_layers(col)
                g.setup_block_name_index()
                g.setup_block_connection_name_index()
            elif gname == 'R222T':
                g = mulgrids.mulgrid().rectangular([10., 20.], [30., 40.], [5., 7.], atmos_type=atm, block_order=block_order)
                g.gdcx, g.gdcy = 0.1, 0.2
            elif gname == 'IRR6':
                g = irregular_geo(atm, block_order)
            else:
                raise core.HarnessError('unknown geometry %r' % gname)
        _GEO[key] = g
    return _GEO[key]


def geo_orders(gname):
    """dmplex ordering is documented for hexahedra and wedges only (no pentagonal columns)."""
    return (None,) if gname == 'IRR6' else (None, 'dmplex')


def base_grid(gname, atm):
    """fromgeo grid with four extra rock types dealt round the underground blocks, so that a block's rock
    type identifies it as well as its volume and centre do."""
    import t2grids
    with quiet():
        g = t2grids.t2grid().fromgeo(base_geo(gname, atm))
        for i in range(4):
            g.add_rocktype(t2grids.rocktype(name='rck%02d' % i, permeability=[1.e-15 * (i + 1)] * 3))
        for i, blk in enumerate(g.blocklist):
            if not blk.atmosphere:
                blk.rocktype = g.rocktype['rck%02d' % (i % 4)]
    return g


def bases():
    return [(g, a) for g in GEOS for a in (0, 1, 2)]


# ------------------------------------------------------------------------------------------------
# oracle
# ------------------------------------------------------------------------------------------------
def model_of(grid):
    return c08.model_from_grid(grid)


def feq(a, b, rel, absol=0.0):
    if a is None or b is None:
        return a is None and b is None
    return a == b or abs(a - b) <= max(rel * max(abs(a), abs(b)), absol)


def compare_physics(got, want, filetol=False):
    """First difference (clause, detail) between two physical signatures, or None."""
    r4, r3, a7 = (1.0001e-4, 1.0001e-3, 1.0001e-7) if filetol else (0., 0., 0.)
    gb, gc = got
    wb, wc = want
    if sorted(gb) != sorted(wb):
        return 'block-set', 'blocks %r, expected %r' % (sorted(gb), sorted(wb))
    for n in sorted(wb):
        (v1, r1, c1), (v2, r2, c2) = gb[n], wb[n]
        if not feq(v1, v2, r4):
            return 'block-volume', 'block %r has volume %r, expected %r' % (n, v1, v2)
        if r1 != r2:
            return 'block-rocktype', 'block %r has rock type %r, expected %r' % (n, r1, r2)
        if (c1 is None) != (c2 is None) or (c1 is not None and not all(feq(x, y, r3) for x, y in zip(c1, c2))):
            return 'block-centre', 'block %r has centre %r, expected %r' % (n, c1, c2)
    if [c[0] for c in gc] != [c[0] for c in wc]:
        return 'connected-pairs', 'connected pairs %r, expected %r' % ([c[0] for c in gc], [c[0] for c in wc])
    for (p1, own1, ar1, dr1, up1, cos1), (p2, own2, ar2, dr2, up2, cos2) in zip(gc, wc):
        if [k for k, v in own1] != [k for k, v in own2] or not all(feq(x[1], y[1], r4) for x, y in zip(own1, own2)):
            return 'own-distance', 'pair %r has distances %r, expected %r' % (p1, dict(own1), dict(own2))
        if not feq(ar1, ar2, r4):
            return 'interface-area', 'pair %r has area %r, expected %r' % (p1, ar1, ar2)
        if dr1 != dr2:
            return 'permeability-direction', 'pair %r has direction %r, expected %r' % (p1, dr1, dr2)
        if up1 != up2:
            return 'upper-block', 'pair %r: the gravity cosine says %r is the upper block, expected %r' % (p1, up1, up2)
        if not feq(cos1, cos2, 0., a7):
            return 'cosine-magnitude', 'pair %r has |cosine| %r, expected %r' % (p1, cos1, cos2)
    return None


def gated(grid):
    """C08's invariant: when broken the state belongs to C08."""
    return c08.invariant(grid)


def do_reorder(grid, block_names, connection_names, geo=None):
    with quiet():
        if geo is not None:
            grid.reorder(geo=geo)
        else:
            grid.reorder(block_names=block_names,
                         connection_names=None if connection_names is None else [tuple(c) for c in connection_names])


def readable(grid):
    """The ordered lists alone must describe a network: unique block names, every connection joining two
    objects of the block list.  Returns None or a description of what is unusable."""
    try:
        names = [b.name for b in grid.blocklist]
        if len(set(names)) != len(names):
            return 'two blocks of the block list carry the same name: %r' % (names,)
        ids = set(id(b) for b in grid.blocklist)
        for con in grid.connectionlist:
            if len(con.block) != 2 or any(id(b) not in ids for b in con.block):
                return 'connection %r joins an object that is not in the block list' % (con,)
        pairs = [(c.block[0].name, c.block[1].name) for c in grid.connectionlist]
        if len(set(pairs)) != len(pairs):
            return 'two connections carry the same oriented name pair: %r' % (pairs,)
    except Exception as e:
        return 'reading the lists raised %r' % (e,)
    return None


def judge(site, cls, grid_before_model, grid_after, filetol=False):
    """(violations, gated) for a transition whose expected physics is that of grid_before_model.
    The physical signature is read from blocklist / connectionlist objects and their .name only, so it is
    judged whether or not the by-name dictionaries agree (C08's invariant).  'gated' is set when the
    physics is right but the C08 invariant is broken: such a state is C08's finding and is not expanded."""
    bad = readable(grid_after)
    if bad:
        return [('C09|%s|network-unreadable|%s' % (site, cls), bad)], None
    diff = compare_physics(model_of(grid_after).physics(), grid_before_model.physics(), filetol)
    if diff:
        clause = diff[0]
        if 'rename_blocks' in site and clause in ('block-volume', 'block-rocktype', 'block-centre'):
            clause = 'block-keeps-volume-rocktype-centre'      # a block under a wrong name: one failure, not three
        return [('C09|%s|%s|%s' % (site, clause, cls), diff[1])], None
    bad = gated(grid_after)
    return [], (bad[0] if bad else None)


def reorder_class(model, block_names, connection_names):
    parts = []
    if block_names:
        parts.append('blocks')
    if connection_names:
        parts.append('connections-reversed' if any(tuple(c) not in model.cinfo for c in connection_names) else 'connections')
    return '+'.join(parts) or 'nothing'


def eval_reorder(grid, block_names, connection_names, geo=None, geoname=None):
    """Runs one reorder on (a private copy of) grid.  Returns (violations, gated-clause, grid)."""
    m = model_of(grid)
    cls = ('geo:' + geoname) if geo is not None else reorder_class(m, block_names, connection_names)
    try:
        with core.timelimit(60):
            do_reorder(grid, block_names, connection_names, geo)
    except core.CaseTimeout:
        return [('C09|reorder|timeout|%s' % cls, 'reorder did not return within 60 s')], None, grid
    except Exception as e:
        return [('C09|reorder|raises:%s|%s' % (type(e).__name__, cls), 'reorder raised %r' % (e,))], None, grid
    v, g = judge('reorder', cls, m, grid)
    return v, g, grid


def fix_tag(fix):
    return {None: '', True: '(fix_blocknames=True)', False: '(fix_blocknames=False)'}[fix]


def legal_rename(model, pairs, fix=None):
    """Contract of a rename map, judged on the names that result (keys and values first pushed through
    fix_blockname unless fix is False): one-to-one on the blocks it renames, no unrenamed present block hit,
    and the resulting names still distinct when read as TOUGH2 '(a3,i2)' names (so that a data file can hold them)."""
    mp = dict((a, b) for a, b in pairs)
    if len(mp) != len(pairs):
        return False
    if fix is not False:
        fx = dict((fix_blockname(a), fix_blockname(b)) for a, b in mp.items())
        if len(fx) != len(mp):
            return False
        mp = fx
    names = [mp.get(n, n) for n in model.blocks]
    return len(set(names)) == len(names) and len(set(fix_blockname(n) for n in names)) == len(names)


def eval_rename(grid, pairs, via_t2data=False, fix=None):
    """fix: None = fix_blocknames left at its default (True), True / False = passed explicitly."""
    m = model_of(grid)
    cls = c08.map_class([[fix_blockname(a), fix_blockname(b)] for a, b in pairs] if fix is not False else pairs, m.blocks)
    if any(fix_blockname(x) != x for p in pairs for x in p):
        cls += '+names-of-a3-i2-form'
    site = ('t2data.rename_blocks' if via_t2data else 'rename_blocks') + fix_tag(fix)
    given = dict((a, b) for a, b in pairs)
    kw = {} if fix is None else {'fix_blocknames': fix}
    try:
        with quiet(), core.timelimit(60):
            if via_t2data:
                import t2data
                dat = t2data.t2data()
                dat.grid = grid
                dat.rename_blocks(given, **kw)
            else:
                grid.rename_blocks(given, **kw)
    except core.CaseTimeout:
        return [('C09|%s|timeout|%s' % (site, cls), 'rename_blocks(%r) did not return within 60 s' % (pairs,))], None, grid
    except Exception as e:
        return [('C09|%s|raises:%s|%s' % (site, type(e).__name__, cls), 'rename_blocks(%r) raised %r' % (pairs, e))], None, grid
    m.rename_blocks(dict((a, b) for a, b in pairs), fix is not False)
    v, g = judge(site, cls, m, grid)
    return v, g, grid


def eval_delete(grid, name):
    """delete_block: the block and every connection it takes part in go, the rest of the network stays."""
    m = model_of(grid)
    try:
        with quiet(), core.timelimit(60):
            grid.delete_block(name)
    except core.CaseTimeout:
        return [('C09|delete_block|timeout|any', 'delete_block(%r) did not return within 60 s' % (name,))], None, grid
    except Exception as e:
        return [('C09|delete_block|raises:%s|any' % type(e).__name__, 'delete_block(%r) raised %r' % (name, e))], None, grid
    m.delete_block(name)
    v, g = judge('delete_block', 'any', m, grid)
    return v, g, grid


def eval_neighbours(grid):
    """What each block answers when asked for its neighbours and its connections, against the ordered lists."""
    m = model_of(grid)
    for b in grid.blocklist:
        try:
            with quiet():
                got = sorted(b.neighbour_name)
                cons = sorted(tuple(sorted(c)) for c in b.connection_name)
        except Exception as e:
            return [('C09|neighbour_name|raises:%s|any' % type(e).__name__, 'neighbour_name of block %r raised %r' % (b.name, e))]
        want = sorted(m.neighbours(b.name))
        if got != want:
            return [('C09|neighbour_name|connected-pairs|any', 'block %r says its neighbours are %r, the connection list joins it to %r'
                     % (b.name, got, want))]
        wantc = sorted(tuple(sorted(c)) for c in m.cons_of(b.name))
        if cons != wantc:
            return [('C09|connection_name|connected-pairs|any', 'block %r says its connections are %r, the connection list has %r'
                     % (b.name, cons, wantc))]
    return []


def eval_fileroundtrip(grid, flavour='inline'):
    """Write + read of the data file: mesh inline, in a text MESH side file, or in the binary MESHA/MESHB pair."""
    import t2data
    m = model_of(grid)
    d = core.scratch()
    fn = os.path.join(d, 'c09.dat')
    mesh = {'inline': '', 'mesh': os.path.join(d, 'c09.MESH'),
            'binary': (os.path.join(d, 'c09.MESHA'), os.path.join(d, 'c09.MESHB'))}[flavour]
    site = 'write+read' if flavour == 'inline' else 'write+read(%s mesh file)' % ('text' if flavour == 'mesh' else 'binary')
    try:
        with quiet(), core.timelimit(60):
            dat = t2data.t2data()
            dat.grid = grid
            dat.write(fn, meshfilename=mesh)
            g2 = t2data.t2data(fn, meshfilename=mesh).grid
    except core.CaseTimeout:
        return [('C09|%s|timeout|any' % site, 'data file round trip did not return within 60 s')], None, grid
    except Exception as e:
        return [('C09|%s|raises:%s|any' % (site, type(e).__name__), 'data file round trip raised %r' % (e,))], None, grid
    if any(fix_blockname(b) != b for b in m.blocks):
        # a name of the (a3,i2) form with a blank in column 4 is read back with the zero ('AB1 5' -> 'AB105')
        m.rename_blocks(dict((b, fix_blockname(b)) for b in m.blocks), False)
    if flavour == 'binary':
        # the binary files have no way to say "no centre": a block written without one is not compared on it
        for b in m.blocks:
            if m.binfo[b]['centre'] is None and b in g2.block:
                g2.block[b].centre = None
    v, g = judge(site, 'any', m, g2, filetol=True)
    return v, g, g2


# ------------------------------------------------------------------------------------------------
# part: reorder
# ------------------------------------------------------------------------------------------------
def reorder_cases(model):
    """(block_names or None, connection_names or None) - complete for small grids, bounded otherwise."""
    bl, cn = list(model.blocks), [list(c) for c in model.conns]
    nb, nc = len(bl), len(cn)
    if nb <= 4 and nc <= 4:
        for bp in itertools.permutations(bl):
            for order in itertools.permutations(range(nc)):
                for k in range(nc + 1):
                    for revs in itertools.combinations(range(nc), k):
                        yield list(bp), [cn[i][::-1] if i in revs else cn[i] for i in order]
        return
    yield None, None
    yield bl, cn
    yield bl[::-1], None
    yield None, cn[::-1]
    yield bl[::-1], [c[::-1] for c in cn][::-1]
    yield None, [c[::-1] for c in cn]
    for i, j in itertools.combinations(range(nb), 2):
        p = list(bl)
        p[i], p[j] = p[j], p[i]
        yield p, None
    for i, j in itertools.combinations(range(nc), 2):
        p = list(cn)
        p[i], p[j] = p[j], p[i]
        yield None, p
        yield None, [c[::-1] if k in (i, j) else c for k, c in enumerate(cn)]
    for i in range(nc):
        yield None, [c[::-1] if k == i else c for k, c in enumerate(cn)]
        yield bl[1:] + bl[:1], [c[::-1] if k == i else c for k, c in enumerate(cn[i:] + cn[:i])]


def run_reorder(base, tier, rec):
    gname, atm = base
    g0 = base_grid(gname, atm)
    if gname == 'R212' and atm == 2:
        run_reorder_minc(rec)
    m0 = model_of(g0)
    n = 0
    for bn, cnn in reorder_cases(m0):
        g = copy.deepcopy(g0)
        viol, gate, g = eval_reorder(g, bn, cnn)
        trivial = (bn in (None, m0.blocks)) and (cnn is None or [tuple(c) for c in cnn] == m0.conns)
        if gate:
            rec.count('gated_by_C08_invariant')
        rec.case(('reorder', gname, atm, bn, cnn), nontrivial=not trivial, outcome='gated' if gate else ('violation' if viol else 'ok'))
        for sig, what in viol:
            rec.violation(sig, what, {'part': 'reorder', 'base': [gname, atm], 'block_names': bn, 'connection_names': cnn})
        n += 1
    # geometry orders: scramble first, then reorder(geo=) must restore the physics (and is compared like any reorder)
    for order in geo_orders(gname):
        geo = base_geo(gname, atm, order)
        for scramble in (False, True):
            g = copy.deepcopy(g0)
            if scramble:
                do_reorder(g, m0.blocks[::-1], [list(c[::-1]) for c in m0.conns][::-1])
                if gated(g):
                    continue
            viol, gate, g = eval_reorder(g, None, None, geo=geo, geoname=str(order))
            rec.case(('reorder-geo', gname, atm, order, scramble), outcome='gated' if gate else ('violation' if viol else 'ok'))
            for sig, what in viol:
                rec.violation(sig, what, {'part': 'reorder-geo', 'base': [gname, atm], 'order': order, 'scramble': scramble})
            n += 1
    rec.count('reorder_cases', n)
    rec.sample({'part': 'reorder', 'base': [gname, atm], 'blocks': len(m0.blocks), 'connections': len(m0.conns), 'cases': n})


def run_reorder_minc(rec):
    """Reorder on a grid that also holds MINC connections (no gravity cosine): identity, every single
    reversal, all reversed, reversed order."""
    g0 = minc_grid('plain')
    with quiet():
        g0.minc([0.2, 0.8])
    if gated(g0):
        return
    m0 = model_of(g0)
    cn = [list(c) for c in m0.conns]
    cases = [cn, [c[::-1] for c in cn], [c[::-1] for c in cn][::-1]] + \
            [[c[::-1] if k == i else c for k, c in enumerate(cn)] for i in range(len(cn))]
    for cnn in cases:
        g = copy.deepcopy(g0)
        viol, gate, g = eval_reorder(g, None, cnn)
        rec.case(('reorder-minc', cnn), nontrivial=cnn != cn, outcome='gated' if gate else ('violation' if viol else 'ok'))
        for sig, what in viol:
            rec.violation(sig.replace('|reorder|', '|reorder(after minc)|'), what, {'part': 'reorder-minc', 'connection_names': cnn})
    rec.count('reorder_cases', len(cases))


# ------------------------------------------------------------------------------------------------
# part: rename
# ------------------------------------------------------------------------------------------------
def rename_cases(model):
    uni = list(model.blocks[:4]) + ['  z 9']
    for mp in c08.rename_maps(model.blocks, uni, False):
        yield mp
    bl = list(model.blocks)
    yield [[b, 'Q%s' % b[1:]] for b in bl]                      # every block to a fresh name
    yield [[bl[i], bl[(i + 1) % len(bl)]] for i in range(len(bl))]   # one cycle through the whole grid
    yield [[bl[i], bl[-1 - i]] for i in range(len(bl)) if bl[i] != bl[-1 - i]]   # all swaps


FIXABLE = ['AB1 5', 'CD2 7']          # '(a3,i2)' names: digit in column 3, blank in column 4 - fix_blockname() gives 'AB105', 'CD207'
PRESTATES = ['geometry-names', 'unfixed-name-present', 'fixed-name-present']


def prestate_grid(g0, pre):
    """The base grid / with its second block already carrying the literal name 'EF3 4' (renamed with
    fix_blocknames=False) / carrying 'EF304' (renamed to 'EF3 4' with the default fixing)."""
    g = copy.deepcopy(g0)
    if pre != 'geometry-names':
        with quiet():
            g.rename_blocks({g.blocklist[1].name: 'EF3 4'}, fix_blocknames=(pre == 'fixed-name-present'))
    return g


def fixable_rename_cases(model):
    """Maps whose keys / values are changed by fix_blockname: every one-to-one map on 3 present names + the two
    fixable spares, maps keyed by the other spelling of a present name, whole-grid maps onto fixable names."""
    bl = list(model.blocks)
    for mp in c08.rename_maps(bl, bl[:3] + FIXABLE, False):
        if mp:
            yield mp
    alias = [n for n in ('EF3 4', 'EF304') if n not in bl]          # the other spelling of a name that may be present
    for a in alias:
        yield [[a, FIXABLE[0]]]
        yield [[a, bl[0]], [bl[0], a]]
        yield [[a, bl[2]], [bl[2], FIXABLE[1]]]
    yield [[b, 'G%s%d %d' % (b[1], 1 + i // 10, i % 10)] for i, b in enumerate(bl)]            # every block to a fixable name
    yield [[b, 'H%s%d %d' % (b[1], 1 + i // 10, i % 10)] for i, b in enumerate(bl) if i % 2]   # every second block


def post_ops(g, site, cls):
    """What reads the renamed back-references: full reversal, neighbour lookups, delete_block of each block whose
    name or whose neighbour's name could have changed (here: every block of a small grid, else the first 6)."""
    out = []
    for sg, what in eval_neighbours(g):
        out.append(('neighbours', None, sg, what))
    m = model_of(g)
    for name in m.blocks[:6]:
        viol, gate, _ = eval_delete(copy.deepcopy(g), name)
        for sg, what in viol:
            out.append(('delete_block', name, sg, what))
    return out


def rename_then_reverse(g, mp, via, fix=None):
    """g has just been renamed with mp; now reorder with every connection reversed.  An exception or a changed
    network is a violation of the composition."""
    m = model_of(g)
    after = ('t2data.rename_blocks' if via else 'rename_blocks') + fix_tag(fix)
    rev_ok = [i for i, c in enumerate(m.conns) if c[::-1] not in m.cinfo]
    cn = [list(c[::-1]) if i in rev_ok else list(c) for i, c in enumerate(m.conns)][::-1]
    viol, gate, g = eval_reorder(g, m.blocks[::-1], cn)
    return [(sg + '|after=' + after, what) for sg, what in viol]


def rename_one(rec, gname, atm, pre, g0, m0, mp, via, fix):
    """One rename on a private copy + the composed steps behind it.  Returns the number of cases."""
    n = 1
    g = copy.deepcopy(g0)
    viol, gate, g = eval_rename(g, mp, via, fix)
    if gate:
        rec.count('gated_by_C08_invariant')
    fx = (lambda x: x) if fix is False else fix_blockname
    rec.case(('rename', gname, atm, pre, mp, via, fix), nontrivial=any(fx(a) != fx(b) and fx(a) in m0.blocks for a, b in mp),
             outcome='gated' if gate else ('violation' if viol else 'ok'))
    ctx = {'part': 'rename', 'base': [gname, atm], 'prestate': pre, 'map': mp, 'via_t2data': via, 'fix': fix}
    for sig, what in viol:
        rec.violation(sig, what, ctx)
    if viol:
        return n
    after = ('t2data.rename_blocks' if via else 'rename_blocks') + fix_tag(fix)
    # composed steps: neighbour lookups and delete_block on copies, then every connection listed the other way round
    for kind, name, sig, what in post_ops(g, after, None):
        rec.violation(sig + '|after=' + after, what, dict(ctx, part='rename+' + kind, block=name))
    rec.case(('rename+lookups+delete', gname, atm, pre, mp, via, fix), outcome='ok')
    v2 = rename_then_reverse(g, mp, via, fix)
    rec.case(('rename+reverse', gname, atm, pre, mp, via, fix), outcome='violation' if v2 else 'ok')
    for sig, what in v2:
        rec.violation(sig, what, dict(ctx, part='rename+reverse'))
    return n + 2


def run_rename(base, tier, rec):
    gname, atm = base
    g0 = base_grid(gname, atm)
    m0 = model_of(g0)
    n = 0
    for mp in rename_cases(m0):
        for via in (False, True):
            n += rename_one(rec, gname, atm, PRESTATES[0], g0, m0, mp, via, None)
    # names that fix_blockname() changes, as keys and as values, fixing on (default / explicit) and off, both routes,
    # from grids that hold geometry names only / an unfixed (a3,i2) name / its fixed form
    nf = 0
    for pre in PRESTATES:
        gp = prestate_grid(g0, pre)
        mp0 = model_of(gp)
        for mp in fixable_rename_cases(mp0):
            for fix in (None, True, False):
                if not legal_rename(mp0, mp, fix):
                    continue
                for via in (False, True):
                    nf += rename_one(rec, gname, atm, pre, gp, mp0, mp, via, fix)
    rec.count('rename_cases', n + nf)
    rec.count('rename_fixable_name_cases', nf)
    rec.sample({'part': 'rename', 'base': [gname, atm], 'cases': n + nf, 'fixable_name_cases': nf})


# ------------------------------------------------------------------------------------------------
# part: seq (E1)
# ------------------------------------------------------------------------------------------------
class SeqState(object):
    """gate: None, or 'site(clause)' of the first step that left the physics right but C08's invariant broken.
    Such a state IS expanded (a later reorder / rename / file write on it belongs to the composition), and the
    violations found behind it carry '|after=<gate>' so that they stay apart from first-hand ones."""
    def __init__(self, base, grid, gate=None):
        self.base, self.grid, self.gate = base, grid, gate

    dead = property(lambda self: False)

    def __deepcopy__(self, memo):
        return SeqState(self.base, copy.deepcopy(self.grid, memo), self.gate)


def seq_ops(state, depth):
    m = model_of(state.grid)
    bl, cn = list(m.blocks), [list(c) for c in m.conns]
    rev_ok = [i for i, c in enumerate(m.conns) if c[::-1] not in m.cinfo]
    ops = [['reorder', bl[::-1], None],
           ['reorder', None, [c[::-1] if i in rev_ok else c for i, c in enumerate(cn)]],
           ['reorder', None, [c[::-1] if i == rev_ok[0] else c for i, c in enumerate(cn)] if rev_ok else cn],
           ['reorder', bl[1:] + bl[:1], [c[::-1] if i in rev_ok[::2] else c for i, c in enumerate(cn)][::-1]]]
    gname, atm = state.base
    geo = base_geo(gname, atm)
    if sorted(geo.block_name_list) == sorted(bl) and \
            sorted(tuple(sorted(c)) for c in geo.block_connection_name_list) == sorted(tuple(sorted(c)) for c in cn):
        for order in geo_orders(gname):
            ops.append(['reorder_geo', order])
    spare = [n for n in ('  z %d' % i for i in range(9, 0, -1)) if n not in bl]
    ops.append(['rename', [[bl[0], spare[0]]]])
    ops.append(['rename', [[b, ('Q' if b[0] != 'Q' else 'R') + b[1:]] for b in bl]])
    ops.append(['rename', [[bl[0], bl[1]], [bl[1], bl[0]]]])
    ops.append(['rename', [[bl[i], (bl + spare)[i + 1]] for i in range(len(bl))]])
    ops.append(['t2data_rename', [[bl[-1], spare[0]]]])
    # names of the (a3,i2) form that fix_blockname() changes: as a value with the fixing on (default) and off, through
    # t2data, and - once such a block exists - as a key (the ops above then name it)
    fx = [n for n in ('AB1 5', 'CD2 7', 'EF3 4') if n not in bl and fix_blockname(n) not in bl]
    if fx:
        ops.append(['rename', [[bl[0], fx[0]]]])
        ops.append(['rename_nofix', [[bl[-1], fx[0]]]])
        ops.append(['t2data_rename', [[bl[len(bl) // 2], fx[0]]]])
        ops.append(['rename', [[b, fx[0][:4] + str(i % 10)] for i, b in enumerate(bl[:3])]])
    unf = [b for b in bl if fix_blockname(b) != b]
    if unf:
        ops.append(['rename', [[fix_blockname(unf[0]), spare[1]]]])          # the fixed spelling of a block held unfixed
        ops.append(['rename_nofix', [[unf[0], fix_blockname(unf[0])]]])     # fixing it by hand
    if len(bl) > 3:
        ops.append(['delete_block', bl[len(bl) // 2]])
    ops = [op for op in ops if op[0] not in ('rename', 'rename_nofix', 't2data_rename')
           or legal_rename(m, op[1], False if op[0] == 'rename_nofix' else None)]
    if len(cn) > 1:
        ops.append(['reorder', None, [cn[1], cn[0]] + cn[2:-1] + ([cn[-1][::-1]] if len(cn) - 1 in rev_ok and len(cn) > 2 else cn[-1:] if len(cn) > 2 else [])])
    ops.append(['write+read'])
    ops.append(['write+read', 'mesh'])
    ops.append(['write+read', 'binary'])
    return ops


def seq_step(state, op):
    k = op[0]
    if k == 'reorder':
        viol, gate, g = eval_reorder(state.grid, op[1], op[2])
    elif k == 'reorder_geo':
        gname, atm = state.base
        viol, gate, g = eval_reorder(state.grid, None, None, geo=base_geo(gname, atm, op[1]), geoname=str(op[1]))
    elif k == 'rename':
        viol, gate, g = eval_rename(state.grid, op[1])
    elif k == 't2data_rename':
        viol, gate, g = eval_rename(state.grid, op[1], True)
    elif k == 'rename_nofix':
        viol, gate, g = eval_rename(state.grid, op[1], False, False)
    elif k == 'delete_block':
        viol, gate, g = eval_delete(state.grid, op[1])
    elif k == 'write+read':
        viol, gate, g = eval_fileroundtrip(state.grid, op[1] if len(op) > 1 else 'inline')
    else:
        raise core.HarnessError('unknown op %r' % (op,))
    state.grid = g
    if state.gate:
        viol = [(sg + '|after=' + state.gate, what) for sg, what in viol]
    elif gate:
        state.gate = '%s(%s)' % ({'rename': 'rename_blocks', 't2data_rename': 't2data.rename_blocks', 'rename_nofix': 'rename_blocks(fix_blocknames=False)'}.get(k, k), gate)
        state.newly_gated = True
    return viol


def seq_canon(state):
    g = state.grid
    try:
        private = (sorted(g.block), sorted(g.connection), [sorted(b.connection_name) for b in g.blocklist])
    except Exception as e:
        private = repr(e)
    return (c08.abstract(g), private, state.gate)


def run_seq(base, tier, rec):
    gname, atm = base
    st = SeqState(base, base_grid(gname, atm))
    depth = 3 if tier == 'quick' else 4

    def step(s, op):
        v = seq_step(s, op)
        newly = getattr(s, 'newly_gated', False)
        s.newly_gated = False
        rec.case(('seq', gname, atm, seq_canon(s), op), outcome='violation' if v else ('gated' if newly else 'ok'))
        if newly:
            rec.count('gated_by_C08_invariant')
        return v
    t0, s0 = rec.transitions, len(rec.states)
    engine_seq.bfs(rec, ID, 'seq:%s:%d' % (gname, atm), st, seq_ops, step, seq_canon, depth)
    rec.count('seq_transitions', rec.transitions - t0)
    rec.sample({'part': 'seq', 'base': [gname, atm], 'depth': depth, 'transitions': rec.transitions - t0})


# ------------------------------------------------------------------------------------------------
# part: minc
# ------------------------------------------------------------------------------------------------
def compositions(total, parts):
    if parts == 1:
        yield [total]
        return
    for first in range(1, total - parts + 2):
        for rest in compositions(total - first, parts - 1):
            yield [first] + rest


def fraction_vectors(tier):
    out = []
    for k in range(2, 6 if tier == 'quick' else 7):
        out += [[x / 10. for x in c] for c in compositions(10, k)]
    return out


SPACINGS = [10., 50., [50., 30., 20.]]


def minc_grid(variant):
    """4-block grid (2x1x2, no atmosphere) / the same with a single atmosphere block / with an inactive block."""
    g = base_grid('R212', 0 if variant == 'atm' else 2)
    if variant == 'inactive':
        g.blocklist[-1].volume = 0.0
    return g


def eval_minc(g0, fr, planes, spacing, sel, fcd=None, flavour='names'):
    """One minc() call on a private copy.  Returns violations."""
    g = copy.deepcopy(g0)
    m0 = model_of(g0)
    cls = '%d-planes-%s' % (planes, 'all' if sel is None else '%d-selected' % len(sel))
    if 0. < abs(float(sum(fr)) - 1.) < 1.e-4:
        cls += '-fractions-sum-nearly-1'
    # the selection may be given as names, as the grid's own block objects, or as the like-named block objects
    # of another grid object (a copy of the grid, the model re-read from its file): minc resolves blocks by name
    twin = None
    blocks_arg = None if sel is None else list(sel)
    if sel is not None and flavour == 'own-objects':
        blocks_arg = [g.block[n] for n in sel]
    elif sel is not None and flavour == 'twin-objects':
        twin = copy.deepcopy(g0)
        blocks_arg = [twin.block[n] for n in sel]
    if flavour != 'names':
        cls += '-selection-as-' + flavour
    kw = {}
    if fcd is not None:
        kw['fracture_connection_distance'] = fcd
    try:
        with quiet(), core.timelimit(10):
            g.minc(list(fr), spacing=spacing, num_fracture_planes=planes, blocks=blocks_arg, **kw)
    except core.CaseTimeout:
        return [('C09|minc|timeout|%s' % cls, 'minc(%r, spacing=%r, planes=%d, blocks=%r) did not return within 10 s'
                 % (fr, spacing, planes, sel))]
    except Exception as e:
        return [('C09|minc|raises:%s|%s' % (type(e).__name__, cls), 'minc(%r, spacing=%r, planes=%d, blocks=%r) raised %r'
                 % (fr, spacing, planes, sel, e))]
    if twin is not None and c08.abstract(twin) != c08.abstract(g0):
        return [('C09|minc|other-grid-changed|%s' % cls, 'minc on one grid changed the other grid whose block objects named the selection '
                 '[minc(%r, blocks=%r as objects of a copy)]' % (fr, sel))]
    bad = readable(g)
    if bad:
        return [('C09|minc|network-unreadable|%s' % cls, '%s [minc(%r, spacing=%r, planes=%d, blocks=%r)]' % (bad, fr, spacing, planes, sel))]
    m1 = model_of(g)

    def v(clause, what):
        return [('C09|minc|%s|%s' % (clause, cls), '%s [minc(%r, spacing=%r, planes=%d, blocks=%r)]' % (what, fr, spacing, planes, sel))]
    total = float(sum(fr))
    f = [x / total for x in fr]
    chosen = [b for b in (m0.blocks if sel is None else sel) if 0. < m0.binfo[b]['volume'] < 1.e25]
    expect_new, chain = [], []
    for b in chosen:
        V = m0.binfo[b]['volume']
        names = [b] + [str(lv) + b[len(str(lv)):] for lv in range(1, len(f))]
        for lv, n in enumerate(names):
            if n not in m1.binfo:
                return v('continuum-missing', 'block %r has no level-%d continuum %r' % (b, lv, n))
            if abs(m1.binfo[n]['volume'] - f[lv] * V) > 1e-12 * V:
                return v('volume-fraction', 'level %d of block %r has volume %r, requested fraction %r of %r = %r'
                         % (lv, b, m1.binfo[n]['volume'], f[lv], V, f[lv] * V))
        if abs(sum(m1.binfo[n]['volume'] for n in names) - V) > 1e-12 * V:
            return v('volume-sum', 'continua of block %r sum to %r, original volume %r' % (b, sum(m1.binfo[n]['volume'] for n in names), V))
        expect_new += names[1:]
        chain += [tuple(sorted(p)) for p in zip(names[:-1], names[1:])]
        first = m1.cinfo.get((names[0], names[1])) or m1.cinfo.get((names[1], names[0]))
        if first is not None:
            own = dict(zip((names[0], names[1]) if (names[0], names[1]) in m1.cinfo else (names[1], names[0]), first['d']))
            if own[names[0]] != (0.0 if fcd is None else fcd):
                return v('fracture-connection-distance', 'fracture block %r is at distance %r from its matrix interface, '
                         'documented fracture_connection_distance is %r' % (b, own[names[0]], 0.0 if fcd is None else fcd))
    if sorted(m1.blocks) != sorted(m0.blocks + expect_new):
        return v('block-set', 'blocks after minc %r, expected the original plus %r' % (m1.blocks, expect_new))
    newcons = sorted(tuple(sorted(c)) for c in m1.conns if tuple(c) not in m0.cinfo)
    if newcons != sorted(chain):
        return v('continua-chain', 'new connections %r, expected the chain %r' % (newcons, sorted(chain)))
    # pre-existing connections untouched
    old = GridModel()
    old.blocks, old.binfo = m1.blocks, m1.binfo
    old.conns = [c for c in m1.conns if c in m0.cinfo]
    old.cinfo = dict((c, m1.cinfo[c]) for c in old.conns)
    if len(old.conns) != len(m0.conns):
        return v('existing-connection-lost', 'connections %r are gone' % ([c for c in m0.conns if c not in m1.cinfo],))
    d = compare_physics(([], old.physics()[1]), ([], m0.physics()[1]))
    if d:
        return v('existing-connection-changed:' + d[0], d[1])
    for b in m0.blocks:
        if b not in chosen:
            if (m1.binfo[b]['volume'], m1.binfo[b]['rock'], m1.binfo[b]['centre']) != \
                    (m0.binfo[b]['volume'], m0.binfo[b]['rock'], m0.binfo[b]['centre']):
                return v('unselected-block-changed', 'block %r (not selected, boundary or inactive) changed from %r to %r'
                         % (b, m0.binfo[b], m1.binfo[b]))
    return []


def minc_selections(model, tier):
    bl = list(model.blocks)
    if tier == 'quick':
        return [None, [bl[1]], [bl[0], bl[3]]]
    return [None] + [[b] for b in bl] + [list(p) for p in itertools.combinations(bl, 2)]


def run_minc(chunk, tier, rec):
    ci, nch = chunk
    vecs = [fv for i, fv in enumerate(fraction_vectors(tier)) if i % nch == ci]
    g0 = minc_grid('plain')
    m0 = model_of(g0)
    sels = minc_selections(m0, tier)
    n = 0
    for fr in vecs:
        for planes in (1, 2, 3):
            for sp in SPACINGS:
                for sel in sels:
                    viol = eval_minc(g0, fr, planes, sp, sel)
                    rec.case(('minc', fr, planes, sp, sel), outcome='violation' if viol else 'ok')
                    for sig, what in viol:
                        rec.violation(sig, what, {'part': 'minc', 'variant': 'plain', 'fractions': fr, 'planes': planes,
                                                  'spacing': sp, 'blocks': sel})
                    n += 1
        for sel in [x for x in sels if x is not None]:
            for flavour in ('own-objects', 'twin-objects'):
                viol = eval_minc(g0, fr, 2, 50., sel, None, flavour)
                rec.case(('minc', fr, sel, flavour), outcome='violation' if viol else 'ok')
                for sig, what in viol:
                    rec.violation(sig, what, {'part': 'minc', 'variant': 'plain', 'fractions': fr, 'planes': 2, 'spacing': 50.,
                                              'blocks': sel, 'flavour': flavour})
                n += 1
        # boundary / inactive variants, unnormalised fractions, a finite fracture connection distance
        for variant in ('atm', 'inactive'):
            gv = minc_grid(variant)
            for sel in (None, [b.name for b in gv.blocklist[:2]] + [gv.blocklist[-1].name]):
                viol = eval_minc(gv, fr, 2, 50., sel)
                rec.case(('minc', variant, fr, sel), outcome='violation' if viol else 'ok')
                for sig, what in viol:
                    rec.violation(sig, what, {'part': 'minc', 'variant': variant, 'fractions': fr, 'planes': 2,
                                              'spacing': 50., 'blocks': sel})
                n += 1
        for scale, fcd in ((100., None), (1., 1.e-10), (0.5, 0.25), (0.99999, None), (1.000004, None), (1. - 2.e-7, None)):
            viol = eval_minc(g0, [x * scale for x in fr], 3, [50., 30., 20.], None, fcd)
            rec.case(('minc', 'scaled', fr, scale, fcd), outcome='violation' if viol else 'ok')
            for sig, what in viol:
                rec.violation(sig, what, {'part': 'minc', 'variant': 'plain', 'fractions': [x * scale for x in fr], 'planes': 3,
                                          'spacing': [50., 30., 20.], 'blocks': None, 'fcd': fcd})
            n += 1
    if ci == 0:
        # fractions that sum to 1 only nearly: equal parts rounded to 5 and 6 decimals, as read from a VOL field
        for k in range(2, 8):
            for nd in (4, 5, 6):
                fr = [round(1. / k, nd)] * k
                for planes in (1, 3):
                    viol = eval_minc(g0, fr, planes, 50., None)
                    rec.case(('minc', 'rounded-equal-parts', k, nd, planes), outcome='violation' if viol else 'ok')
                    for sig, what in viol:
                        rec.violation(sig, what, {'part': 'minc', 'variant': 'plain', 'fractions': fr, 'planes': planes,
                                                  'spacing': 50., 'blocks': None})
                    n += 1
    rec.count('minc_cases', n)
    if vecs:
        rec.sample({'part': 'minc', 'chunk': ci, 'vectors': len(vecs), 'first': vecs[0], 'cases': n})


# ------------------------------------------------------------------------------------------------
# part: embed
# ------------------------------------------------------------------------------------------------
def subgrid(scale, names=('  p 1', '  q 1'), vols=(40., 24.)):
    import t2grids
    g = t2grids.t2grid()
    g.add_rocktype(t2grids.rocktype(name='subrk'))
    for n, vol in zip(names, (vols[0] * scale, vols[1] * scale)):
        g.add_block(t2grids.t2block(n, vol, g.rocktype['subrk']))
    g.add_connection(t2grids.t2connection([g.block[names[0]], g.block[names[1]]], 1, [1., 2.], 3., 0.))
    return g


def geo_subgrid(atm, atmvol):
    """Sub-grid built by fromgeo from a small 2x1x2 geometry of the given atmosphere type (its atmosphere blocks
    are flagged atmosphere=True); atmvol None = the default atmosphere volume.  Blocks renamed 'S...' ."""
    import mulgrids
    import t2grids
    with quiet():
        geo = mulgrids.mulgrid().rectangular([1., 1.5], [1.], [0.5, 0.5], atmos_type=atm)
        if atmvol is not None:
            geo.atmosphere_volume = atmvol
        g = t2grids.t2grid().fromgeo(geo)
        g.rename_rocktype('dfalt', 'subrk')
        g.rename_blocks(dict((b.name, 'S' + b.name[1:]) for b in g.blocklist))
    return g


def eval_embed(g0, hostname, scale, geosub=None):
    import t2grids
    g = copy.deepcopy(g0)
    sub = subgrid(scale) if geosub is None else geo_subgrid(*geosub)
    m0, ms = model_of(g), model_of(sub)
    subvol = sum(ms.binfo[b]['volume'] for b in ms.blocks)
    fits = subvol < m0.binfo[hostname]['volume']
    cls = 'fits' if fits else 'host-too-small'
    if geosub is not None:
        cls += ':fromgeo-subgrid-atm%d-%s' % (geosub[0], 'default-volume' if geosub[1] is None else 'small-volume')
    con = t2grids.t2connection([g.block[hostname], sub.blocklist[-1]], 2, [0.5, 0.25], 7., 0.)
    try:
        with quiet(), core.timelimit(60):
            res = g.embed(sub, con)
    except core.CaseTimeout:
        return [('C09|embed|timeout|%s' % cls, 'embed into %r did not return within 60 s' % hostname)]
    except Exception as e:
        return [('C09|embed|raises:%s|%s' % (type(e).__name__, cls), 'embed into %r raised %r' % (hostname, e))]

    def v(clause, what):
        return [('C09|embed|%s|%s' % (clause, cls), '%s [embed of a %g-volume sub-grid into %r of volume %r]'
                 % (what, subvol, hostname, m0.binfo[hostname]['volume']))]
    if not fits:
        return [] if res is None else v('not-refused', 'embed returned a grid although the host block is not big enough')
    if res is None:
        return v('refused', 'embed returned None although the host block is big enough')
    if gated(res):
        return []
    m1 = model_of(res)
    finite0 = sum(m0.binfo[b]['volume'] for b in m0.blocks if m0.binfo[b]['volume'] < 1e20)
    finite1 = sum(m1.binfo[b]['volume'] for b in m1.blocks if m1.binfo[b]['volume'] < 1e20)
    want = finite0 + (subvol if m0.binfo[hostname]['volume'] >= 1e20 else 0.)     # a boundary host absorbs it
    if abs(finite1 - want) > 1e-12 * want:
        return v('total-volume', 'total volume (blocks below 1e20) %r after embedding, expected %r' % (finite1, want))
    for b in m0.blocks + ms.blocks:
        if b not in m1.binfo:
            return v('block-lost', 'block %r is not in the result' % b)
        want = ms.binfo[b]['volume'] if b in ms.binfo else m0.binfo[b]['volume'] - (subvol if b == hostname else 0.)
        if abs(m1.binfo[b]['volume'] - want) > 1e-12 * max(abs(want), 1.) and not (want >= 1e24):
            return v('host-gives-up-the-volume', 'block %r has volume %r after embedding, expected %r' % (b, m1.binfo[b]['volume'], want))
    return []


def eval_embed_twice(g0, hostname, scale, variant):
    """Two embeds.  'own-block' / 'original-block-object': a second sub-grid into the same host block of the
    first result, the second connection naming the host through the result's own block / through the original
    grid's block object (embed resolves by name).  'connection-reused': the same connection object passed to a
    second, independent embed of an identical sub-grid into the original grid.  Total volume is conserved and
    the host gives up exactly what was embedded into it.  Only cases where everything fits with room to spare."""
    import t2grids
    g = copy.deepcopy(g0)
    m0 = model_of(g)
    V = m0.binfo[hostname]['volume']
    sub1 = subgrid(scale)
    sub2 = subgrid(scale, ('  r 1', '  s 1'), (10., 6.)) if variant != 'connection-reused' else subgrid(scale)
    s1 = sum(b.volume for b in sub1.blocklist)
    s2 = sum(b.volume for b in sub2.blocklist)
    if not (s1 + s2 < 0.9 * V):
        return None
    cls = 'second-embed:' + variant

    def v(clause, what):
        return [('C09|embed|%s|%s' % (clause, cls), '%s [host %r of volume %r, sub-grid volumes %r and %r]' % (what, hostname, V, s1, s2))]
    try:
        with quiet(), core.timelimit(60):
            con1 = t2grids.t2connection([g.block[hostname], sub1.block['  p 1']], 2, [0.5, 0.25], 7., 0.)
            r1 = g.embed(sub1, con1)
            if r1 is None:
                return v('refused', 'the first embed returned None')
            if variant == 'own-block':
                con2 = t2grids.t2connection([r1.block[hostname], sub2.block['  r 1']], 2, [0.5, 0.25], 7., 0.)
                r2, base, given = r1.embed(sub2, con2), r1, s1 + s2
            elif variant == 'original-block-object':
                con2 = t2grids.t2connection([g.block[hostname], sub2.block['  r 1']], 2, [0.5, 0.25], 7., 0.)
                r2, base, given = r1.embed(sub2, con2), r1, s1 + s2
            else:
                r2, base, given = g.embed(sub2, con1), g, s2
    except core.CaseTimeout:
        return v('timeout', 'embed did not return within 60 s')
    except Exception as e:
        return v('raises:' + type(e).__name__, 'embed raised %r' % (e,))
    if r2 is None:
        return v('refused', 'the second embed returned None although the host block is big enough')
    bad = readable(r2)
    if bad:
        return v('network-unreadable', bad)
    m2 = model_of(r2)
    boundary = V >= 1e20
    fin = lambda m: sum(i['volume'] for i in m.binfo.values() if i['volume'] < 1e20)
    want_total = fin(m0) + ((s1 + s2 if variant != 'connection-reused' else s2) if boundary else 0.)
    if abs(fin(m2) - want_total) > 1e-12 * want_total:
        return v('total-volume', 'total volume (blocks below 1e20) %r after the second embed, expected %r' % (fin(m2), want_total))
    want_host = V - given if variant == 'connection-reused' else (V - s1) - s2
    if abs(m2.binfo[hostname]['volume'] - want_host) > 1e-12 * max(abs(want_host), 1.) and not boundary:
        return v('host-gives-up-the-volume', 'host block has volume %r after the second embed, expected %r' % (m2.binfo[hostname]['volume'], want_host))
    for b in m0.blocks:
        if b != hostname and m2.binfo[b]['volume'] != m0.binfo[b]['volume']:
            return v('other-block-volume', 'block %r changed volume from %r to %r' % (b, m0.binfo[b]['volume'], m2.binfo[b]['volume']))
    return []


def run_embed(base, tier, rec):
    gname, atm = base
    g0 = base_grid(gname, atm)
    n = 0
    for blk in g0.blocklist:
        for scale in (1., 100., 1.e-3):
            viol = eval_embed(g0, blk.name, scale)
            rec.case(('embed', gname, atm, blk.name, scale), outcome='violation' if viol else 'ok')
            for sig, what in viol:
                rec.violation(sig, what, {'part': 'embed', 'base': [gname, atm], 'host': blk.name, 'scale': scale})
            n += 1
        for atm_sub in (0, 1, 2):
            for atmvol in (2.0, None):
                viol = eval_embed(g0, blk.name, 1., (atm_sub, atmvol))
                rec.case(('embed-geosub', gname, atm, blk.name, atm_sub, atmvol), outcome='violation' if viol else 'ok')
                for sig, what in viol:
                    rec.violation(sig, what, {'part': 'embed', 'base': [gname, atm], 'host': blk.name, 'scale': 1.,
                                              'geosub': [atm_sub, atmvol]})
                n += 1
        for scale in (1., 1.e-3):
            for variant in ('own-block', 'original-block-object', 'connection-reused'):
                viol = eval_embed_twice(g0, blk.name, scale, variant)
                if viol is None:
                    continue
                rec.case(('embed2', gname, atm, blk.name, scale, variant), outcome='violation' if viol else 'ok')
                for sig, what in viol:
                    rec.violation(sig, what, {'part': 'embed2', 'base': [gname, atm], 'host': blk.name, 'scale': scale,
                                              'variant': variant})
                n += 1
    rec.count('embed_cases', n)


# ------------------------------------------------------------------------------------------------
# framework interface
# ------------------------------------------------------------------------------------------------
def units(tier):
    us = []
    for b in bases():
        us.append(('reorder', b))
        us.append(('rename', b))
        us.append(('seq', b))
        us.append(('embed', b))
    nch = 16 if tier == 'quick' else 48
    for i in range(nch):
        us.append(('minc', (i, nch)))
    return us


def run_unit(unit, tier, rec):
    part, arg = unit
    {'reorder': run_reorder, 'rename': run_rename, 'seq': run_seq, 'embed': run_embed, 'minc': run_minc}[part](tuple(arg), tier, rec)


def finalize(rec, tier):
    return {'parts': {k: rec.counters.get(k, 0) for k in ('reorder_cases', 'rename_cases', 'rename_fixable_name_cases', 'seq_transitions', 'minc_cases', 'embed_cases')},
            'gated_by_C08_invariant': rec.counters.get('gated_by_C08_invariant', 0),
            'base_grids': ['%s/atm%d' % b for b in bases()],
            'dimensions': {'reorder (<=4 blocks and <=4 connections)': 'crossed', 'reorder (larger)': 'bounded k<=2',
                           'rename 4-name sub-universe': 'crossed', 'minc fractions x planes x spacing x selection': 'crossed',
                           'compositions': 'bounded depth'}}


def replay(case):
    part = case.get('part')
    if part is None and 'ops' in case:                  # recorded by the E1 engine
        gname, atm = case['seed'].split(':')[1:]
        st = SeqState((gname, int(atm)), base_grid(gname, int(atm)))
        out = []
        for op in case['ops']:
            out = seq_step(st, op)
        return out
    if part == 'reorder':
        gname, atm = case['base']
        return eval_reorder(base_grid(gname, atm), case['block_names'], case['connection_names'])[0]
    if part == 'reorder-minc':
        g = minc_grid('plain')
        with quiet():
            g.minc([0.2, 0.8])
        return [(sg.replace('|reorder|', '|reorder(after minc)|'), w) for sg, w in eval_reorder(g, None, case['connection_names'])[0]]
    if part == 'reorder-geo':
        gname, atm = case['base']
        g = base_grid(gname, atm)
        m0 = model_of(g)
        if case['scramble']:
            do_reorder(g, m0.blocks[::-1], [list(c[::-1]) for c in m0.conns][::-1])
        return eval_reorder(g, None, None, geo=base_geo(gname, atm, case['order']), geoname=str(case['order']))[0]
    if part and part.startswith('rename'):
        gname, atm = case['base']
        fix, via = case.get('fix'), case['via_t2data']
        g = prestate_grid(base_grid(gname, atm), case.get('prestate', PRESTATES[0]))
        viol, gate, g = eval_rename(g, case['map'], via, fix)
        if viol or part == 'rename':
            return viol
        after = ('t2data.rename_blocks' if via else 'rename_blocks') + fix_tag(fix)
        if part == 'rename+reverse':
            return rename_then_reverse(g, case['map'], via, fix)
        if part == 'rename+neighbours':
            return [(sg + '|after=' + after, w) for sg, w in eval_neighbours(g)]
        if part == 'rename+delete_block':
            return [(sg + '|after=' + after, w) for sg, w in eval_delete(g, case['block'])[0]]
    if part == 'minc':
        return eval_minc(minc_grid(case['variant']), case['fractions'], case['planes'], case['spacing'], case['blocks'], case.get('fcd'), case.get('flavour', 'names'))
    if part == 'embed2':
        gname, atm = case['base']
        return eval_embed_twice(base_grid(gname, atm), case['host'], case['scale'], case['variant']) or []
    if part == 'embed':
        gname, atm = case['base']
        return eval_embed(base_grid(gname, atm), case['host'], case['scale'], tuple(case['geosub']) if case.get('geosub') else None)
    raise core.HarnessError('cannot replay %r' % (case,))
