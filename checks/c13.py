"""C13 - initial-conditions file write/read round trip.

Engine E2.  A case is a JSON-able spec (number of blocks, variables per block, value form, porosity / permeability /
sequence-number / timing options, reset flag, block-name family, reader mode) from which a t2incon object is built
through the library's own API.  Each case is taken through

    inc --write(reset)--> bytes1 --ref/fixedcol.read_incon--> values       (write checked by the reference reader,
                                                                  which reads like the simulator: 4 values per record)
    bytes1 --t2incon()--> inc2 == inc ; inc2.write() == bytes1
    model --ref/fixedcol.write_incon(style)--> bytes3 --t2incon()--> inc3 == model   (read checked on Fortran-style
                                                                  bytes: E20.14, E20.13, 1PE20.13, dropped exponent letter)

plus the seven shipped simulator-written files.
"""
import contextlib
import io
import itertools
import json
import os

from mc import core
from ref import fixedcol as fc
from ref import isolate

ID = 'C13'
LEVEL = 'exploration'
ENGINE = 'E2'
EXHAUSTIVE = True
RULE = ('every spec of: [cross] blocks 1..3 x variables per block 1..12 x value form {positive, negative, 3-digit '
        'exponent, zero, mixed incl. a rounding carry} x porosity {absent, value, 0.0} x {TOUGH2 without / TOUGHREACT '
        'with permeability triples; on the mixed form also triples with an exact 0.0 in each position and in all three} x nseq,nadd {absent, (1,2), (99999,12345)} x timing {absent, present} x reset '
        '{True, False} x 6 block-name families (convention 0 alphabetic, convention 0 with numeric columns, convention '
        '1, convention 2, convention 3 with check_blocknames=False, A3/I2 quirk names) x reader num_variables {None '
        '(when <= 4), exact}; [empty] no blocks x timing x reset; [many] 40 blocks, reduced cross; [dev] one block of '
        '2..3 differing from the others in porosity / permeability / sequence numbers (every position); [styles] the '
        'full 12-style cross of the reference writer on a reduced cross; [reuse] reader object that has already read a '
        'TOUGHREACT / TOUGH2 file re-used through read() (blocks 1..2 x nvar {2,5} x 3 permeability settings x 4 '
        'timing/reset); [negexp3] a negative three-digit-exponent value at each position of records of 1..8 (and 9, 12) '
        'variables; [nocheck] check_blocknames=False given three ways x 6 name families; [trnoperm] TOUGHREACT flavour without permeabilities; [order] order-independence passes; '
        '[shipped] the 7 shipped files, and 4 ordered pairs of them read into one object; [history] ONE t2incon object '
        'taken through every sequence of length 0..d of its editing operations {add_incon / inc[name] = block / '
        'inc[name] = list of a pool name (append when absent, replace when present), insert_incon of an absent pool '
        'name at every position 0..len, delete_incon of every pool name (no-op when absent), empty(), read() of a '
        '3-block file, observe (look-ups + write)} from each start state {fresh, 3 blocks appended, 3 blocks read '
        'from a file} x configurations (flavour x variables per block x timing/reset x name family x form of the '
        'assignment), a reference ordered list edited alongside; judged at the end of every sequence: object '
        '(positions, by-name access) = list, written file = list by the reference reader, read back = list, '
        'rewritten byte for byte. Each spec: '
        'library write -> reference reader; library write -> library read -> compare -> rewrite byte-identical; '
        'reference writer (Fortran styles) -> library read.  Non-trivial = at least one block; distinct = distinct spec.')
ASSUMPTIONS = [
    'reference layout ref/layout/incon.json: INCON block of the TOUGH2 user guide (A3,I2,2I5,E15.9 / 4E20.13) with the '
    'SAVE header, restart record and TOUGHREACT variants frozen from the simulator-written shipped files; reference '
    'number grammar ref/fortnum.py',
    'reader contract: num_variables is None (<= 4 variables) or exactly the number of variables of every block; '
    'num_variables larger than a block has is outside the contract (known to spin at end of file) and mixed variable '
    'counts with num_variables set are not enumerated',
    'a negative value with a three-digit exponent needs 21 columns at 13 decimals: the writer reduces the precision '
    'of that one value by design, so it is compared to 13 significant digits; every other value fits its field at '
    'the format precision and is compared to 14; the record must stay within 80 columns',
    'block names are in the form the library keeps in memory (what the simulator prints as A3,I2 mapped through the '
    'blank-to-zero rule): names like "abc05", which the simulator itself prints as "abc 5", are not enumerated',
    'the TOUGHREACT flavour is observable in a file only through permeabilities: TOUGHREACT cases have at least one '
    'block with a permeability triple, TOUGH2 cases have none; nseq = 0 is documented to read back as absent',
    'operation histories: insert_incon is only given names that are not in the set (add_incon documents that a name '
    'that is there is replaced; two blocks of one name are not a set of initial conditions); indices 0..len; every '
    'block of a history has the same number of variables',
    'tolerances are the digits of the statement / layout: variables 14 significant digits (13 decimals), porosity, '
    'permeability and timing reals 9 significant digits; for reference-written files the digits of the style']
BOUNDS = {
    'quick': {'cross': 'blocks {1,3} x nvar {1,3,4,5,8,9,12} x forms {mixed, negative, exp3, lastzero} x 3 porosity x 2 '
                       'flavours x 3 seq x 4 timing/reset x 6 name families x reader modes',
              'many': '40 blocks x nvar {4,5}', 'styles': '2 per case (+12-style cross on 48 cases)',
              'shipped': '5 small files',
              'history': '6 configurations x 3 start states x every operation sequence of length <= 3 over a pool '
                         'of 3 base + 1 further names'},
    'thorough': {'cross': 'blocks 1..3 x nvar 1..12 x 5 forms x 3 porosity x 2 flavours x 3 seq x 4 timing/reset x 6 name '
                          'families x reader modes',
                 'many': '40 blocks x nvar {1,4,5,12}', 'styles': '3 per case (+12-style cross on 288 cases)',
                 'shipped': 'all 7 files (incl. the 2.5 MB one)',
                 'history': '3 start states x every operation sequence over a pool of 3 base + 2 further names: '
                            'length <= 4 in 2 configurations, length <= 3 in 4 more'}}
TECHNIQUE = ('bounded exhaustive enumeration of initial-condition configurations on the real t2incon.write / read, '
             'cross-checked in both directions by a reference fixed-column reader/writer that reads and prints like the '
             'simulator')
LEVEL_TEXT = ('Every configuration of the stated cross product is written by the library and read by the reference '
              'reader, read back and rewritten by the library, and rendered by the reference writer in three Fortran '
              'styles and read by the library; every sequence of editing operations on one object up to the stated '
              'length is replayed against a reference list and round-tripped; nothing is sampled.')
LEVEL_NOTE = ('Trusted: ref/fixedcol.py + ref/layout/incon.json, ref/fortnum.py. Not claimed: mixed variable counts, '
              'negative three-digit-exponent values, non-canonical block names, num_variables above the actual count.')

TIME_LIMIT = 6.0          # a case costs milliseconds; the limit only bounds a hang on a changed tree
MAX_TIMEOUTS_PER_UNIT = 2 # after that the unit's remaining cases are skipped (counted as cap_hit: not exhaustive)
_timeouts = [0]
SHIPPED_LIMIT = {False: 30.0, True: 200.0}    # small files cost < 1 s, the two big ones 3 s and 9 s

STYLES = {
    'autough2': fc.styled(real='E0', trim=True),                 # E20.14 / E15.9, records without trailing blanks
    'tough2': fc.styled(real='E0s', trim=False),                 # E20.13 / E15.8 (leading blank), full-width records
    '1pe-crlf': fc.styled(real='E1', trim=True, eol='\r\n'),     # 1PE20.13, DOS line ends
}
for _r, _t, _e in itertools.product(('E0', 'E0s', 'E1'), (False, True), ('\n', '\r\n')):
    STYLES['x-%s-%s-%s' % (_r, 'trim' if _t else 'pad', 'crlf' if _e != '\n' else 'lf')] = fc.styled(real=_r, trim=_t,
                                                                                                 eol=_e)
CROSS_STYLES = sorted(k for k in STYLES if k.startswith('x-'))
STYLE_DIGITS = {'E0': 0, 'E1': 0, 'E0s': -1}     # digits relative to the layout's d

TIMING = {'kcyc': 12345, 'iter': 67890, 'nm': 21, 'tstart': 1.5e3, 'sumtim': 1.0649612345e16}   # full-width integers:
# read with the other flavour's widths (3I5 <-> 2I6,I3) they cannot come out right by accident
SEQ = {'none': (None, None), 'small': (1, 2), 'big': (99999, 12345)}
POS_EXP = [5, 7, 0, -3, 2, -1, 8, 1, -7, 3, 4, -2]


# ------------------------------------------------------------------------------------------ names

def sim_print(name):
    """The element name as the simulator prints it: EL (A3) and NE (I2)."""
    ne = name[3:5]
    if ne.strip(' ').isdigit():
        return '%3s%2d' % (name[0:3], int(ne))
    return name


def canonical(filename):
    """The name the library keeps for what the simulator printed (blank in column 4 between digits -> zero)."""
    f = filename
    if f[2].isdigit() and f[3] == ' ' and f[4].isdigit():
        return f[0:3] + '0' + f[4]
    return f


def name_family(fam):
    def prod(a, b):
        return [x + y for x in a for y in b]
    if fam == 'conv0':
        raw = prod(['  a', '  z', ' aa', 'abc', 'ATM', ' AB', 'Xyz', ' zz'], [' 0', ' 1', ' 9', '10', '99'])
    elif fam == 'conv0num':
        raw = prod(['  1', ' 10', '123', ' a1', '  9', ' 99', 'b 2', '100'], [' 0', ' 5', '15', ' 9', '99'])
    elif fam == 'conv1':
        raw = prod(['atm', '  a', ' ab', 'abc', 'ATM', '  Z', ' zz', 'a b'], [' 1', ' 9', '10', '99', ' 0'])
    elif fam == 'conv2':
        raw = prod(['at', ' a', 'ab', ' Z', 'zz', 'AT', ' b', 'cd'], ['  1', ' 10', '100', '101', '999'])
    elif fam == 'conv3':
        raw = prod(['  a', '  z', ' aa', 'abc', 'ATM', ' AB', 'Xyz', ' zz'], [' a', ' z', 'aa', 'zz', ' 0'])
    elif fam == 'quirk':
        raw = ['AB1 0', 'AB1 5', 'AB112', '  a 5', '  a15', '12345', '123 5', '1 3 5', 'a1b 3', '  1 0', '999 9', '99999',
               ' 10 4', 'A 1 1', 'A 111', 'Z9  7', 'z 9 0', '0 0 0', '00000', ' 0 10', 'q7 12', 'q 712', ' q7 1', 'R2  2',
               'aa1 1', 'aa2 2', 'aa3 3', 'aa4 4', 'aa5 5', 'aa6 6', 'aa7 7', 'aa8 8', 'aa9 9', 'ab1 1', 'ab2 2', 'ab3 3',
               'ab4 4', 'ab5 5', 'ab6 6', 'ab7 7']
    else:
        raise ValueError(fam)
    out, seen = [], set()
    for r in raw:
        n = canonical(sim_print(r)) if fam != 'conv3' else r
        if len(n) != 5:
            raise core.HarnessError('name %r' % n)
        if fam != 'conv3' and canonical(sim_print(n)) != n:
            raise core.HarnessError('name %r is not a fixed point of print/read' % n)
        if n not in seen:
            seen.add(n)
            out.append(n)
    return out


FAMILIES = ['conv0', 'conv0num', 'conv1', 'conv2', 'conv3', 'quirk']


# ------------------------------------------------------------------------------------------ specs

def mk(n, nvar, form, por, perm, seq, timing, reset, names, numvar, **kw):
    s = {'n': n, 'nvar': nvar, 'form': form, 'por': por, 'perm': perm, 'seq': seq, 'timing': timing, 'reset': reset,
         'names': names, 'numvar': numvar}
    s.update(kw)
    return s


def numvar_modes(nvar):
    return ['none', 'exact'] if nvar <= 4 else ['exact']


TR = [(False, True), (False, False), (True, True), (True, False)]
ZERO_PERMS = ['z0', 'z1', 'z2', 'zall']


def specs_cross(tier):
    if tier == 'thorough':
        ns, nvars, forms = (1, 2, 3), range(1, 13), ('pos', 'neg', 'exp3', 'zero', 'mixed', 'lastzero')
        seqs, fams = ('none', 'small', 'big'), FAMILIES
    else:
        ns, nvars, forms = (1, 3), (1, 3, 4, 5, 8, 9, 12), ('mixed', 'neg', 'exp3', 'lastzero')
        seqs, fams = ('none', 'small', 'big'), FAMILIES
    out = []
    for n, nvar, form, por, perm, seq, (timing, reset), fam in itertools.product(
            ns, nvars, forms, ('none', 'val', 'zero'), (False, True), seqs, TR, fams):
        for nm in numvar_modes(nvar):
            out.append(mk(n, nvar, form, por, perm, seq, timing, reset, fam, nm))
    # permeability triples with exact 0.0 components (an impermeable direction): each position, and all three
    for n, nvar, por, perm, seq, (timing, reset), fam in itertools.product(
            ns, nvars, ('none', 'val', 'zero'), ZERO_PERMS, ('none', 'small'), TR, fams):
        for nm in numvar_modes(nvar):
            out.append(mk(n, nvar, 'mixed', por, perm, seq, timing, reset, fam, nm))
    return out


def specs_empty(tier):
    return [mk(0, 3, 'pos', 'none', False, 'none', timing, reset, 'conv0', nm)
            for (timing, reset) in TR for nm in ('none', 'exact')]


def specs_many(tier):
    nvars = (1, 4, 5, 12) if tier == 'thorough' else (4, 5)
    out = []
    for nvar, perm, seq, (timing, reset), fam in itertools.product(nvars, (False, True, 'zall', 'z1'), ('none', 'small'),
                                                                   [(False, True), (True, False)], FAMILIES):
        out.append(mk(40, nvar, 'mixed', 'val', perm, seq, timing, reset, fam, 'exact'))
    return out


def specs_dev(tier):
    out = []
    for n in (2, 3):
        for k in range(n):
            for what in ('por-none', 'por-val', 'perm-none', 'perm-zall', 'perm-z1', 'seq-none', 'seq-given'):
                for nvar in (2, 5):
                    for (timing, reset) in ((True, False), (False, True)):
                        base_por = 'none' if what == 'por-val' else 'val'
                        base_seq = 'none' if what == 'seq-given' else 'small'
                        perm = what.startswith('perm-')
                        out.append(mk(n, nvar, 'mixed', base_por, perm, base_seq, timing, reset, 'conv0num', 'exact',
                                      dev={'block': k, 'what': what}))
    return out


def specs_styles(tier):
    out = []
    nvars = (1, 4, 5, 12) if tier == 'thorough' else (3, 5)
    forms = ('pos', 'neg', 'exp3', 'zero', 'mixed', 'lastzero') if tier == 'thorough' else ('mixed', 'neg', 'lastzero')
    for nvar, form, perm, (timing, reset), fam in itertools.product(nvars, forms, (False, True),
                                                                   [(False, True), (True, False)],
                                                                   ('conv0num', 'quirk', 'conv3')):
        out.append(mk(2, nvar, form, 'val', perm, 'small', timing, reset, fam, 'exact', styles='cross'))
    return out


def specs_negexp3(tier):
    """A negative three-digit-exponent value at every position of full and partial records of variables."""
    out = []
    for nvar in range(1, 9):
        for pos in range(nvar):
            for n, perm, (timing, reset) in itertools.product((1, 2), (False, True), [(False, True), (True, False)]):
                for nm in numvar_modes(nvar):
                    out.append(mk(n, nvar, 'negexp3', 'val', perm, 'small', timing, reset, 'conv0num', nm, pos=pos))
    for nvar, pos in ((12, 3), (12, 7), (12, 11), (9, 8)):
        out.append(mk(3, nvar, 'negexp3', 'val', False, 'none', True, False, 'conv2', 'exact', pos=pos))
    return out


def specs_nocheck(tier):
    """The documented option check_blocknames=False (constructor keyword, read() keyword, read() positional) with
    every name family, not only the names that need it: it switches a check off, nothing else."""
    out = []
    for fam in FAMILIES:
        for how in ('ctor-false', 'read-false', 'read-positional'):
            for n, nvar, (timing, reset) in itertools.product((1, 3), (2, 5), [(False, True), (True, False)]):
                out.append(mk(n, nvar, 'mixed', 'val', False, 'small', timing, reset, fam, 'exact', check=how))
            out.append(mk(40, 3, 'mixed', 'val', True, 'none', True, False, fam, 'exact', check=how))
    return out


def specs_trnoperm(tier):
    """Flavour TOUGHREACT set on the object, no block with permeabilities (incl. no block at all)."""
    return [mk(n, nvar, 'mixed', 'val', 'tr-none', seq, timing, reset, 'conv0num', 'exact')
            for n in (0, 1, 2) for nvar in (2, 5) for seq in ('none', 'small') for (timing, reset) in TR]


def specs_reuse(tier):
    """History of the READER object: a t2incon that has already read a file of the other (or the same) flavour
    reads the case's file with read(); the result must be what a fresh object reads."""
    out = []
    for n, nvar, perm, (timing, reset), prior in itertools.product((1, 2), (2, 5), (False, True, 'zall'), TR,
                                                                   ('TOUGHREACT', 'TOUGH2')):
        out.append(mk(n, nvar, 'mixed', 'val', perm, 'small', timing, reset, 'conv0num', 'exact', reuse=prior))
    return out


SHIPPED = [('AUTOUGH2/3/case3.incon', 2, False), ('TOUGH2/1/case1.incon', 3, False), ('TOUGH2/2/INCON', 6, False),
           ('TOUGH2/3/test.incon', 2, False), ('TOUGHREACT/1/SAVE_1', 2, False),
           ('AUTOUGH2/1/case1.incon', 3, True), ('AUTOUGH2/2/case2.incon', 3, True)]


def specs_shipped(tier):
    out = [{'shipped': p, 'nvar': nv, 'big': big} for p, nv, big in SHIPPED if tier == 'thorough' or not big]
    # the same files read into an object that has read another shipped file before
    for a, b in (('TOUGHREACT/1/SAVE_1', 'AUTOUGH2/3/case3.incon'), ('AUTOUGH2/3/case3.incon', 'TOUGHREACT/1/SAVE_1'),
                 ('TOUGH2/2/INCON', 'TOUGH2/3/test.incon'), ('TOUGHREACT/1/SAVE_1', 'TOUGH2/3/test.incon')):
        nv = dict((p, n) for p, n, big in SHIPPED)
        out.append({'shipped': b, 'nvar': nv[b], 'big': False, 'after': a, 'after_nvar': nv[a]})
    return out


GROUPS = [('cross', specs_cross, 64), ('empty', specs_empty, 1), ('many', specs_many, 12), ('dev', specs_dev, 2),
          ('styles', specs_styles, 6), ('reuse', specs_reuse, 2), ('trnoperm', specs_trnoperm, 1), ('negexp3', specs_negexp3, 4), ('nocheck', specs_nocheck, 3),
          ('shipped', specs_shipped, 11), ('order', lambda tier: specs_order(tier), 4)]


def units(tier):
    us = []
    for name, fn, nchunks in GROUPS:
        n = len(fn(tier))
        k = max(1, min(nchunks, n))
        for i in range(k):
            us.append((name, i, k))
    return us + hist_units(tier)


# ------------------------------------------------------------------------------------------ model of a case

def value(form, b, i):
    m = 1.2345678901234 + 0.0101 * b + 0.11 * i
    e = POS_EXP[i % 12]
    if form == 'pos':
        return m * 10.0 ** e
    if form == 'neg':
        return -m * 10.0 ** e
    if form == 'exp3':
        return m * 10.0 ** (100 + i) if i % 2 == 0 else m * 10.0 ** (-100 - i)
    if form == 'zero':
        return 0.0
    k = (i + b) % 6
    if k == 0:
        return m * 10.0 ** e
    if k == 1:
        return -m * 10.0 ** e
    if k == 2:
        return m * 1e100
    if k == 3:
        return 0.0
    if k == 4:
        return m * 1e-105
    return 9.99999999999999967 * 10.0 ** e      # rounds up into the next decade at 13 decimals


def model(spec):
    """Plain-data model of the case: what the t2incon object is made to hold."""
    n, nvar = spec['n'], spec['nvar']
    names = name_family(spec['names'])[:n]
    if len(names) < n:
        raise core.HarnessError('family %s has %d names' % (spec['names'], len(names)))
    dev = spec.get('dev')
    blocks = []
    for b in range(n):
        por, perm, seq = spec['por'], spec['perm'], spec['seq']
        if dev and dev['block'] == b:
            w = dev['what']
            if w == 'por-none':
                por = 'none'
            elif w == 'por-val':
                por = 'val'
            elif w == 'perm-none':
                perm = False
            elif w in ('perm-zall', 'perm-z1'):
                perm = w[5:]
            elif w == 'seq-none':
                seq = 'none'
            elif w == 'seq-given':
                seq = 'big'
        porosity = {'none': None, 'val': 0.1 + 0.0123456789012 * b, 'zero': 0.0}[por]
        k = [6.51e-14 * (b + 1), 1.2345678901e-15, 3.3e-13 + 1e-20 * b] if perm and perm != 'tr-none' else None
        if perm in ZERO_PERMS:
            for j in ((0, 1, 2) if perm == 'zall' else (int(perm[1]),)):
                k[j] = 0.0
        nseq, nadd = SEQ[seq]
        if spec['form'] == 'negexp3':
            # one negative value with a three-digit exponent at position spec['pos'], full-precision values around it
            vs = [value('pos', b, i) for i in range(nvar)]
            p = spec['pos']
            vs[p] = -(1.2345678901234 + 0.0101 * b) * (10.0 ** (-100 - p) if b % 2 == 0 else 10.0 ** (100 + p))
        elif spec['form'] == 'lastzero':
            # an exact zero (minus zero in odd blocks) as the LAST value of every record of variables
            vs = [((-0.0 if b % 2 else 0.0) if (i % 4 == 3 or i == nvar - 1) else value('pos', b, i)) for i in range(nvar)]
        else:
            vs = [value(spec['form'], b, i) for i in range(nvar)]
        blocks.append({'name': names[b], 'vars': vs, 'por': porosity,
                       'perm': k, 'nseq': nseq, 'nadd': nadd})
    M = {'blocks': blocks, 'timing': dict(TIMING) if spec['timing'] else None,
         'toughreact': any(b['perm'] is not None for b in blocks)}
    if spec['perm'] == 'tr-none':
        # the object says TOUGHREACT but no block has permeabilities: nothing in a file can say so, the flavour is
        # not asserted - everything else, the restart record included, is
        M['object_simulator'] = 'TOUGHREACT'
    return M


def quiet():
    return contextlib.redirect_stdout(io.StringIO())


def build(M):
    import numpy as np
    import t2incons
    inc = t2incons.t2incon()
    if M['toughreact'] or M.get('object_simulator') == 'TOUGHREACT':
        inc.simulator = 'TOUGHREACT'
    for b in M['blocks']:
        inc.add_incon(t2incons.t2blockincon(list(b['vars']), b['name'], b['por'],
                                            None if b['perm'] is None else np.array(b['perm']), b['nseq'], b['nadd']))
    if M['timing'] is not None:
        inc.timing = dict(M['timing'])
    return inc


def describe(inc):
    def f(x):
        return None if x is None else float(x)
    blocks = []
    names = list(inc.blocklist)
    for i, name in enumerate(names):
        b = inc[i]
        blocks.append({'name': b.block, 'vars': [f(v) for v in b.variable], 'por': f(b.porosity),
                       'perm': None if b.permeability is None else [f(v) for v in b.permeability],
                       'nseq': b.nseq, 'nadd': b.nadd})
    t = inc.timing
    if t is not None:
        t = {'kcyc': t.get('kcyc'), 'iter': t.get('iter'), 'nm': t.get('nm'), 'tstart': f(t.get('tstart')),
             'sumtim': f(t.get('sumtim'))}
    # access by name is the documented interface: it must reach the same conditions as access by position
    by_name_ok = all(inc[name] is inc[i] for i, name in enumerate(names)) if len(set(names)) == len(names) else False
    return {'blocks': blocks, 'timing': t, 'simulator': inc.simulator, 'index_names': names, 'by_name_ok': by_name_ok}


# ------------------------------------------------------------------------------------------ oracles

class StaleFlavour(Exception):
    pass


class Findings(object):
    def __init__(self, site, spec):
        self.site, self.spec, self.items, self.clauses = site, spec, [], set()

    def add(self, clause, what, cls):
        if clause in self.clauses:
            return
        self.clauses.add(clause)
        self.items.append(('C13|%s|%s|%s' % (self.site, clause, cls), what))


def vdigits(m):
    """Significant digits a primary variable keeps in its 20 columns: 14 (13 decimals), except that a NEGATIVE value
    with a THREE-digit exponent needs 21 columns at 13 decimals and is, by design of the writer's width guard,
    printed with 12 - that one value, to its printed digits; nothing else in the record may be affected."""
    if m < 0 and m == m and (abs(m) >= 1e100 or abs(m) < 1e-99):
        return 13
    return 14


def close(got, want, tol):
    if got is None or want is None:
        return got is None and want is None
    return abs(got - want) <= tol * (1 + 1e-9)


def classes(spec, M):
    nlines = (spec['nvar'] + 3) // 4
    fl = 'TOUGHREACT' if M['toughreact'] else 'TOUGH2'
    if M.get('object_simulator'):
        fl = 'TOUGHREACT-without-permeabilities'
    if any(b['perm'] is not None and 0.0 in b['perm'] for b in M['blocks']):
        fl += '+zero-permeability'
    if spec.get('reuse'):
        fl += ',reader-used-before'
    return {'name': 'names=%s%s' % (spec.get('names'), ',check_blocknames=False' if spec.get('check') else ''), 'vars': 'form=%s,records=%d' % (spec.get('form'), nlines),
            'por': 'porosity=%s' % spec.get('por'), 'perm': fl, 'seq': 'seq=%s' % spec.get('seq'),
            'timing': '%s,reset=%s' % (fl, spec.get('reset')), 'flavour': fl, 'count': 'blocks=%s' % spec.get('n')}


def cmp_file(M, R, long_form, C, F):
    """What the reference reader found in library-written bytes against the model.  long_form: timing present and
    not reset, i.e. SAVE header, '+++' and restart record expected."""
    if (R['header']['kind'] == 'long') != long_form:
        F.add('header.form', 'header record %r where the %s form is expected'
              % (R['header']['text'], 'long (SAVE)' if long_form else 'short'), C['timing'])
    if len(R['blocks']) != len(M['blocks']):
        F.add('block.count', '%d element records for %d blocks' % (len(R['blocks']), len(M['blocks'])), C['count'])
    for rb, mb in zip(R['blocks'], M['blocks']):
        want = sim_print(mb['name'])
        if rb['name'] != want:
            F.add('block.name', 'block %r written as %r, the simulator prints it as %r' % (mb['name'], rb['name'], want),
                  C['name'])
        if (rb['nseq'], rb['nadd']) != (mb['nseq'], mb['nadd']):
            F.add('nseq/nadd', 'block %r nseq, nadd %r written as %r' % (mb['name'], (mb['nseq'], mb['nadd']),
                                                                       (rb['nseq'], rb['nadd'])), C['seq'])
        if not close(rb['porosity'][0], mb['por'], fc.half_unit('E', 9, mb['por'] or 0.0)):
            F.add('porosity', 'block %r porosity %r written as %r' % (mb['name'], mb['por'], rb['porosity'][0]), C['por'])
        if (rb['permeability'] is None) != (mb['perm'] is None):
            F.add('permeability.presence', 'block %r permeability %r written as %r'
                  % (mb['name'], mb['perm'], rb['permeability']), C['perm'])
        elif mb['perm'] is not None:
            for (v, u), m in zip(rb['permeability'], mb['perm']):
                if not close(v, m, fc.half_unit('E', 9, m)):
                    F.add('permeability', 'block %r permeability %r written as %r'
                          % (mb['name'], mb['perm'], [p[0] for p in rb['permeability']]), C['perm'])
        for i, ((v, u), m) in enumerate(zip(rb['variables'], mb['vars'])):
            if not close(v, m, fc.half_unit('E', vdigits(m), m)):
                F.add('variable', 'block %r variable %d = %r written as %r' % (mb['name'], i, m, v), C['vars'])
    if long_form:
        if R['end'] != '+++' or R['timing'] is None:
            F.add('timing.presence', 'block list closed by %r, timing record %r; "+++" and a restart record expected'
                  % (R['end'], R['timing']), C['timing'])
        else:
            cmp_timing(M['timing'], dict((k, v[0] if isinstance(v, tuple) else v) for k, v in R['timing'].items()),
                       'written as', C, F)
    else:
        if R['end'] == '+++' and R['timing'] is not None:
            F.add('timing.presence', 'restart record %r written although %s' %
                  (R['timing'], 'reset' if M['timing'] else 'there is no timing'), C['timing'])


def cmp_timing(want, got, verb, C, F, ddelta=0):
    for k in ('kcyc', 'iter', 'nm'):
        if got.get(k) != want[k]:
            F.add('timing.' + k, 'timing %s = %r %s %r' % (k, want[k], verb, got.get(k)), C['timing'])
    for k in ('tstart', 'sumtim'):
        if not close(got.get(k), want[k], fc.half_unit('E', 9 + ddelta, want[k])):
            F.add('timing.' + k, 'timing %s = %r %s %r' % (k, want[k], verb, got.get(k)), C['timing'])


def cmp_mem(M, D, expect_timing, C, F, ddelta=0):
    if len(D['blocks']) != len(M['blocks']):
        F.add('block.count', '%d blocks came back as %d' % (len(M['blocks']), len(D['blocks'])), C['count'])
    if [b['name'] for b in D['blocks']] != [b['name'] for b in M['blocks']][:len(D['blocks'])] or \
            D['index_names'] != [b['name'] for b in D['blocks']]:
        F.add('block.name', 'block names %r came back as %r (blocklist %r)'
              % ([b['name'] for b in M['blocks']][:6], [b['name'] for b in D['blocks']][:6], D['index_names'][:6]),
              C['name'])
    if not D['by_name_ok']:
        F.add('block.index', 'inc[name] does not reach the conditions at the position of name (names %r)'
              % (D['index_names'][:6],), C['name'])
    for db, mb in zip(D['blocks'], M['blocks']):
        if (db['nseq'], db['nadd']) != (mb['nseq'], mb['nadd']):
            F.add('nseq/nadd', 'block %r nseq, nadd %r came back as %r' % (mb['name'], (mb['nseq'], mb['nadd']),
                                                                         (db['nseq'], db['nadd'])), C['seq'])
        if not close(db['por'], mb['por'], fc.half_unit('E', 9 + ddelta, mb['por'] or 0.0)):
            F.add('porosity', 'block %r porosity %r came back as %r' % (mb['name'], mb['por'], db['por']), C['por'])
        if (db['perm'] is None) != (mb['perm'] is None):
            F.add('permeability.presence', 'block %r permeability %r came back as %r' % (mb['name'], mb['perm'],
                                                                                       db['perm']), C['perm'])
        elif mb['perm'] is not None:
            if len(db['perm']) != 3 or not all(close(v, m, fc.half_unit('E', 9 + ddelta, m))
                                               for v, m in zip(db['perm'], mb['perm'])):
                F.add('permeability', 'block %r permeability %r came back as %r' % (mb['name'], mb['perm'], db['perm']),
                      C['perm'])
        if len(db['vars']) != len(mb['vars']):
            F.add('variable.count', 'block %r: %d variables came back as %d: %r'
                  % (mb['name'], len(mb['vars']), len(db['vars']), db['vars'][:13]), C['vars'])
        else:
            for i, (v, m) in enumerate(zip(db['vars'], mb['vars'])):
                if not close(v, m, fc.half_unit('E', vdigits(m) + ddelta, m)):
                    F.add('variable', 'block %r variable %d = %r came back as %r' % (mb['name'], i, m, v), C['vars'])
    want_sim = 'TOUGHREACT' if M['toughreact'] else 'TOUGH2'
    if D['simulator'] != want_sim and not M.get('object_simulator'):
        F.add('simulator', 'simulator %r came back as %r' % (want_sim, D['simulator']), C['flavour'])
    if expect_timing:
        if D['timing'] is None:
            F.add('timing.presence', 'timing %r came back as None' % (M['timing'],), C['timing'])
        else:
            cmp_timing(M['timing'], D['timing'], 'came back as', C, F, ddelta)
    elif D['timing'] is not None:
        F.add('timing.presence', 'timing %r read although none was written' % (D['timing'],), C['timing'])


def dict_diff(a, b):
    for k in a:
        if a[k] != b.get(k):
            if isinstance(a[k], list) and isinstance(b.get(k), list):
                i = next((i for i, (x, y) in enumerate(zip(a[k], b[k])) if x != y), min(len(a[k]), len(b[k])))
                return '%s[%d] %r -> %r' % (k, i, a[k][i] if i < len(a[k]) else None, b[k][i] if i < len(b[k]) else None)
            return '%s %r -> %r' % (k, a[k], b.get(k))
    return 'keys %r -> %r' % (sorted(a), sorted(b))


def line_diff(t1, t2):
    l1, l2 = t1.split('\n'), t2.split('\n')
    k = next((i for i, (a_, b_) in enumerate(zip(l1, l2)) if a_ != b_), min(len(l1), len(l2)))
    return 'line %d: %r -> %r' % (k + 1, l1[k] if k < len(l1) else None, l2[k] if k < len(l2) else None)


def file_image(M):
    return {'blocks': [{'name': sim_print(b['name']), 'nseq': b['nseq'], 'nadd': b['nadd'], 'porosity': b['por'],
                        'permeability': b['perm'], 'variables': b['vars']} for b in M['blocks']],
            'timing': M['timing'], 'toughreact': M['toughreact']}


PRIOR = {'blocks': [{'name': 'zz  1', 'nseq': None, 'nadd': None, 'porosity': 0.3, 'permeability': None,
                     'variables': [2.5e5, 33.0]},
                    {'name': 'zz  2', 'nseq': 7, 'nadd': 8, 'porosity': 0.3, 'permeability': None,
                     'variables': [3.5e5, 44.0]}],
         'timing': {'kcyc': 999, 'iter': 88888, 'nm': 7, 'tstart': 2.0, 'sumtim': 3.0e9}}


def prior_file(flavour):
    """A small reference-written SAVE file of the given flavour, for readers with a history."""
    path = os.path.join(core.scratch(), 'c13_prior_%s.incon' % flavour)
    if not os.path.exists(path):
        img = {'blocks': [dict(b) for b in PRIOR['blocks']], 'timing': PRIOR['timing'],
               'toughreact': flavour == 'TOUGHREACT'}
        if flavour == 'TOUGHREACT':
            for b in img['blocks']:
                b['permeability'] = [1e-13, 2e-13, 3e-14]
        with open(path, 'w', newline='') as fh:
            fh.write(fc.write_incon(img, STYLES['autough2']))
    return path


def lib_read(path, spec, check_names=True, limit=TIME_LIMIT):
    import t2incons
    nv = None if spec.get('numvar') == 'none' else spec['nvar']

    def go():
        if spec.get('reuse'):
            inc = t2incons.t2incon(prior_file(spec['reuse']))
            inc.read(path, nv, check_names)
            return inc
        if spec.get('after'):
            inc = t2incons.t2incon(spec['after'], num_variables=spec['after_nv'])
            inc.read(path, nv, check_names)
            return inc
        how = spec.get('check')
        if how == 'ctor-false':
            return t2incons.t2incon(path, num_variables=nv, check_blocknames=False)
        if how == 'read-false':
            inc = t2incons.t2incon()
            inc.read(path, num_variables=nv, check_blocknames=False)
            return inc
        if how == 'read-positional':
            inc = t2incons.t2incon()
            inc.read(path, nv, False)
            return inc
        return t2incons.t2incon(path, num_variables=nv, check_blocknames=check_names)
    with quiet():
        if limit is None:       # the caller holds the (only) timer; core.timelimit does not nest
            return go()
        with core.timelimit(limit):
            return go()


def evaluate(spec, tier='thorough'):
    stats = {'round_trips': 0, 'ref_reads': 0, 'ref_written': 0}
    M = model(spec)
    C = classes(spec, M)
    check_names = spec['names'] != 'conv3'
    exc_cls = 'numvar=%s' % spec['numvar']
    d = core.scratch()
    f1, f2, f3 = (os.path.join(d, 'c13_%s.incon' % k) for k in '123')
    for p in (f1, f2, f3):
        if os.path.exists(p):
            os.remove(p)
    viol = []
    hist = '[reader read a %s file before]' % spec['reuse'] if spec.get('reuse') else ''
    t_before = _timeouts[0]
    reset = spec['reset']
    long_form = M['timing'] is not None and not reset
    # ---- 1. library writes, reference reads
    W = Findings('write', spec)
    bytes1 = None
    try:
        with quiet(), core.timelimit(TIME_LIMIT):
            inc = build(M)
            before = describe(inc)
            inc.write(f1, reset)
        with open(f1, newline='') as fh:
            bytes1 = fh.read()
    except core.CaseTimeout:
        _timeouts[0] += 1
        W.add('timeout', 't2incon.write did not finish in %d s' % TIME_LIMIT, C['flavour'])
    except Exception as e:
        W.add('raises', 't2incon.write raised %s: %s' % (type(e).__name__, e), type(e).__name__)
    if bytes1 is not None:
        # write() is an observer: same object afterwards, same bytes from a second write
        try:
            after = describe(inc)
            if after != before:
                W.add('object-modified-by-write', 'write() changed the object it wrote: %s' % dict_diff(before, after),
                      C['flavour'])
            else:
                fb = os.path.join(d, 'c13_1b.incon')
                with quiet(), core.timelimit(TIME_LIMIT):
                    inc.write(fb, reset)
                with open(fb, newline='') as fh:
                    bytes1b = fh.read()
                os.remove(fb)
                if bytes1b != bytes1:
                    W.add('second-write-differs', 'writing the same object twice gives different files: %s'
                          % line_diff(bytes1, bytes1b), C['flavour'] + ',second-call')
        except core.CaseTimeout:
            _timeouts[0] += 1
            W.add('timeout', 'second t2incon.write did not finish in %d s' % TIME_LIMIT, C['flavour'] + ',second-call')
        except Exception as e:
            W.add('second-write-raises', 'second write of the same object raised %s: %s' % (type(e).__name__, e),
                  C['flavour'])
        try:
            R = fc.read_incon(bytes1, spec['nvar'])
            stats['ref_reads'] += 1
            cmp_file(M, R, long_form, C, W)
        except fc.RefFormatError as e:
            W.add('not-an-incon-file', 'the written file is rejected by the reference reader: %s' % e, C['vars'])
    viol += W.items
    # ---- 2. library reads its own file, compare, rewrite
    if bytes1 is not None:
        B = Findings('write+read' + hist, spec)
        try:
            inc2 = lib_read(f1, spec, check_names)
            stats['round_trips'] += 1
            cmp_mem(M, describe(inc2), long_form, C, B)
            reread_differs = bool(B.items)
            # what the reference reader already found wrong in the file comes back wrong: same finding
            B.items = [it for it in B.items if it[0].split('|')[2] not in W.clauses]
            if hist and 'simulator' in B.clauses:
                # flavour left over from the reader's earlier file: what follows from it (timing widths, second
                # write) is the same defect - error states are not expanded
                B.items = [it for it in B.items if '|simulator|' in it[0]]
                raise StaleFlavour()
            try:
                with quiet(), core.timelimit(TIME_LIMIT):
                    inc2.write(f2, reset)
                with open(f2, newline='') as fh:
                    bytes2 = fh.read()
                if bytes2 != bytes1 and not reread_differs:
                    # (when the re-read geometry already differs, a different second file is the same finding)
                    l1, l2 = bytes1.split('\n'), bytes2.split('\n')
                    k = next((i for i, (a_, b_) in enumerate(zip(l1, l2)) if a_ != b_), min(len(l1), len(l2)))
                    B2 = Findings('rewrite' + hist, spec)
                    B2.add('bytes-differ', 'second write differs from the first at line %d: %r -> %r'
                           % (k + 1, l1[k] if k < len(l1) else None, l2[k] if k < len(l2) else None), C['flavour'])
                    viol += B2.items
            except core.CaseTimeout:
                B.add('rewrite-timeout', 'writing the re-read conditions did not finish in %d s' % TIME_LIMIT, C['flavour'])
            except Exception as e:
                B.add('rewrite-raises', 'writing the re-read conditions raised %s: %s' % (type(e).__name__, e),
                      type(e).__name__)
        except StaleFlavour:
            pass
        except core.CaseTimeout:
            _timeouts[0] += 1
            B.add('timeout', 'reading the library-written file did not finish in %d s' % TIME_LIMIT, exc_cls)
        except Exception as e:
            B.add('raises', 'reading the library-written file raised %s: %s' % (type(e).__name__, e),
                  '%s,%s' % (type(e).__name__, exc_cls))
        viol += B.items
    if _timeouts[0] > t_before:
        return viol, 'timeout', stats       # a case that hung once is not driven further
    # ---- 3. reference writes, library reads
    if spec.get('styles') == 'cross':
        names = CROSS_STYLES
    else:
        names = list(STYLES)[:3 if tier == 'thorough' else 2]
    img = file_image(M)
    base_clauses = None
    for sname in names:
        st = STYLES[sname]
        Fs = Findings('read(ref-written)' + hist, spec)
        try:
            text = fc.write_incon(img, st)
        except fc.RefFormatError as e:
            raise core.HarnessError('reference writer cannot render spec %r: %s' % (spec, e))
        with open(f3, 'w', newline='') as fh:
            fh.write(text)
        stats['ref_written'] += 1
        try:
            inc3 = lib_read(f3, spec, check_names)
            cmp_mem(M, describe(inc3), M['timing'] is not None, C, Fs, STYLE_DIGITS[st['real']])
            if hist and 'simulator' in Fs.clauses:
                Fs.items = [it for it in Fs.items if '|simulator|' in it[0]]
                Fs.clauses = set(['simulator'])
        except core.CaseTimeout:
            _timeouts[0] += 1
            Fs.add('timeout', 'reading the reference-written file did not finish in %d s' % TIME_LIMIT, exc_cls)
            viol += Fs.items
            break           # a hang is not retried in the other styles
        except Exception as e:
            Fs.add('raises', 'reading the reference-written file raised %s: %s' % (type(e).__name__, e),
                   '%s,%s' % (type(e).__name__, exc_cls))
        if base_clauses is None:
            base_clauses = set(Fs.clauses)
            viol += Fs.items
        else:
            for sig, what in Fs.items:
                if sig.split('|')[2] not in base_clauses:
                    viol.append((sig + ',style=' + sname, 'style %s: %s' % (sname, what)))
    fl = 'TOUGHREACT' if M['toughreact'] else 'TOUGH2'
    return viol, '%s,%s,records=%d' % (fl, 'save-form' if long_form else 'incon-form', (spec['nvar'] + 3) // 4), stats


def incon_dir():
    d = os.path.join(core.REPO, 'tests', 'incon')
    return d if os.path.isdir(d) else '/repo/tests/incon'


def shipped_check(spec):
    """A simulator-written file: reference reader (lenient beyond the record, as a Fortran read is) and library
    must find the same conditions; then the library round trip from what was read."""
    import numpy as np
    rel, nvar = spec['shipped'], spec['nvar']
    path = os.path.join(incon_dir(), rel)
    stats = {'round_trips': 0, 'ref_reads': 1, 'ref_written': 0}
    cls = rel.split('/')[0] + '/' + rel.split('/')[1]
    C = dict((k, cls) for k in ('name', 'vars', 'por', 'perm', 'seq', 'timing', 'flavour', 'count'))
    hist = ''
    rspec = {'nvar': nvar, 'numvar': 'none' if nvar <= 4 else 'exact'}
    if spec.get('after'):
        hist = '[reader read %s before]' % spec['after'].rsplit('/', 1)[0]
        rspec['after'] = os.path.join(incon_dir(), spec['after'])
        rspec['after_nv'] = spec['after_nvar'] if spec['after_nvar'] > 4 else None
    F = Findings('read(shipped)' + hist, spec)
    with open(path, newline='') as fh:
        text = fh.read()
    R = fc.read_incon(text, nvar, strict=False)
    try:
        inc = lib_read(path, rspec, limit=None)
    except core.CaseTimeout:
        raise
    except Exception as e:
        F.add('raises', 'reading the shipped file raised %s: %s' % (type(e).__name__, e), cls)
        return F.items, 'shipped', stats
    # the model the file defines, by the reference reader; exact values (text -> nearest double)
    M = {'blocks': [{'name': canonical(b['name']), 'vars': [v[0] for v in b['variables']], 'por': b['porosity'][0],
                     'perm': None if b['permeability'] is None else [k[0] for k in b['permeability']],
                     'nseq': b['nseq'], 'nadd': b['nadd']} for b in R['blocks']],
         'timing': None if R['timing'] is None else dict((k, v[0] if isinstance(v, tuple) else v)
                                                         for k, v in R['timing'].items()),
         'toughreact': R['toughreact']}
    # a repeated element name replaces the earlier conditions (t2incon documents add_incon so)
    seen = {}
    for b in M['blocks']:
        seen[b['name']] = b
    order = []
    for b in M['blocks']:
        if b['name'] not in order:
            order.append(b['name'])
    M['blocks'] = [seen[nm] for nm in order]
    D = describe(inc)
    cmp_mem(M, D, M['timing'] is not None, C, F, ddelta=30)      # ddelta 30: exact to the last bit
    if hist and 'simulator' in F.clauses:
        return [it for it in F.items if '|simulator|' in it[0]], 'shipped', stats     # error state not expanded
    viol = list(F.items)
    # the upstream expectation arrays next to the file
    here = os.path.dirname(path)
    for fname, get in (('variable.npy', lambda: np.array([b['vars'] for b in D['blocks']])),
                       ('porosity.npy', lambda: np.array([b['por'] for b in D['blocks']], dtype=float)),
                       ('permeability.npy', lambda: np.array([b['perm'] for b in D['blocks']], dtype=float))):
        p = os.path.join(here, fname)
        if os.path.exists(p):
            want = np.load(p)
            try:
                got = get()
            except ValueError:          # ragged: blocks came back with different numbers of values
                got = np.zeros(0)
            if want.shape != got.shape or not np.allclose(got, want, rtol=1e-12, atol=0, equal_nan=True):
                viol.append(('C13|read(shipped)|%s|%s' % (fname, cls), 'values read differ from the stored %s' % fname))
    # round trip from the read object
    d = core.scratch()
    f1, f2 = os.path.join(d, 'c13_s1.incon'), os.path.join(d, 'c13_s2.incon')
    reset = inc.timing is None
    B = Findings('write+read' + hist, spec)
    try:
        with quiet():
            inc.write(f1, reset)
        with open(f1, newline='') as fh:
            bytes1 = fh.read()
        W = Findings('write' + hist, spec)
        try:
            R1 = fc.read_incon(bytes1, nvar)
            stats['ref_reads'] += 1
            cmp_file(M, R1, not reset, C, W)
        except fc.RefFormatError as e:
            W.add('not-an-incon-file', 'the written file is rejected by the reference reader: %s' % e, cls)
        viol += W.items
        inc2 = lib_read(f1, rspec, limit=None)
        stats['round_trips'] += 1
        cmp_mem(M, describe(inc2), not reset, C, B)
        with quiet():
            inc2.write(f2, reset)
        with open(f2, newline='') as fh:
            if fh.read() != bytes1:
                B.add('rewrite.bytes-differ', 'second write differs from the first', cls)
    except core.CaseTimeout:
        raise
    except Exception as e:
        B.add('raises', 'round trip of the shipped conditions raised %s: %s' % (type(e).__name__, e), cls)
    viol += B.items
    return viol, 'shipped', stats


# ------------------------------------------------------------------------------------------ operation histories

# One t2incon object is taken through a sequence of its public editing operations; a plain ordered list is edited
# alongside (the reference).  After the sequence the object must show the list (positions, by-name access), the
# file written from it must contain exactly the list (reference reader), read back as the list, and be rewritten
# byte for byte.  Every sequence over the stated alphabet up to the stated depth, from each start state.
HIST_CONFIGS = {
    'T2-add': {'flavour': 'TOUGH2', 'nvar': 2, 'timing': False, 'reset': True, 'names': 'conv0num', 'form': 'add'},
    'TR-setobj': {'flavour': 'TOUGHREACT', 'nvar': 5, 'timing': True, 'reset': False, 'names': 'quirk', 'form': 'setobj'},
    'T2-setlist': {'flavour': 'TOUGH2', 'nvar': 3, 'timing': True, 'reset': False, 'names': 'conv2', 'form': 'setlist'},
    'TR-add': {'flavour': 'TOUGHREACT', 'nvar': 4, 'timing': False, 'reset': True, 'names': 'conv0', 'form': 'add'},
    'T2-setobj': {'flavour': 'TOUGH2', 'nvar': 9, 'timing': True, 'reset': True, 'names': 'conv1', 'form': 'setobj'},
    'TR-setlist': {'flavour': 'TOUGHREACT', 'nvar': 1, 'timing': True, 'reset': False, 'names': 'conv3', 'form': 'setlist'},
}
HIST_STARTS = ('empty', 'append', 'read')
HIST_BASE = 3           # blocks of the 'append' / 'read' start states and of the file the 'read' operation reads
HIST_TIERS = {          # (configurations, names beyond the base ones, depth)
    'quick': [(('T2-add', 'TR-setobj', 'T2-setlist', 'TR-add', 'T2-setobj', 'TR-setlist'), 1, 3)],
    'thorough': [(('T2-add', 'TR-setobj'), 2, 4),
                 (('T2-setlist', 'TR-add', 'T2-setobj', 'TR-setlist'), 2, 3)],
}


def hist_plan(tier):
    return [(c, extra, depth) for cfgs, extra, depth in HIST_TIERS[tier] for c in cfgs]


def hist_block(cfg, j, v, plain=False):
    """Block number j of the name pool in its version v (0: base; k: given by the k-th operation)."""
    c = HIST_CONFIGS[cfg]
    b = j + 5 * v
    blk = {'name': name_family(c['names'])[j], 'vars': [value('mixed', b, i) for i in range(c['nvar'])],
           'por': None, 'perm': None, 'nseq': None, 'nadd': None}
    if not plain:
        blk['por'] = [None, 0.1 + 0.0123456789012 * b, 0.0][(j + v) % 3]
        if c['flavour'] == 'TOUGHREACT' and (j + v) % 2 == 0:
            blk['perm'] = [6.51e-14 * (b + 1), 1.2345678901e-15, 3.3e-13 + 1e-20 * b]
        if (j + v) % 2:
            blk['nseq'], blk['nadd'] = 1 + v, 2 + j
    return blk


def hist_base(cfg):
    return [hist_block(cfg, j, 0) for j in range(HIST_BASE)]


def hist_alphabet(names_present, pool):
    """The operations offered in a state of the reference list.  An insertion is only offered for a name that is
    not in the set (a second block of a name that is there is what add_incon's replacement rule excludes)."""
    L = len(names_present)
    ops = [['set', j] for j in range(pool)]
    ops += [['ins', i, j] for j in range(pool) if j not in names_present for i in range(L + 1)]
    ops += [['del', j] for j in range(pool)]
    ops += [['empty'], ['read'], ['obs']]
    return ops


def hist_step(present, op):
    """Names (pool numbers, in order) after the operation."""
    k = op[0]
    if k == 'set':
        return present if op[1] in present else present + [op[1]]
    if k == 'ins':
        return present[:op[1]] + [op[2]] + present[op[1]:]
    if k == 'del':
        return [j for j in present if j != op[1]]
    if k == 'empty':
        return []
    if k == 'read':
        return list(range(HIST_BASE))
    return present


def hist_start_names(start):
    return [] if start == 'empty' else list(range(HIST_BASE))


def hist_sequences(start, pool, depth, first):
    """Every operation sequence of length 1..depth whose first operation is number `first` of the start state's
    alphabet (and, with first == 0, the empty sequence)."""
    out = [[]] if first == 0 else []

    def rec(present, seq):
        out.append(seq)
        if len(seq) < depth:
            for op in hist_alphabet(present, pool):
                rec(hist_step(present, op), seq + [op])
    p0 = hist_start_names(start)
    op = hist_alphabet(p0, pool)[first]
    rec(hist_step(p0, op), [op])
    return out


def hist_units(tier):
    us = []
    for cfg, extra, depth in hist_plan(tier):
        for start in HIST_STARTS:
            for a in range(len(hist_alphabet(hist_start_names(start), HIST_BASE + extra))):
                us.append(('history', (cfg, start, a, HIST_BASE + extra), depth))
    return us


def hist_base_file(cfg):
    c = HIST_CONFIGS[cfg]
    path = os.path.join(core.scratch(), 'c13_hbase_%s.incon' % cfg)
    if not os.path.exists(path):
        blocks = hist_base(cfg)
        img = file_image({'blocks': blocks, 'timing': dict(TIMING) if c['timing'] else None,
                          'toughreact': any(b['perm'] is not None for b in blocks)})
        with open(path, 'w', newline='') as fh:
            fh.write(fc.write_incon(img, STYLES['autough2']))
    return path


def hist_mkblock(b, bare_name=False):
    import numpy as np
    import t2incons
    return t2incons.t2blockincon(list(b['vars']), '' if bare_name else b['name'], b['por'],
                                 None if b['perm'] is None else np.array(b['perm']), b['nseq'], b['nadd'])


def hist_run(spec):
    """Applies the history to a t2incon object and to the reference list.  -> (object, model, kinds)"""
    import t2incons
    cfg = spec['hist']
    c = HIST_CONFIGS[cfg]
    nv = c['nvar'] if c['nvar'] > 4 else None
    check = c['names'] != 'conv3'
    base_timing = dict(TIMING) if c['timing'] else None
    if spec['start'] == 'read':
        inc = t2incons.t2incon(hist_base_file(cfg), num_variables=nv, check_blocknames=check)
        blocks, timing = hist_base(cfg), base_timing
        if c['flavour'] == 'TOUGHREACT':
            inc.simulator = 'TOUGHREACT'        # (what the file says when it has permeabilities; stated by the user)
    else:
        inc = t2incons.t2incon()
        inc.simulator = c['flavour']
        blocks = []
        if spec['start'] == 'append':
            blocks = hist_base(cfg)
            for b in blocks:
                inc.add_incon(hist_mkblock(b))
        timing = base_timing
        if timing is not None:
            inc.timing = dict(timing)
    kinds = []
    for v, op in enumerate(spec['ops'], 1):
        k = op[0]
        names = [b['name'] for b in blocks]
        if k == 'set':
            form = c['form']
            nb = hist_block(cfg, op[1], v, plain=(form == 'setlist'))
            if form == 'add':
                inc.add_incon(hist_mkblock(nb))
            elif form == 'setobj':
                inc[nb['name']] = hist_mkblock(nb, bare_name=True)
            else:
                inc[nb['name']] = list(nb['vars'])
            if nb['name'] in names:
                blocks[names.index(nb['name'])] = nb
                kinds.append('replace')
            else:
                blocks.append(nb)
                kinds.append('append')
        elif k == 'ins':
            nb = hist_block(cfg, op[2], v)
            inc.insert_incon(op[1], hist_mkblock(nb))
            blocks.insert(op[1], nb)
            kinds.append('insert-at-end' if op[1] == len(names) else 'insert')
        elif k == 'del':
            name = name_family(c['names'])[op[1]]
            inc.delete_incon(name)
            if name in names:
                del blocks[names.index(name)]
                kinds.append('delete')
            else:
                kinds.append('delete-absent')
        elif k == 'empty':
            inc.empty()
            blocks, timing = [], None
            kinds.append('empty')
        elif k == 'read':
            inc.read(hist_base_file(cfg), nv, check)
            blocks, timing = hist_base(cfg), base_timing
            if c['flavour'] == 'TOUGHREACT':
                inc.simulator = 'TOUGHREACT'
            kinds.append('read')
        elif k == 'obs':
            describe(inc)
            inc.write(os.path.join(core.scratch(), 'c13_hobs.incon'), c['reset'])
            kinds.append('observe')
        else:
            raise core.HarnessError('operation %r' % (op,))
    M = {'blocks': blocks, 'timing': timing, 'toughreact': any(b['perm'] is not None for b in blocks)}
    if c['flavour'] == 'TOUGHREACT' and not M['toughreact']:
        M['object_simulator'] = 'TOUGHREACT'
    return inc, M, kinds


def hist_eval(spec):
    stats = {'round_trips': 0, 'ref_reads': 0, 'histories': 1}
    c = HIST_CONFIGS[spec['hist']]
    rspec = {'nvar': c['nvar'], 'numvar': 'exact' if c['nvar'] > 4 else 'none'}
    check = c['names'] != 'conv3'
    d = core.scratch()
    f1, f2 = os.path.join(d, 'c13_h1.incon'), os.path.join(d, 'c13_h2.incon')
    viol = []
    try:
        with quiet(), core.timelimit(TIME_LIMIT):
            inc, M, kinds = hist_run(spec)
    except core.CaseTimeout:
        raise
    except core.HarnessError:
        raise
    except Exception as e:
        return [('C13|history:operations|raises|%s,%s' % (type(e).__name__, spec['hist']),
                 'the operation sequence raised %s: %s' % (type(e).__name__, e))], 'raises', stats
    cls = 'history,last=%s' % (kinds[-1] if kinds else 'none')
    C = dict((k, cls) for k in ('name', 'vars', 'por', 'perm', 'seq', 'timing', 'flavour', 'count'))
    long_form = M['timing'] is not None and not c['reset']
    # the object itself: positions and by-name access show the reference list
    O = Findings('history:object', spec)
    cmp_mem(M, describe(inc), M['timing'] is not None, C, O)
    viol += O.items
    W = Findings('history:write', spec)
    B = Findings('history:write+read', spec)
    try:
        with quiet(), core.timelimit(TIME_LIMIT):
            inc.write(f1, c['reset'])
            with open(f1, newline='') as fh:
                bytes1 = fh.read()
            try:
                R = fc.read_incon(bytes1, c['nvar'])
                stats['ref_reads'] += 1
                cmp_file(M, R, long_form, C, W)
            except fc.RefFormatError as e:
                W.add('not-an-incon-file', 'the written file is rejected by the reference reader: %s' % e, cls)
            inc2 = lib_read(f1, rspec, check, limit=None)
            stats['round_trips'] += 1
            cmp_mem(M, describe(inc2), long_form, C, B)
            reread_differs = bool(B.items)
            B.items = [it for it in B.items if it[0].split('|')[2] not in W.clauses]
            inc2.write(f2, c['reset'])
            with open(f2, newline='') as fh:
                bytes2 = fh.read()
            if bytes2 != bytes1 and not reread_differs:
                B.add('rewrite.bytes-differ', 'second write differs from the first: %s' % line_diff(bytes1, bytes2), cls)
    except core.CaseTimeout:
        raise
    except Exception as e:
        B.add('raises', 'round trip of the edited conditions raised %s: %s' % (type(e).__name__, e),
              '%s,%s' % (type(e).__name__, cls))
    viol += W.items + B.items
    fl = 'TOUGHREACT' if M['toughreact'] else 'TOUGH2'
    return viol, 'history,%s,%s,blocks=%d' % (fl, 'save-form' if long_form else 'incon-form', len(M['blocks'])), stats


def run_history_unit(unit, tier, rec):
    (cfg, start, first, pool), depth = unit[1], unit[2]
    _timeouts[0] = 0
    for ops in hist_sequences(start, pool, depth, first):
        spec = {'hist': cfg, 'start': start, 'ops': ops}
        key = json.dumps(spec, sort_keys=True)
        if _timeouts[0] >= MAX_TIMEOUTS_PER_UNIT:
            rec.case(key, nontrivial=False, outcome='skipped-after-%d-timeouts' % MAX_TIMEOUTS_PER_UNIT)
            rec.count('cap_hit', 1)
            continue
        try:
            viol, outcome, stats = hist_eval(spec)
        except core.CaseTimeout:
            _timeouts[0] += 1
            viol, outcome, stats = [('C13|history|timeout|config=%s' % cfg,
                                     'operation history did not finish within its time limit')], 'timeout', {}
        except core.HarnessError:
            raise
        except Exception as e:
            import traceback
            viol, outcome, stats = [('C13|history|blow-up|%s' % type(e).__name__,
                                     'evaluating the history raised:\n%s' % traceback.format_exc()[-1200:])], 'blow-up', {}
        rec.case(key, nontrivial=bool(ops), outcome=outcome)
        for name, n in stats.items():
            rec.count(name, n)
        rec.count('specs_history', 1)
        rec.count('history_depth_%d' % len(ops), 1)
        for sig, what in viol:
            rec.violation(sig, what, {'spec': spec, 'tier': tier})
        if not viol and len(ops) == depth:
            rec.sample({'spec': spec, 'outcome': outcome})


# ------------------------------------------------------------------------------------------ order independence

def order_specs(tier):
    out = specs_dev(tier)[::5] + specs_styles(tier)[::4] + specs_trnoperm(tier)[::4] + specs_cross(tier)[::(400 if tier == 'thorough' else 60)] + \
        specs_many(tier)[::24]
    return out


def specs_order(tier):
    n = 4 if tier == 'thorough' else 2
    return [{'order_pass': i, 'of': n, 'n': 1} for i in range(n)]


def observe(spec, tag):
    """What one case shows: the bytes written and the canonical form of the conditions read back from them."""
    M = model(spec)
    p = os.path.join(core.scratch(), 'c13_o_%s.incon' % tag)
    with quiet():
        build(M).write(p, spec['reset'])
    with open(p, newline='') as fh:
        text = fh.read()
    D = describe(lib_read(p, spec, spec['names'] != 'conv3', limit=None))
    return text, D


def write_primers():
    """Legal cases that exercise the width guard of the writers (values over-wide for their fields, written with
    reduced precision by design), in both file classes that share the fixed-format writer, both flavours."""
    import numpy as np
    import mulgrids
    import t2incons
    d = core.scratch()
    with quiet():
        for sim in ('TOUGH2', 'TOUGHREACT'):
            inc = t2incons.t2incon()
            inc.simulator = sim
            inc['prm 1'] = t2incons.t2blockincon([-1.2345678901234e-101, -2.5e+100, -3.25e5, 4.5, -5.5e-120], 'prm 1',
                                                 porosity=-0.123456789012,
                                                 permeability=np.array([-1.5e-13, 1e-101, -2e-101]) if sim != 'TOUGH2' else None,
                                                 nseq=7, nadd=9)
            inc.timing = {'kcyc': 1, 'iter': 2, 'nm': 3, 'tstart': -1.23456789012e3, 'sumtim': -1.23456789012e-101}
            p = os.path.join(d, 'c13_primer.incon')
            inc.write(p, reset=False)
            t2incons.t2incon(p, num_variables=5)
        g = mulgrids.mulgrid().rectangular([100.25, 50.5], [75.75], [10.5, 20.25],
                                           origin=[12345600.25, -1234567.25, 12345678.25], atmos_type=1)
        g.write(os.path.join(d, 'c13_primer.dat'))
        mulgrids.mulgrid(os.path.join(d, 'c13_primer.dat'))


def order_pass(spec, tier):
    """Runs in a forked child: every case; the same cases in reverse order; the primers; the cases again.
    What a case shows must be the same each time."""
    cases = order_specs(tier)[spec['order_pass']::spec['of']]
    out = []
    with core.timelimit(60.0):
        first = [observe(c, 'a') for c in cases]
        second = [observe(c, 'b') for c in reversed(cases)][::-1]
        write_primers()
        third = [observe(c, 'c') for c in cases]
    for c, o1, o2, o3 in zip(cases, first, second, third):
        for o, after in ((o2, 'other-cases-in-reverse-order'), (o3, 'over-wide-primer')):
            if o[0] != o1[0]:
                out.append((c, 'C13|write|bytes-depend-on-history|after=%s' % after,
                            'the file written for the same case differs from the first time: %s' % line_diff(o1[0], o[0])))
            elif o[1] != o1[1]:
                out.append((c, 'C13|read|conditions-depend-on-history|after=%s' % after,
                            'the same file is read differently from the first time: %s' % dict_diff(o1[1], o[1])))
    return len(cases), out


def run_order_unit(spec, tier, rec):
    key = json.dumps(spec, sort_keys=True)
    try:
        ncases, found = isolate.isolated(order_pass, spec, tier)
    except isolate.ChildFailed as e:
        msg = str(e)
        if 'CaseTimeout' in msg:
            rec.violation('C13|order-pass|timeout|pass=%d' % spec['order_pass'], 'order-independence pass did not finish',
                          {'spec': spec, 'tier': tier})
        else:
            rec.violation('C13|order-pass|raises|%s' % msg.strip().splitlines()[-1].split(':')[0],
                          'order-independence pass raised:\n%s' % msg[-1500:], {'spec': spec, 'tier': tier})
        rec.case(key, outcome='order-pass-failed')
        return
    rec.case(key, outcome='order-pass')
    rec.count('order_pass_cases', ncases)
    rec.count('order_pass_observations', 3 * ncases)
    for c, sig, what in found:
        rec.violation(sig, what, {'spec': c, 'tier': tier, 'order_spec': spec})


def run_case(spec, tier):
    if 'shipped' in spec:
        with core.timelimit(SHIPPED_LIMIT[bool(spec.get('big'))]):
            return shipped_check(spec)
    if 'hist' in spec:
        return hist_eval(spec)
    return evaluate(spec, tier)     # every library call inside carries its own time limit


def run_unit(unit, tier, rec):
    gname, idx, k = unit
    if gname == 'history':
        return run_history_unit(unit, tier, rec)
    fn = dict((n, f) for n, f, c in GROUPS)[gname]
    _timeouts[0] = 0
    for spec in fn(tier)[idx::k]:
        key = json.dumps(spec, sort_keys=True)
        if 'order_pass' in spec:
            run_order_unit(spec, tier, rec)
            continue
        if _timeouts[0] >= MAX_TIMEOUTS_PER_UNIT:
            rec.case(key, nontrivial=False, outcome='skipped-after-%d-timeouts' % MAX_TIMEOUTS_PER_UNIT)
            rec.count('cap_hit', 1)
            continue
        try:
            viol, outcome, stats = run_case(spec, tier)
        except core.CaseTimeout:
            _timeouts[0] += 1
            viol, outcome, stats = [('C13|round-trip|timeout|%s,numvar=%s' % (gname, spec.get('numvar')),
                                     'case did not finish within its time limit')], 'timeout', {}
        except core.HarnessError:
            raise
        except Exception as e:
            # whatever a changed library makes of a case, the case is reported and the unit goes on
            import traceback
            viol, outcome, stats = [('C13|round-trip|blow-up|%s,%s' % (gname, type(e).__name__),
                                     'evaluating the case raised:\n%s' % traceback.format_exc()[-1200:])], 'blow-up', {}
        rec.case(key, nontrivial=spec.get('n', 1) > 0, outcome=outcome)
        for name, n in stats.items():
            rec.count(name, n)
        rec.count('specs_' + gname, 1)
        for sig, what in viol:
            rec.violation(sig, what, {'spec': spec, 'tier': tier})
        if not viol:
            rec.sample({'spec': spec, 'outcome': outcome})


def replay(case):
    if 'order_spec' in case:
        ncases, found = isolate.isolated(order_pass, case['order_spec'], case.get('tier', 'thorough'))
        return [(sig, what) for c, sig, what in found if c == case['spec']]
    viol, outcome, stats = run_case(case['spec'], case.get('tier', 'thorough'))
    return viol
