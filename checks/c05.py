"""C05 - listing tables hold exactly the numbers printed in the listing file.

Space (crossed completely, per tier):
* base: every shipped listing x every result time x every exposed table x every row x every column, the
  library's cell against the independent tokenizer ref/listtok.py (values by ref/fortnum.parse_real), plus
  the three addressing modes table[i][col], table[rowname][col], table[col][i] at every cell;
* skip: every non-empty subset of the file's tables as skip_tables, every remaining table at every time
  against the unskipped open;
* perturbed: every (table, real column) x form x scope, the printed numbers of the column replaced by
  other numbers of exactly the same printed width (scratch file), every cell of every table at every time
  against the reference values (the injected value at the replaced cells).
Oracle: the property statement.
"""
import contextlib
import io
import itertools
import os
import re

from mc import core
from ref import listtok

ID = 'C05'
LEVEL = 'exploration'
ENGINE = 'E2'
EXHAUSTIVE = True
RULE = ('base: all (file, result time, exposed table, printed row, column) cells, each compared with the value of the '
        'token found by the position-free reference tokenizer and read through the three addressing modes; skip: all '
        'non-empty subsets of each file\'s tables x all times x all remaining tables; perturbed: all (file, table, real '
        'column) x 6 width-preserving forms (negative taking the separating blank, negative dropping the leading zero, '
        'zero, -1dd and +1dd exponent without E, widest = negative all-nines with -1dd exponent) x 4 scopes (all rows all '
        'times, all rows at times > 0, first row at time 0, last row at last time), every cell of every table at every '
        'time re-compared; pair: ordered pairs (A, B) of shipped files, including A = B, both opened and alive, every '
        'time of A then of B read forwards and backwards, every exposed cell compared with the reference and the '
        'untouched listing compared with its snapshot at every arrival; history: ' + 'all ordered pairs (A, B) of the 37 shipped listings, one fresh interpreter per A: all B opened, A moved through all its times, every B opened before re-read at all times and every B opened afterwards compared with the print and with the tables the earlier object exposes; mode-alone: files x 4 addressing modes, one object per mode, whole table read through that mode at every arrival; ' + 'primed: files x primers {none, all shipped incon files, a t2data file, a mulgrid file (both with either read function), another simulator\'s listing, all of these}, each in a fresh interpreter, the listing opened after the primer, read forwards and backwards and every exposed cell compared with the reference.  Every opened file is read forwards and then backwards; the unperturbed file also with every '
        'time reached from index 0 by its negative index / last().  A case is one compared cell (base), one (subset, time, table) comparison (skip) or one variant '
        'file (perturbed); non-trivial = it involves at least one printed number (base/skip) or at least one replaced '
        'cell (perturbed); distinct = distinct (file, time, table, row, column) / (file, subset, time, table) / (file, '
        'table, column, form, scope)')
ASSUMPTIONS = ['the 37 shipped listings are the files under tests/listing/*/*/ that are neither .npy arrays nor editor '
               'backups (~)',
               'reference structure: result sets, tables and rows are found by ref/listtok.py from the simulators\' own '
               'banners and headings; names are 5 characters ending in a digit, followed by at most one flag character '
               '(TOUGH+); the column in which a table\'s names end is the majority over the rows of that one printed table',
               'reference value of a printed real is ref/fortnum.parse_real of the token; a real with an exponent owns at '
               'most one digit before its point, exponents have fixed width (E[-+ ]dd or [-+]ddd)',
               'row order is not fixed by the statement: printed order (every printed row) and ascending printed index '
               '(repeated indices merged, any of the repeated lines accepted) are both accepted; an index field of '
               'asterisks continues the count',
               'a table that the reader exposes but that is not printed at some result time, and a printed table the '
               'reader does not expose, are not compared (counted)',
               'where a row name is printed more than once, table[name] may return any of the rows of that name',
               'a three-digit exponent printed WITH its letter (E+107) is not generated and not claimed: Ew.d/Dw.d/Gw.d/1PEw.d '
               'drop the letter for |exponent| > 99 (0.122630+107), and Ew.dE3 prints three exponent digits on every row '
               '(0.12264E+007), so no edit descriptor prints E+07 and E+107 in one column of one width (checked with gfortran '
               '12.2); in the shipped files E+ddd occurs only in TOUGH3 list-directed timing lines outside the tables',
               'the integer value column of ECO2M (\'I\') is compared but not perturbed',
               'a replacement that the number grammar itself cannot split unambiguously from its neighbours is not made '
               '(counted as ambiguous_cells)']
BOUNDS = {'quick': {'files': 'base and skip: all shipped listings; perturbed: the shipped listings smaller than 300 kB, and of the '
                             'larger ones the tables whose rows print differing numbers of values',
                    'base': 'all cells, all times', 'skip': 'all non-empty subsets',
                    'perturbed': 'all tables x real columns x 6 forms x scopes {all rows at all times, last row at last time}'},
          'thorough': {'files': 'all shipped listings', 'base': 'all cells, all times', 'skip': 'all non-empty subsets',
                       'perturbed': 'all tables x real columns x 6 forms x 4 scopes'}}
TECHNIQUE = ('bounded exhaustive enumeration (every cell; every skip subset; every column x printed form x scope of '
             'width-preserving rewrites) of the real listing reader against an independent position-free tokenizer')
LEVEL_TEXT = ('Every cell of every exposed table at every result time of every shipped listing is compared with an '
              'independently tokenized value; every subset of skipped tables and every (column, printed form, scope) rewrite '
              'of the files is opened with the real reader and compared completely; nothing is sampled.')
READING_ORDERS = ('base: after opening, index = 1..n-1, then prev() down to the first time, then every time reached from index 0 by '
                  'its negative index and the last time by last() (index 0 re-read in between); skip and perturbed: after '
                  'opening, index = 1..n-1, then prev() down to the first time; all tables are compared at every arrival')
BOUNDS['quick']['pairs'] = 'all 36 ordered pairs (incl. the same file twice) of one representative file per simulator directory'
BOUNDS['thorough']['pairs'] = 'all ordered pairs (incl. the same file twice) of the representatives and all files smaller than 300 kB'
BOUNDS['quick']['primed'] = 'files with ragged tables and one representative per simulator directory x 6 primers, one fresh process each'
BOUNDS['thorough']['primed'] = 'all shipped listings x 6 primers, one fresh process each'
BOUNDS['quick']['reading_orders'] = READING_ORDERS
HISTORY = ('all 37 x 37 ordered pairs (A, B) of shipped listings, one fresh process per A: every B opened with default arguments '
           '(all alive), A opened and moved through all its times (index forwards, prev() back, last()), then every B opened '
           'before read as it stands, re-read at index 0, forwards and back against the print (columns also by name), and every '
           'B opened once more: same exposed tables as the earlier object, all times against the print')
MODE_ALONE = ('every file x addressing mode {column by name, row by index, row by name, DataFrame when pandas is installed}: a '
              'fresh object on which only that mode is used, the whole table read through it at every arrival forwards and back; '
              'the cross-mode comparison of the base pass is made at every time of the forward pass on one object')
for _t in ('quick', 'thorough'):
    BOUNDS[_t]['history'] = HISTORY
    BOUNDS[_t]['mode_alone'] = MODE_ALONE
BOUNDS['thorough']['reading_orders'] = READING_ORDERS
LEVEL_NOTE = ('Trusted: ref/listtok.py (structure and tokens) and ref/fortnum.py (values). Only the shipped files and their '
              'width-preserving value rewrites are claimed; the quick tier perturbs only the files below 300 kB and leaves out the '
              'scopes "times > 0" and "first row at time 0".')

FORMS = ['neg', 'neglz', 'zero', 'exp3neg', 'exp3pos', 'widest']
SCOPES = ['all', 'later', 'first0', 'lastlast']
QUICK_SIZE = 300 * 1000
CASE_SECONDS = 300          # wall-clock backstop per opened file; the deterministic guard is the readline budget


class ReadBudgetExceeded(Exception):
    pass


class CountingFile(object):
    """Stands in for the listing's file object: every loop of t2listing advances by readline, so a budget of
    readline calls is a deterministic definition of 'does not terminate'."""

    def __init__(self, f, budget):
        self._f = f
        self.count = 0
        self.budget = budget

    def readline(self, *a):
        self.count += 1
        if self.count > self.budget:
            raise ReadBudgetExceeded('more than %d readline calls' % self.budget)
        return self._f.readline(*a)

    def __getattr__(self, name):
        return getattr(self._f, name)


class _IOShim(object):
    """Replaces the name 'io' inside the t2listing module, so that the file opened by the constructor
    is already the counting proxy."""

    def __init__(self):
        self.budget = 10 ** 9
        self.last = None

    def open(self, *a, **k):
        self.last = CountingFile(io.open(*a, **k), self.budget)
        return self.last

    def __getattr__(self, name):
        return getattr(io, name)


_shim = None


def open_listing(path, skip, budget):
    global _shim
    import t2listing
    if _shim is None or t2listing.io is not _shim:
        _shim = _IOShim()
        t2listing.io = _shim
    _shim.budget = budget
    with contextlib.redirect_stdout(io.StringIO()):
        if skip is None:
            return t2listing.t2listing(path)
        return t2listing.t2listing(path, skip_tables=list(skip))


def set_index(lst, i):
    with contextlib.redirect_stdout(io.StringIO()):
        lst.index = i


def close_listing(lst):
    try:
        lst.close()
    except Exception:
        pass


def close_last():
    if _shim is not None and _shim.last is not None:
        try:
            _shim.last.close()
        except Exception:
            pass


# ------------------------------------------------------------------------------------------ files

def listing_root():
    return os.path.join(core.REPO, 'tests', 'listing')


def listing_files():
    root = listing_root()
    out = []
    for sim in sorted(os.listdir(root)):
        d1 = os.path.join(root, sim)
        if not os.path.isdir(d1):
            continue
        for case in sorted(os.listdir(d1)):
            d2 = os.path.join(d1, case)
            if not os.path.isdir(d2):
                continue
            for f in sorted(os.listdir(d2)):
                if f.endswith('.npy') or f.endswith('~'):
                    continue
                p = os.path.join(d2, f)
                if os.path.isfile(p):
                    out.append(('%s/%s/%s' % (sim, case, f), os.path.getsize(p)))
    return out


# ------------------------------------------------------------------------------------------ reference model

class Exp(object):
    """Expected content of one printed table, from the reference scan."""

    def __init__(self, t, lines):
        import numpy as np
        self.t = t
        rows = t.rows
        self.nextra = t.nints - 1
        self.width = max([len(r.ints) + len(r.toks) for r in rows] or [0])
        vals = []
        for r in rows:
            l = lines[r.lineno]
            v = [float(x) if x is not None else float('nan') for x in r.ints]
            for s, e in r.toks:
                x = listtok.token_value(l[s:e])
                v.append(float('nan') if x is None else x)
            vals.append(v)
        self.vals = vals
        self.keysA = [r.key for r in rows]
        prev = 0
        groups = {}
        for p, r in enumerate(rows):
            ix = r.index if r.index is not None else prev + 1
            prev = ix
            groups.setdefault(ix, []).append(p)
        order = sorted(groups)
        self.permB = np.array([groups[ix][-1] for ix in order], dtype=int)
        self.altB = dict((b, groups[ix][:-1]) for b, ix in enumerate(order) if len(groups[ix]) > 1)
        self.keysB = [self.keysA[p] for p in self.permB]
        self._arr = {}

    def array(self, ncols):
        import numpy as np
        a = self._arr.get(ncols)
        if a is None:
            a = np.zeros((len(self.vals), ncols))
            for i, v in enumerate(self.vals):
                a[i, :len(v)] = v[:ncols]
            self._arr[ncols] = a
        return a


class Ctx(object):
    """One file: its lines, the reference scan and the expected tables.  Built afresh in every work unit."""

    def __init__(self, rel):
        self.rel = rel
        self.path = os.path.join(listing_root(), rel)
        self.base = os.path.basename(rel)
        self.lines = listtok.read_lines(self.path)
        self.sets = listtok.scan(self.lines)
        self.nsets = len(self.sets)
        self.budget = 20 * len(self.lines) * (self.nsets + 2)
        self.exp = []
        for rs in self.sets:
            d = {}
            for t in rs.tables:
                if t.name not in d:
                    d[t.name] = Exp(t, self.lines)
            self.exp.append(d)
        self.sim = rel.split('/')[0]      # input class of a signature: the simulator directory of the shipped file

    def scratch_path(self):
        d = os.path.join(core.scratch(), 'c05')
        os.makedirs(d, exist_ok=True)
        return os.path.join(d, self.base)       # the basename matters (TOUGH2_MP is recognised by it)


def compare_table(exp, arrA, lt):
    """None, or (clause, text) when the library table lt differs from the expected table."""
    import numpy as np
    names = lt.row_name
    if names == exp.keysA:
        perm = None
    elif names == exp.keysB:
        perm = exp.permB
    else:
        k = exp.keysA
        d = next((i for i, (a, b) in enumerate(zip(names, k)) if a != b), min(len(names), len(k)))
        return ('row-keys', 'table has %d rows, %d rows are printed (%d distinct indices); first difference at row %d: '
                'table %r, printed %r' % (len(names), len(k), len(exp.keysB), d,
                                          names[d] if d < len(names) else None, k[d] if d < len(k) else None))
    D = lt._data
    if exp.width > D.shape[1]:
        return ('columns', 'a row prints %d values, the table has %d columns' % (exp.width, D.shape[1]))
    E = arrA if perm is None else arrA[perm]
    if D.shape != E.shape:
        return ('shape', 'data shape %r, expected %r' % (D.shape, E.shape))
    eq = (D == E)
    if eq.all():
        return None
    for i, j in np.argwhere(~eq):
        i, j = int(i), int(j)
        if perm is not None and i in exp.altB and any(arrA[p, j] == D[i, j] for p in exp.altB[i]):
            continue
        p = i if perm is None else int(perm[i])
        r = exp.t.rows[p]
        return ('cell', 'row %d %r column %d (%s): table holds %r, line %d prints %r'
                % (i, names[i], j, lt.column_name[j] if j < len(lt.column_name) else '?', float(D[i, j]),
                   r.lineno + 1, float(E[i, j])), (p, j))
    return None


def msgclass(e):
    """Exception class for a signature: type and message with the variable parts removed."""
    m = re.sub(r'[0-9]+', '#', str(e).split('\n')[0])
    m = re.sub(r"'[^']*'", "'..'", m)
    return '%s:%s' % (type(e).__name__, m[:50].strip())


# ------------------------------------------------------------------------------------------ base case

def route(n, orders):
    """The reading order of one opened listing: [(how, action, argument, result time reached)].
    forward: the state after opening, then index = 1 .. n-1;  backward: prev() from the last time down to
    the first;  negative: every time reached directly from index 0 through its negative index, and the last
    time through last() - after going back to index 0 each time ('home')."""
    steps = [('forward', 'open', None, 0)] + [('forward', 'index', ti, ti) for ti in range(1, n)]
    if n > 1 and 'backward' in orders:
        steps += [('backward', 'prev', None, ti) for ti in range(n - 2, -1, -1)]
    if n > 1 and 'negative' in orders:
        for ti in range(n):
            steps.append(('home', 'index', 0, 0))
            steps.append(('negative', 'index', ti - n, ti))
        steps.append(('home', 'index', 0, 0))
        steps.append(('last', 'last', None, n - 1))
    return steps


def walk(ctx, lst, on_table, orders, stage, on_arrival=None):
    """Follows route(...) on an opened listing and calls on_table(ti, name, libtable, how) for every exposed
    table at every result time reached (and on_arrival(ti, how) after them).  stage: 1-element list holding
    a description of the current step.  -> None or (clause, text)"""
    for how, action, arg, ti in route(ctx.nsets, orders):
        stage[0] = '%s %s%s -> time %d' % (how, action, '' if arg is None else ' = %d' % arg, ti)
        if action != 'open':
            try:
                with contextlib.redirect_stdout(io.StringIO()):
                    if action == 'index':
                        lst.index = arg
                    elif action == 'prev':
                        lst.prev()
                    else:
                        lst.last()
            except (ReadBudgetExceeded, core.CaseTimeout):
                raise
            except Exception as e:
                return ('step-raises:' + msgclass(e), '%s raised %s: %s' % (stage[0], type(e).__name__, str(e)[:200]))
        for name in list(lst._tablenames):
            r = on_table(ti, name, lst._table[name], how)
            if r:
                return (r[0] + ('' if how == 'forward' else '@' + how), '%s: %s' % (stage[0], r[1]))
        if on_arrival is not None:
            r = on_arrival(ti, how)
            if r:
                return (r[0], '%s: %s' % (stage[0], r[1]))
    return None


def visit(ctx, path, skip, on_table, on_open=None, orders=('backward',)):
    """Opens path with the library (guarded), follows route(...) and calls on_table(ti, name, libtable, how)
    for every exposed table at every result time reached.  -> None or (clause, text)."""
    stage = ['open']
    try:
        with core.timelimit(CASE_SECONDS):
            try:
                lst = open_listing(path, skip, ctx.budget)
            except (ReadBudgetExceeded, core.CaseTimeout):
                raise
            except Exception as e:
                close_last()
                return ('open-raises:' + msgclass(e), 'opening raised %s: %s' % (type(e).__name__, str(e)[:200]))
            try:
                if on_open is not None:
                    r = on_open(lst)
                    if r:
                        return r
                if lst.num_fulltimes != ctx.nsets:
                    return ('result-times', 'reader finds %d result times, %d are printed' % (lst.num_fulltimes, ctx.nsets))
                return walk(ctx, lst, on_table, orders, stage)
            finally:
                close_listing(lst)
    except ReadBudgetExceeded as e:
        close_last()
        return ('nontermination', '%s at %s (budget 20 x lines x (result sets + 2))' % (e, stage[0]))
    except core.CaseTimeout as e:
        close_last()
        return ('timeout', '%s at %s' % (e, stage[0]))


# ------------------------------------------------------------------------------------------ two listings alive at once

def snapshot(lst):
    return dict((n, (list(lst._table[n].row_name), list(lst._table[n].column_name), lst._table[n]._data.copy()))
                for n in lst._tablenames)


def differs_from_snapshot(lst, snap):
    """None, or text: what the listing shows now against what it showed when the snapshot was taken."""
    import numpy as np
    if list(lst._tablenames) != list(snap):
        return 'tables %r, were %r' % (list(lst._tablenames), list(snap))
    for n in snap:
        t = lst._table[n]
        rn, cn, d = snap[n]
        if t.row_name != rn or t.column_name != cn:
            return 'row or column names of table %s changed' % n
        if not np.array_equal(t._data, d, equal_nan=True):
            k = np.argwhere(~((t._data == d) | ((t._data != t._data) & (d != d))))
            i, j = (int(x) for x in k[0])
            return 'table %s row %d column %d shows %r, showed %r' % (n, i, j, float(t._data[i, j]), float(d[i, j]))
    return None


def check_pair(ctxA, ctxB, rec):
    """Opens A, then B, both stay alive.  Every time of A is read (forwards and back) and every exposed cell
    compared with the reference, while B must go on showing what it showed (snapshot); then the same with
    the roles exchanged.  ctxB may be ctxA (the same file opened twice)."""
    viol = []
    case = {'kind': 'pair', 'file': ctxA.rel, 'other': ctxB.rel}
    same_file = ctxA.rel == ctxB.rel
    stage = ['open']
    opened = []
    try:
        with core.timelimit(CASE_SECONDS):
            try:
                for ctx in (ctxA, ctxB):
                    stage[0] = 'open %s' % ctx.rel
                    opened.append(open_listing(ctx.path, None, ctx.budget))
            except (ReadBudgetExceeded, core.CaseTimeout):
                raise
            except Exception as e:
                close_last()
                viol.append(('C05|pair|open-raises:%s|%s|with=%s' % (msgclass(e), ctxA.sim, ctxB.sim),
                             '%s: raised %s: %s' % (stage[0], type(e).__name__, str(e)[:200]), case))
                return viol
            roles = [(ctxA, opened[0], 'opened-first', ctxB, opened[1]), (ctxB, opened[1], 'opened-second', ctxA, opened[0])]
            for ctx, lst, role, octx, olst in roles:
                other = 'same-file' if same_file else octx.sim
                if lst.num_fulltimes != ctx.nsets:
                    viol.append(('C05|pair|result-times|%s|with=%s|%s' % (ctx.sim, other, role),
                                 '%s (%s, other listing %s): reader finds %d result times, %d are printed'
                                 % (ctx.rel, role, octx.rel, lst.num_fulltimes, ctx.nsets), case))
                    continue
                osnap = snapshot(olst)

                def on_table(ti, name, lt, how, ctx=ctx, role=role):
                    exp = ctx.exp[ti].get(name)
                    if exp is None or exp.width > lt.num_columns:
                        return None
                    r = compare_table(exp, exp.array(lt.num_columns), lt)
                    if rec is not None:
                        rec.bulk(lt._data.size, [core.h64((ctxA.rel, ctxB.rel, role, ti, name, how))],
                                 outcome='pair-cells-compared')
                        rec.count('pair_cells_compared', lt._data.size)
                    if r:
                        return (r[0] + '|' + name, 'time %d table %s: %s' % (ti, name, r[1]))
                    return None

                def on_arrival(ti, how, olst=olst, osnap=osnap):
                    d = differs_from_snapshot(olst, osnap)
                    if rec is not None:
                        rec.case((ctxA.rel, ctxB.rel, role, ti, how, 'other-unchanged'), outcome='pair-other-unchanged-compared')
                    if d:
                        return ('other-listing-changed', 'the other listing (%s), not touched, changed: %s' % (octx.rel, d))
                    return None

                r = walk(ctx, lst, on_table, ('backward',), stage, on_arrival)
                if r:
                    clause, _, table = r[0].partition('|')
                    if '@' in table:                       # route suffix was appended after the table name
                        table, _, hw = table.partition('@')
                        clause += '@' + hw
                    viol.append(('C05|pair|%s|%s|%s|with=%s|%s' % (clause, ctx.sim, table or '-', other, role),
                                 '%s (%s; other listing alive: %s): %s' % (ctx.rel, role, octx.rel, r[1]), case))
    except ReadBudgetExceeded as e:
        viol.append(('C05|pair|nontermination|%s|with=%s' % (ctxA.sim, ctxB.sim), '%s at %s' % (e, stage[0]), case))
    except core.CaseTimeout as e:
        viol.append(('C05|pair|timeout|%s|with=%s' % (ctxA.sim, ctxB.sim), '%s at %s' % (e, stage[0]), case))
    finally:
        for l in opened:
            close_listing(l)
        close_last()
    return viol


def check_base(ctx, rec, with_addressing=True, orders=('backward', 'negative')):
    """-> (violations [(sig, what, case)], library snapshot for the skip checks)."""
    import numpy as np
    viol = []
    snap = {}
    info = {'tables': None}
    revisit_reported = set()

    def sig(clause, table):
        return 'C05|base|%s|%s|%s' % (clause, ctx.sim, table)

    def on_open(lst):
        info['tables'] = list(lst._tablenames)

    def on_table(ti, name, lt, how='forward'):
        exp = ctx.exp[ti].get(name)
        if how != 'forward':
            # the same result time reached another way: the same numbers are printed there
            if exp is None or exp.width > lt.num_columns:
                return None
            r = compare_table(exp, exp.array(lt.num_columns), lt)
            if rec is not None:
                rec.bulk(lt._data.size, [core.h64((ctx.rel, ti, name, how))], outcome='cells-recompared-' + how)
                rec.count('cells_recompared_other_reading_order', lt._data.size)
            if r and (name, how) not in revisit_reported:
                revisit_reported.add((name, how))
                viol.append((sig(r[0] + '@' + how, name), '%s time %d table %s reached by %s: %s'
                             % (ctx.rel, ti, name, how, r[1]), {'kind': 'base', 'file': ctx.rel}))
            return None
        snap[(ti, name)] = (list(lt.row_name), list(lt.column_name), lt._data.copy())
        if exp is None:
            if rec is not None:
                rec.count('exposed_table_not_printed_at_time')
            return None
        if exp.width > lt.num_columns:
            viol.append((sig('columns', name), '%s time %d table %s: a row prints %d values, the table has %d columns'
                         % (ctx.rel, ti, name, exp.width, lt.num_columns), {'kind': 'base', 'file': ctx.rel}))
            return None
        arrA = exp.array(lt.num_columns)
        r = compare_table(exp, arrA, lt)
        ncell = lt._data.size
        if rec is not None:
            k0 = core.h64((ctx.rel, ti, name, 'cells'))
            rec.bulk(ncell, [(k0 + k) % 2 ** 64 for k in range(ncell)], outcome='cells-compared')
            rec.count('cells', ncell)
            rec.count('rows', lt.num_rows)
            rec.count('tables_at_times', 1)
        if r:
            viol.append((sig(r[0], name), '%s time %d table %s: %s' % (ctx.rel, ti, name, r[1]),
                         {'kind': 'base', 'file': ctx.rel}))
            return None
        if not with_addressing:
            return None
        a = addressing(lt)
        if rec is not None:
            k0 = core.h64((ctx.rel, ti, name, 'addr'))
            rec.bulk(ncell, [(k0 + k) % 2 ** 64 for k in range(ncell)], outcome='addressing-compared')
        if a:
            viol.append((sig('addressing:' + a[0], name), '%s time %d table %s: %s' % (ctx.rel, ti, name, a[1]),
                         {'kind': 'base', 'file': ctx.rel}))
        return None

    r = visit(ctx, ctx.path, None, on_table, on_open, orders=orders)
    if r:
        viol.append(('C05|base|%s|%s' % (r[0], ctx.sim), '%s: %s' % (ctx.rel, r[1]), {'kind': 'base', 'file': ctx.rel}))
    if rec is not None:
        for ti, d in enumerate(ctx.exp):
            for name in d:
                if (ti, name) not in snap:
                    rec.count('printed_table_not_exposed')
    return viol, snap, info['tables']


def same(a, b):
    return a == b or (a != a and b != b)


def addressing(lt):
    """table[i][col] == table[rowname][col] == table[col][i] == stored cell, for every i and col."""
    names = lt.row_name
    cols = lt.column_name
    if len(set(cols)) != len(cols):
        return ('duplicate-column-names', 'column names are not unique: %r' % (cols,))
    byname = {}
    for i, n in enumerate(names):
        byname.setdefault(n, []).append(i)
    colarr = {}
    for j, c in enumerate(cols):
        colarr[c] = lt[c]
        if len(colarr[c]) != len(names):
            return ('column-length', 'table[%r] has %d entries for %d rows' % (c, len(colarr[c]), len(names)))
    D = lt._data
    for i, n in enumerate(names):
        ri = lt[i]
        rn = lt[n]
        if ri is None or rn is None:
            return ('row-missing', 'table[%d] / table[%r] returned None' % (i, n))
        if ri.get('key') != n:
            return ('row-key', 'table[%d] has key %r, row_name[%d] is %r' % (i, ri.get('key'), i, n))
        alts = None
        for j, c in enumerate(cols):
            v = ri[c]
            if not same(v, colarr[c][i]):
                return ('index-vs-column', 'table[%d][%r] = %r but table[%r][%d] = %r' % (i, c, v, c, i, colarr[c][i]))
            if not same(v, D[i, j]):
                return ('index-vs-cell', 'table[%d][%r] = %r but the stored cell is %r' % (i, c, v, D[i, j]))
            if not same(v, rn[c]):
                if alts is None:
                    alts = [lt[k] for k in byname[n]]
                if not any(same(rn[c], a[c]) for a in alts):
                    return ('index-vs-name', 'table[%d][%r] = %r but table[%r][%r] = %r' % (i, c, v, n, c, rn[c]))
    return None


# ------------------------------------------------------------------------------------------ skip subsets

def subsets(names):
    out = []
    for k in range(1, len(names) + 1):
        out.extend(itertools.combinations(names, k))
    return out


def check_skip(ctx, snap, names, S, rec):
    import numpy as np
    viol = []
    case = {'kind': 'skip', 'file': ctx.rel, 'skip': list(S)}
    seen = set()

    def on_table(ti, name, lt, how='forward'):
        seen.add((ti, name))
        if name in S:
            return None
        b = snap.get((ti, name))
        if rec is not None:
            rec.case((ctx.rel, S, ti, name, how), nontrivial=True, outcome='skip-compared')
        if b is None:
            return ('extra-table', 'table %s is exposed at time %d only when %s is skipped' % (name, ti, ','.join(S)))
        if lt.row_name != b[0]:
            return ('row-keys', 'time %d table %s: row names differ from the unskipped open' % (ti, name))
        if lt.column_name != b[1]:
            return ('column-names', 'time %d table %s: column names differ from the unskipped open' % (ti, name))
        if not np.array_equal(lt._data, b[2], equal_nan=True):
            d = np.argwhere(~((lt._data == b[2]) | ((lt._data != lt._data) & (b[2] != b[2]))))
            i, j = (int(x) for x in d[0])
            return ('cell', 'time %d table %s row %d column %d: %r with the skip, %r without'
                    % (ti, name, i, j, float(lt._data[i, j]), float(b[2][i, j])))
        return None

    r = visit(ctx, ctx.path, S, on_table)
    if not r:
        for (ti, name) in sorted(snap):
            if name not in S and (ti, name) not in seen:
                r = ('missing-table', 'table %s (time %d) is no longer exposed' % (name, ti))
                break
    if r:
        viol.append(('C05|skip_tables|%s|%s' % (r[0], ctx.sim),
                     '%s skip_tables=%r: %s' % (ctx.rel, list(S), r[1]), case))
    return viol


# ------------------------------------------------------------------------------------------ perturbed variants

_TOK = re.compile(r'^([-+]?)(\d*)\.(\d*)(?:([EeDd])([-+ ])(\d\d)|([-+])(\d\d\d))?$')


def rewrite(text, gap, form):
    """text: a printed real; gap: number of blanks in front of it.  -> (new text, blanks taken) of width
    len(text) + blanks taken, or None when the form does not apply to this token."""
    m = _TOK.match(text)
    if not m:
        return None
    sign, ip, fp, letter, es, ed, es3, ed3 = m.groups()
    isE = letter is not None or es3 is not None
    w = len(text)
    nf = len(fp)
    if isE:
        expo = text[-4:]
        two = (ed if ed is not None else ed3[1:])
    if form == 'neg':
        if sign:
            return None
        if gap >= 1:
            return '-' + text, 1
        if ip == '0':
            return '-' + text[1:], 0
        return None
    if form == 'neglz':
        if sign or ip != '0' or gap < 1:
            return None
        return '-' + text[1:], 0
    if form == 'zero':
        core_ = '.' + '0' * nf + (((letter or 'E') + '+00') if isE else '')
        if len(core_) > w:
            return None
        new = core_ if len(core_) == w else ('0' + core_).rjust(w)
        return (new, 0) if new != text else None
    if form in ('exp3neg', 'exp3pos'):
        if not isE:
            return None
        new = text[:-4] + ('-' if form == 'exp3neg' else '+') + '1' + two
        return (new, 0) if new != text else None
    if form == 'widest':
        take = 0
        if sign:
            head = '-' + '9' * len(ip)
        elif gap >= 1:
            head = '-' + '9' * len(ip)
            take = 1
        elif ip == '0' and isE:
            head = '-'
        elif not isE and len(ip) >= 2:
            head = '-' + '9' * (len(ip) - 1)
        else:
            head = '9' * len(ip)
        new = head + '.' + '9' * nf + (('-1' + two) if isE else '')
        if len(new) != w + take:
            return None
        return (new, take) if new != text else None
    return None


def column_cells(ctx, table, col, scope):
    """[(ti, row position, Row)] of the cells of real column col of the named table that the scope selects."""
    cells = []
    n = ctx.nsets
    for ti in range(n):
        exp = ctx.exp[ti].get(table)
        if exp is None:
            continue
        rows = [(p, r) for p, r in enumerate(exp.t.rows) if col < len(r.toks)]
        if not rows:
            continue
        if scope == 'all':
            sel = rows
        elif scope == 'later':
            sel = rows if ti > 0 else []
        elif scope == 'first0':
            sel = rows[:1] if ti == 0 else []
        elif scope == 'lastlast':
            sel = rows[-1:] if ti == n - 1 else []
        else:
            raise core.HarnessError('scope %r' % scope)
        cells.extend((ti, p, r) for p, r in sel)
    return cells


def make_variant(ctx, table, col, form, scope):
    """-> (new lines, {(ti, row position): new value}, counts)"""
    lines = list(ctx.lines)
    changed = {}
    amb = 0
    inapplicable = 0
    per_line = {}
    for ti, p, r in column_cells(ctx, table, col, scope):
        per_line.setdefault(r.lineno, []).append((ti, p, r))
    for lineno, lst in per_line.items():
        ti, p, r = lst[0]
        old = ctx.lines[lineno]
        s, e = r.toks[col]
        prev_end = r.toks[col - 1][1] if col > 0 else None
        if prev_end is None:
            j = s
            while j > 0 and old[j - 1] == ' ':
                j -= 1
            gap = s - j
            # the blank directly after a name or an index is the only separator: it may still be taken
        else:
            gap = s - prev_end
        rw = rewrite(old[s:e], gap, form)
        if rw is None:
            inapplicable += 1
            continue
        newtext, take = rw
        new = old[:s - take] + newtext + old[e:]
        if len(new) != len(old):
            raise core.HarnessError('rewrite changed the width of line %d' % lineno)
        # the rewritten line must still read, by the number grammar alone, as the same row with one new value
        toks2 = listtok.candidate(new)
        ok = toks2 is not None and len(toks2) == len(r.toks)
        if ok:
            for k, (a, b) in enumerate(toks2):
                if k == col:
                    lead = len(newtext) - len(newtext.lstrip(' '))
                    ok = ok and (a, b) == (s - take + lead, e)
                else:
                    ok = ok and (a, b) == r.toks[k]
        val = listtok.token_value(newtext) if ok else None
        if not ok or val is None:
            amb += 1
            continue
        lines[lineno] = new
        for (ti2, p2, r2) in lst:
            changed[(ti2, p2)] = val
    return lines, changed, {'ambiguous_cells': amb, 'inapplicable_cells': inapplicable}


def check_variant(ctx, table, col, form, scope, rec):
    """One perturbed file.  -> (violations, outcome)"""
    lines, changed, counts = make_variant(ctx, table, col, form, scope)
    if rec is not None:
        for k, v in counts.items():
            if v:
                rec.count(k, v)
    if not changed:
        return [], 'no-applicable-cell'
    path = ctx.scratch_path()
    listtok.write_lines(path, lines)
    case = {'kind': 'pert', 'file': ctx.rel, 'table': table, 'col': col, 'form': form, 'scope': scope}
    patched = {}

    def on_table(ti, name, lt, how='forward'):
        exp = ctx.exp[ti].get(name)
        if exp is None:
            return None
        if exp.width > lt.num_columns:
            return ('columns', 'time %d table %s: a row prints %d values, the table has %d columns'
                    % (ti, name, exp.width, lt.num_columns))
        arrA = exp.array(lt.num_columns)
        mine = []
        if name == table:
            mine = [(p, v) for (t2, p), v in changed.items() if t2 == ti]
            if mine:
                arrA = arrA.copy()
                jcol = exp.nextra + col
                for p, v in mine:
                    arrA[p, jcol] = v
        r = compare_table(exp, arrA, lt)
        if r:
            where = 'other'
            if r[0] == 'cell' and name == table:
                p, j = r[2]
                if j == exp.nextra + col and (ti, p) in changed:
                    where = 'rewritten'
                elif j == exp.nextra + col:
                    where = 'same-column'
                elif (ti, p) in changed:
                    where = 'same-row'
            elif r[0] == 'cell':
                where = 'other-table'
            clause = r[0] + (':' + where if r[0] == 'cell' else '')
            return (clause, 'time %d table %s: %s' % (ti, name, r[1]))
        return None

    r = visit(ctx, path, None, on_table)
    viol = []
    if r:
        exp0 = next((d[table] for d in ctx.exp if table in d), None)
        sigv = 'C05|perturbed|%s|%s|%s|%s' % (r[0], ctx.sim, table, form)
        what = ('%s, column %d of table %s rewritten as %s (scope %s, %d cells, e.g. line %s): %s'
                % (ctx.rel, col, table, form, scope, len(changed), example(ctx, lines), r[1]))
        viol.append((sigv, what, case))
        return viol, r[0].split(':')[0].split('@')[0]
    return viol, 'agrees'


def example(ctx, lines):
    for i, (a, b) in enumerate(zip(ctx.lines, lines)):
        if a != b:
            d = next(k for k in range(len(a)) if a[k] != b[k])
            lo = max(0, d - 14)
            return '%d %r -> %r' % (i + 1, a[lo:d + 16], b[lo:d + 16])
    return '-'


def real_columns(ctx, table):
    n = 0
    for d in ctx.exp:
        exp = d.get(table)
        if exp is not None:
            n = max(n, max([len(r.toks) for r in exp.t.rows] or [0]))
    return n


def table_names(ctx):
    out = []
    for d in ctx.exp:
        for name in d:
            if name not in out:
                out.append(name)
    return out


# ------------------------------------------------------------------------------------------ order independence

PRIMERS = ['fresh', 'incon', 't2data', 'mulgrid', 'listing', 'all']
CHILD_MARK = 'C05CHILD '
CHILD_SECONDS = 900


def primer_files(kind, rel):
    """The files read by the other users of the shared fixed-format readers before the listing is opened."""
    tests = os.path.join(core.REPO, 'tests')
    out = []
    if kind in ('incon', 'all'):
        root = os.path.join(tests, 'incon')
        for sim in sorted(os.listdir(root)):
            for case in sorted(os.listdir(os.path.join(root, sim))):
                d = os.path.join(root, sim, case)
                for f in sorted(os.listdir(d)):
                    if not f.endswith('.npy') and not f.endswith('~'):
                        out.append(('incon', os.path.join(d, f)))
    if kind in ('t2data', 'all'):
        out.append(('t2data', os.path.join(tests, 'data', 'AUTOUGH2', '1', 'case1.dat')))
    if kind in ('mulgrid', 'all'):
        out.append(('mulgrid', os.path.join(tests, 'mulgrid', 'g1.dat')))
    if kind in ('listing', 'all'):
        sim = rel.split('/')[0]
        others = sorted((size, r) for r, size in listing_files() if r.split('/')[0] != sim)
        out.append(('listing', os.path.join(listing_root(), others[0][1])))
    return out


def run_primers(kind, rel):
    """-> [error texts].  What the primers themselves do is other properties' business; an exception here
    is only noted."""
    errors = []
    for what, path in primer_files(kind, rel):
        try:
            with core.timelimit(120), contextlib.redirect_stdout(io.StringIO()):
                if what == 'incon':
                    import t2incons
                    t2incons.t2incon(path)
                elif what == 't2data':
                    import t2data
                    from fixed_format_file import fortran_read_function
                    t2data.t2data(path)
                    t2data.t2data(path, read_function=fortran_read_function)
                elif what == 'mulgrid':
                    import mulgrids
                    from fixed_format_file import fortran_read_function
                    mulgrids.mulgrid(path)
                    mulgrids.mulgrid(path, read_function=fortran_read_function)
                else:
                    import t2listing
                    lst = t2listing.t2listing(path)
                    for i in range(lst.num_fulltimes):
                        lst.index = i
                    lst.close()
        except Exception as e:
            errors.append('%s %s: %s: %s' % (what, os.path.relpath(path, core.REPO), type(e).__name__, str(e)[:100]))
    return errors


def child_main():
    """Runs in a fresh interpreter: primers first, then the listing is opened for the first time in this
    process, read forwards and back, and compared with the reference."""
    import json
    import sys
    rel, kind = sys.argv[1], sys.argv[2]
    core.load_library()
    errors = run_primers(kind, rel)
    ctx = Ctx(rel)
    viol, snap, names = check_base(ctx, None, with_addressing=False, orders=('backward',))
    cells = int(sum(v[2].size for v in snap.values()))
    out = {'viol': [(sg, w) for sg, w, c in viol], 'cells': cells, 'tables_at_times': len(snap),
           'primer_errors': errors}
    sys.stdout.write(CHILD_MARK + json.dumps(out) + '\n')


def check_primed(rel, kind, rec):
    """One fresh process: primer activity 'kind', then the listing.  -> violations"""
    import json
    import subprocess
    import sys
    case = {'kind': 'primed', 'file': rel, 'primer': kind}
    sim = rel.split('/')[0]
    try:
        r = subprocess.run([sys.executable, '-c', 'import checks.c05 as m; m.child_main()', rel, kind],
                           capture_output=True, text=True, timeout=CHILD_SECONDS)
    except subprocess.TimeoutExpired:
        return [('C05|base|timeout|%s|after=%s' % (sim, kind), '%s read after primer %s: no result in %d s'
                 % (rel, kind, CHILD_SECONDS), case)]
    line = next((l for l in r.stdout.splitlines() if l.startswith(CHILD_MARK)), None)
    if line is None:
        raise core.HarnessError('C05 child for %s/%s gave no result (exit %s):\n%s' % (rel, kind, r.returncode, r.stderr[-1500:]))
    out = json.loads(line[len(CHILD_MARK):])
    if rec is not None:
        k0 = core.h64((rel, 'after', kind))
        rec.bulk(out['cells'], [k0], outcome='cells-compared-after-' + kind)
        rec.count('cells_compared_after_primers', out['cells'])
        rec.count('fresh_processes', 1)
        if out['primer_errors']:
            rec.count('primer_raised', len(out['primer_errors']))
            if len(rec.notes) < 3:
                rec.notes.append('primer raised (not judged here): %s' % out['primer_errors'][0])
    return [(sg + '|after=' + kind, '%s opened after primer activity "%s" in a fresh process: %s' % (rel, kind, w), case)
            for sg, w in out['viol']]


# ------------------------------------------------------------------------------------------ one addressing mode alone

MODES = ['column', 'index', 'name', 'dataframe']
_pandas = []


def have_pandas():
    if not _pandas:
        try:
            import pandas                                   # noqa: F401
            _pandas.append(True)
        except Exception:
            _pandas.append(False)
    return _pandas[0]


def _same_arrays(a, b):
    import numpy as np
    a = np.asarray(a, dtype=float)
    b = np.asarray(b, dtype=float)
    return a.shape == b.shape and bool(((a == b) | ((a != a) & (b != b))).all())


def read_by_mode(lt, mode):
    """Reads the whole table through ONE way of addressing it (no other way is touched) and compares with the
    stored cells, which the caller compares with the printed numbers.  -> None or (clause, text)"""
    import numpy as np
    names = lt.row_name
    cols = lt.column_name
    D = lt._data
    if mode == 'column':
        for j, c in enumerate(cols):
            a = lt[c]
            if a is None or len(a) != len(names):
                return ('column-length', 'table[%r] has %s entries for %d rows' % (c, None if a is None else len(a), len(names)))
            if not _same_arrays(a, D[:, j]):
                i = next(k for k in range(len(names)) if not same(a[k], D[k, j]))
                return ('column-vs-cell', 'table[%r][%d] = %r but the stored cell is %r' % (c, i, float(a[i]), float(D[i, j])))
        return None
    if mode == 'index':
        for i, n in enumerate(names):
            ri = lt[i]
            if ri is None:
                return ('row-missing', 'table[%d] returned None' % i)
            if ri.get('key') != n:
                return ('row-key', 'table[%d] has key %r, row_name[%d] is %r' % (i, ri.get('key'), i, n))
            v = [ri[c] for c in cols]
            if not _same_arrays(v, D[i]):
                j = next(k for k in range(len(cols)) if not same(v[k], D[i, k]))
                return ('index-vs-cell', 'table[%d][%r] = %r but the stored cell is %r' % (i, cols[j], v[j], float(D[i, j])))
        return None
    if mode == 'name':
        byname = {}
        for i, n in enumerate(names):
            byname.setdefault(n, []).append(i)
        for i, n in enumerate(names):
            rn = lt[n]
            if rn is None:
                return ('row-missing', 'table[%r] returned None' % (n,))
            v = [rn[c] for c in cols]
            if not any(_same_arrays(v, D[k]) for k in ([i] + byname[n])):
                j = next(k for k in range(len(cols)) if not same(v[k], D[i, k]))
                return ('name-vs-cell', 'table[%r][%r] = %r but the stored cell (row %d) is %r' % (n, cols[j], v[j], i, float(D[i, j])))
        return None
    if mode == 'dataframe':
        df = lt.DataFrame
        if list(df['row']) != list(names):
            return ('dataframe-rows', 'the row column of the DataFrame differs from row_name')
        for j, c in enumerate(cols):
            if not _same_arrays(df[c].values, D[:, j]):
                return ('dataframe-vs-cell', 'DataFrame column %r differs from the stored cells' % (c,))
        return None
    raise core.HarnessError('mode %r' % mode)


def check_mode_alone(ctx, mode, rec):
    """A fresh listing object on which only ONE addressing mode is ever used: at every arrival of the reading order
    (forwards, then prev() back) the stored cells are compared with the print and the table is read completely
    through that mode.  -> violations"""
    viol = []
    case = {'kind': 'mode', 'file': ctx.rel, 'mode': mode}
    reported = set()

    def on_table(ti, name, lt, how='forward'):
        exp = ctx.exp[ti].get(name)
        if exp is not None and exp.width <= lt.num_columns:
            r = compare_table(exp, exp.array(lt.num_columns), lt)
            if r:
                return (r[0] + '|' + name, 'time %d table %s: %s' % (ti, name, r[1]))
        a = read_by_mode(lt, mode)
        if rec is not None:
            rec.bulk(lt._data.size, [core.h64((ctx.rel, mode, ti, name, how))], outcome='read-by-%s-alone' % mode)
            rec.count('cells_read_by_one_mode_alone', lt._data.size)
        if a and (name, a[0]) not in reported:
            reported.add((name, a[0]))
            viol.append(('C05|base|addressing:%s%s|%s|%s|mode-alone' % (a[0], '' if how == 'forward' else '@' + how, ctx.sim, name),
                         '%s time %d table %s (only table[%s] used on this object, reached by %s): %s'
                         % (ctx.rel, ti, name, mode, how, a[1]), case))
        return None

    r = visit(ctx, ctx.path, None, on_table)
    if r:
        clause, _, table = r[0].partition('|')
        if '@' in table:
            table, _, hw = table.partition('@')
            clause += '@' + hw
        viol.append(('C05|base|%s|%s|%s|mode-alone' % (clause, ctx.sim, table or '-'),
                     '%s (only table[%s] used): %s' % (ctx.rel, mode, r[1]), case))
    return viol


# ------------------------------------------------------------------------------------------ history: A used, then every other listing

HIST_MARK = 'C05HIST '


def quiet_nav(lst, n, back=True):
    with contextlib.redirect_stdout(io.StringIO()):
        for i in range(1, n):
            lst.index = i
        if back:
            for i in range(n - 2, -1, -1):
                lst.prev()
            if n > 1:
                lst.last()


def hist_route(n):
    """Reading order of a listing checked after another one was used: as it stands, index = 0 again (re-read),
    index = 1..n-1, prev() back to the first time."""
    steps = [('as-is', 'open', None, 0), ('reread', 'index', 0, 0)] + [('forward', 'index', ti, ti) for ti in range(1, n)]
    steps += [('backward', 'prev', None, ti) for ti in range(n - 2, -1, -1)]
    return steps


def hist_walk(ctx, lst, out, tag):
    """Every exposed table of lst at every arrival of hist_route against the print, the columns read by name too.
    -> None or (clause, table, text)"""
    for how, action, arg, ti in hist_route(ctx.nsets):
        stage = '%s %s%s -> time %d' % (how, action, '' if arg is None else ' = %d' % arg, ti)
        if action != 'open':
            try:
                with contextlib.redirect_stdout(io.StringIO()):
                    if action == 'index':
                        lst.index = arg
                    else:
                        lst.prev()
            except (ReadBudgetExceeded, core.CaseTimeout):
                raise
            except Exception as e:
                return ('step-raises:' + msgclass(e), '-', '%s raised %s: %s' % (stage, type(e).__name__, str(e)[:200]))
        sfx = '' if how == 'forward' else '@' + how
        for name in list(lst._tablenames):
            lt = lst._table[name]
            exp = ctx.exp[ti].get(name)
            if exp is None or exp.width > lt.num_columns:
                continue
            r = compare_table(exp, exp.array(lt.num_columns), lt)
            out['cells'] += int(lt._data.size)
            out['tables_at_times'] += 1
            if r:
                return (r[0] + sfx, name, '%s: time %d table %s: %s' % (stage, ti, name, r[1]))
            a = read_by_mode(lt, 'column')
            if a:
                return ('addressing:' + a[0] + sfx, name, '%s: time %d table %s: %s' % (stage, ti, name, a[1]))
    return None


def hist_child_main():
    """Runs in a fresh interpreter.  argv: A.  Every shipped listing B is opened with default arguments (all stay
    alive), then A is opened and moved through all its result times (forwards, prev() back, last()); then every
    B opened before is read completely against the print, and every B is opened once more ('opened later'): it
    must expose the tables the earlier object exposes and show the printed numbers."""
    import json
    import sys
    relA = sys.argv[1]
    core.load_library()
    out = {'viol': [], 'cells': 0, 'tables_at_times': 0, 'pairs': 0, 'listings_opened': 0}
    files = [rel for rel, size in listing_files()]
    ctxs = dict((rel, Ctx(rel)) for rel in files)
    simA = relA.split('/')[0]

    def add(role, rel, clause, table, text):
        out['viol'].append(('C05|history|%s|%s|%s|after=%s|%s' % (clause, ctxs[rel].sim, table, simA, role),
                            '%s (%s; before it, in this process: %s moved through all its result times, then the shipped listings that sort before this one read completely): %s' % (rel, role, relA, text),
                            {'kind': 'hist', 'file': relA}))

    before = {}
    try:
        with core.timelimit(CHILD_SECONDS - 60):
            for rel in files:
                try:
                    before[rel] = open_listing(ctxs[rel].path, None, ctxs[rel].budget)
                    out['listings_opened'] += 1
                except (ReadBudgetExceeded, core.CaseTimeout):
                    raise
                except Exception as e:
                    add('opened-before', rel, 'open-raises:' + msgclass(e), '-', 'opening raised %s: %s' % (type(e).__name__, str(e)[:200]))
            names0 = dict((rel, list(l._tablenames)) for rel, l in before.items())
            try:
                A = open_listing(ctxs[relA].path, None, ctxs[relA].budget)
                out['listings_opened'] += 1
                quiet_nav(A, A.num_fulltimes)
            except (ReadBudgetExceeded, core.CaseTimeout):
                raise
            except Exception as e:
                add('first-listing', relA, 'step-raises:' + msgclass(e), '-', 'raised %s: %s' % (type(e).__name__, str(e)[:200]))
                A = None
            for rel in files:
                ctx = ctxs[rel]
                out['pairs'] += 1
                lst = before.get(rel)
                if lst is not None:
                    if list(lst._tablenames) != names0[rel]:
                        add('opened-before', rel, 'exposed-tables-changed', '-', 'exposes %r, exposed %r' % (list(lst._tablenames), names0[rel]))
                    elif lst.num_fulltimes != ctx.nsets:
                        add('opened-before', rel, 'result-times', '-', 'reader finds %d result times, %d are printed' % (lst.num_fulltimes, ctx.nsets))
                    else:
                        r = hist_walk(ctx, lst, out, 'opened-before')
                        if r:
                            add('opened-before', rel, r[0], r[1], r[2])
                try:
                    later = open_listing(ctx.path, None, ctx.budget)
                    out['listings_opened'] += 1
                except (ReadBudgetExceeded, core.CaseTimeout):
                    raise
                except Exception as e:
                    add('opened-later', rel, 'open-raises:' + msgclass(e), '-', 'opening raised %s: %s' % (type(e).__name__, str(e)[:200]))
                    continue
                try:
                    if rel in names0 and list(later._tablenames) != names0[rel]:
                        add('opened-later', rel, 'exposed-tables-differ', '-', 'exposes %r; the object opened before %s was used exposes %r'
                            % (list(later._tablenames), relA, names0[rel]))
                    elif later.num_fulltimes != ctx.nsets:
                        add('opened-later', rel, 'result-times', '-', 'reader finds %d result times, %d are printed' % (later.num_fulltimes, ctx.nsets))
                    else:
                        r = hist_walk(ctx, later, out, 'opened-later')
                        if r:
                            add('opened-later', rel, r[0], r[1], r[2])
                finally:
                    close_listing(later)
    except ReadBudgetExceeded as e:
        out['viol'].append(('C05|history|nontermination|after=%s' % simA, str(e), {'kind': 'hist', 'file': relA}))
    except core.CaseTimeout as e:
        out['viol'].append(('C05|history|timeout|after=%s' % simA, str(e), {'kind': 'hist', 'file': relA}))
    for l in before.values():
        close_listing(l)
    sys.stdout.write(HIST_MARK + json.dumps(out) + '\n')


def check_hist(relA, rec):
    import json
    import subprocess
    import sys
    case = {'kind': 'hist', 'file': relA}
    try:
        r = subprocess.run([sys.executable, '-c', 'import checks.c05 as m; m.hist_child_main()', relA],
                           capture_output=True, text=True, timeout=CHILD_SECONDS)
    except subprocess.TimeoutExpired:
        return [('C05|history|timeout|after=%s' % relA.split('/')[0], 'no result in %d s after %s' % (CHILD_SECONDS, relA), case)]
    line = next((l for l in r.stdout.splitlines() if l.startswith(HIST_MARK)), None)
    if line is None:
        raise core.HarnessError('C05 history child for %s gave no result (exit %s):\n%s' % (relA, r.returncode, r.stderr[-1500:]))
    out = json.loads(line[len(HIST_MARK):])
    if rec is not None:
        rec.bulk(out['cells'], [core.h64((relA, 'history', k)) for k in range(out['pairs'])], outcome='cells-compared-after-another-listing')
        rec.count('history_cells_compared', out['cells'])
        rec.count('history_ordered_pairs', out['pairs'])
        rec.count('history_listings_opened', out['listings_opened'])
        rec.count('fresh_processes', 1)
    seen = set()
    res = []
    for sg, w, c in out['viol']:
        if sg not in seen:
            seen.add(sg)
            res.append((sg, w, case))
    return res



# ------------------------------------------------------------------------------------------ check interface

def representatives(shape):
    """One file per simulator directory for the two-listings dimension: most result times (up to 2), then most
    tables (up to 2), then smallest.  shape: {rel: (size, result times, tables)}"""
    best = {}
    for rel in sorted(shape):
        size, nt, ntab = shape[rel]
        k = (-min(nt, 2), -min(ntab, 2), size, rel)
        sim = rel.split('/')[0]
        if sim not in best or k < best[sim][0]:
            best[sim] = (k, rel)
    return [best[sim][1] for sim in sorted(best)]


def pair_units(tier, shape):
    reps = representatives(shape)
    files = list(reps)
    if tier != 'quick':
        files = sorted(set(reps) | set(rel for rel in shape if shape[rel][0] < QUICK_SIZE))
    return [('pair', a, b) for a in files for b in files]


def primed_units(tier, shape, ragged):
    """quick: the files with tables whose rows do not all print the same number of values (blank trailing cells)
    and the representatives; thorough: every file.  Each x every primer, each in a fresh process."""
    files = sorted(shape) if tier != 'quick' else sorted(set(ragged) | set(representatives(shape)))
    return [('primed', rel, kind) for rel in files for kind in PRIMERS]


def units(tier):
    us = []
    shape = {}
    ragged = []
    for rel, size in listing_files():
        us.append(('base', rel))
        sets = listtok.scan(listtok.read_lines(os.path.join(listing_root(), rel)))
        shape[rel] = (size, len(sets), max([len(rs.tables) for rs in sets] or [0]))
        ncol, widths = {}, {}
        for rs in sets:
            for t in rs.tables:
                ncol[t.name] = max([ncol.get(t.name, 0)] + [len(r.toks) for r in t.rows])
                widths.setdefault(t.name, set()).update(len(r.toks) for r in t.rows)
        if any(len(w) > 1 for w in widths.values()):
            ragged.append(rel)
        for name in ncol:
            # quick: the small files completely; of the large files only the tables whose rows do not all print
            # the same number of values (the tables in which 'blank trailing cells read as zero' is at stake)
            if tier == 'quick' and size >= QUICK_SIZE and len(widths[name]) < 2:
                continue
            for col in range(ncol[name]):
                us.append(('pert', rel, name, col))
    hist = [('hist', rel) for rel in sorted(shape)]
    return us + pair_units(tier, shape) + primed_units(tier, shape, ragged) + hist


def scopes_of(tier, ctx):
    sc = ['all', 'lastlast'] if tier == 'quick' else list(SCOPES)
    if ctx.nsets < 2 and 'later' in sc:
        sc.remove('later')
    return sc


def run_unit(unit, tier, rec):
    core.load_library()
    kind, rel = unit[0], unit[1]
    if kind == 'primed':
        for s, w, c in check_primed(rel, unit[2], rec):
            rec.violation(s, w, c)
        return
    if kind == 'hist':
        for s, w, c in check_hist(rel, rec):
            rec.violation(s, w, c)
        return
    ctx = Ctx(rel)
    if kind == 'pair':
        other = ctx if unit[2] == rel else Ctx(unit[2])
        for s, w, c in check_pair(ctx, other, rec):
            rec.violation(s, w, c)
        rec.count('listing_pairs', 1)
        return
    if kind == 'base':
        viol, snap, names = check_base(ctx, rec)
        for s, w, c in viol:
            rec.violation(s, w, c)
        rec.count('files', 1)
        rec.count('result_times', ctx.nsets)
        if names is None:
            return
        rec.sample({'file': rel, 'simulator': ctx.sim, 'result_times': ctx.nsets, 'tables': names,
                    'cells_at_time_0': int(sum(snap[(0, n)][2].size for n in names if (0, n) in snap))})
        for mode in MODES:
            if mode == 'dataframe' and not have_pandas():
                rec.count('dataframe_view_not_available_no_pandas', 1)
                continue
            for s, w, c in check_mode_alone(ctx, mode, rec):
                rec.violation(s, w, c)
            rec.count('single_mode_objects', 1)
        for S in subsets(names):
            for s, w, c in check_skip(ctx, snap, names, S, rec):
                rec.violation(s, w, c)
            rec.count('skip_subsets', 1)
        return
    table, col = unit[2], unit[3]
    # the unperturbed file must agree first: a base disagreement is reported by the base unit, not 24 times here
    bviol, snap, names = check_base(ctx, None, with_addressing=False, orders=())
    if bviol or names is None or table not in names:
        rec.count('perturbation_not_run_base_disagrees_or_table_not_exposed', 1)
        rec.case(('pert-skipped', rel, table, col), nontrivial=False, outcome='not-run')
        return
    first = True
    for form in FORMS:
        for scope in scopes_of(tier, ctx):
            viol, outcome = check_variant(ctx, table, col, form, scope, rec)
            rec.case((rel, table, col, form, scope), nontrivial=outcome != 'no-applicable-cell', outcome='variant-' + outcome)
            for s, w, c in viol:
                rec.violation(s, w, c)
            if first and outcome == 'agrees' and col == 0:
                first = False
                rec.sample({'file': rel, 'table': table, 'column': col, 'form': form, 'scope': scope,
                            'outcome': outcome})
    try:
        os.remove(ctx.scratch_path())
    except OSError:
        pass


def replay(case):
    core.load_library()
    if case['kind'] == 'primed':
        return [(s, w) for s, w, c in check_primed(case['file'], case['primer'], None)]
    if case['kind'] == 'hist':
        return [(s, w) for s, w, c in check_hist(case['file'], None)]
    ctx = Ctx(case['file'])
    if case['kind'] == 'mode':
        return [(s, w) for s, w, c in check_mode_alone(ctx, case['mode'], None)]
    if case['kind'] == 'pair':
        other = ctx if case['other'] == case['file'] else Ctx(case['other'])
        return [(s, w) for s, w, c in check_pair(ctx, other, None)]
    viol, snap, names = check_base(ctx, None)
    if case['kind'] == 'base':
        return [(s, w) for s, w, c in viol]
    if names is None:
        return [(s, w) for s, w, c in viol]
    if case['kind'] == 'skip':
        return [(s, w) for s, w, c in check_skip(ctx, snap, names, tuple(case['skip']), None)]
    v, outcome = check_variant(ctx, case['table'], case['col'], case['form'], case['scope'], None)
    return [(s, w) for s, w, c in v]
