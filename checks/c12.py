"""C12 - point and line location in a geometry agree with exhaustive search.

Engine E3 (lattice).  For every geometry of a small family (a 3x3 rectangular grid whose spacings span
1:1000, the shipped irregular geometries g7, g5, g1; each also refined in one corner and rotated by 30
degrees) the check enumerates

* points: a 41x41 lattice over the bounding box enlarged by 10 %, shifted by an irrational offset, plus a
  3x3 lattice over the enlarged bounding box of every single column (so that columns much smaller than the
  lattice step are hit), minus points within 1e-6 x (longest side of the column) of any column edge;
  each point is looked up with no aid, with every search aid singly and with every pair of aids;
* vertex-aligned points: for every node, the points whose y is exactly the node's y, one ulp below and one ulp
  above it, at three x offsets left and right of the node (the inputs on which the half-open crossing rule of
  in_polygon is decided; E3's 'limit and its floating-point neighbours'), same exclusion; aids singly;
* 3-D points: per column one interior point x the elevations {middle of every layer, just below its top,
  just above its bottom, just below / above the column surface, half way between the surface and the next
  layer boundary above it, far above, just below and far below the bottom}, with and without a quadtree;
* lines: every ordered pair of points of a 9x9 (quick: 7x7) shifted lattice over the enlarged bounding box,
  minus lines with an end point within tolerance of an edge or passing within tolerance of a node (this
  also removes every line running along an edge).

* histories (both tiers): on ONE geometry object (rect, g7; thorough also g5) a query pass (every second row and
  column of the point lattice x every single aid with quadtrees built for that stage, the 3-D set of every column,
  every ordered pair of a 5x5 line lattice) is followed by an in-place transform and another pass, for the sequences
  query, rotate(30), translate, rotate(-75) and query, translate, rotate(90); the exact reference is recomputed from
  the transformed node coordinates at every stage; signatures carry '|after=query+rotate...'.  A quadtree built
  before a transform is stale by contract and is never used after it.

* edit histories (both tiers): on ONE object of rect, g7 (thorough: g5), for every edit in {refine([target]),
  delete_column(target) + index set-up, reduce(all but target and its neighbours), split_column(target)} x target in
  {corner, centre, right-hand side}: a query pass that ends in the target column (lines, a coarse point lattice, the
  3x3 lattices and the 3-D sets of the target's neighbours and finally of the target), the edit, then the SAME
  items in reverse order (the removed / reshaped target's points and 3-D positions first), then the lattices and
  3-D sets of every column of the edited geometry that overlaps the old target; reference, bounds and quadtrees are
  rebuilt from the edited object; signatures carry '|after=query+<edit>'.
* surface routes (3-D part, both tiers): the same final column surfaces reached by {assignment on a fresh geometry |
  low surfaces read from a file | lowered (with set_column_num_layers) | lowered then refine_layers() | lowered then
  copy_layers_from()} followed by raising them with plain assignment col.surface = ... and the index set-up; then
  the full elevation set of every column; signatures carry '|route=<route>'.

* order / argument units (both tiers; added after seeds C12-k, C12-l): on ONE object of rect+t, rect_rr, rectnc_r, bulge+t,
  g7+t (thorough: g7_rr; '+t' = translated by (1234.5, -678.25, 7.5)) the 20 query modes {plain | bounds = the boundary
  polygon as a list of arrays, a tuple of arrays, an (n,2) float ndarray, an enclosing quadrilateral as an int ndarray |
  bounds = the bounding rectangle as a list of arrays, a tuple of tuples, a (2,2) float ndarray, an enclosing (2,2) int
  ndarray | guess (true / nearest, every neighbour, farthest) | columns (neighbourhood, x-half) | quadtree | 3-D: plain,
  quadtree, blockmap renaming a third of the blocks to new names, blockmap permuting another third, quadtree with each
  map | primers: block_name(layer, column, map) over all blocks, t2grid().fromgeo(geo, blockmap=map)} are run along a
  closed circuit in which every mode directly follows every mode (itself included) exactly once - 400 passes per
  geometry, cut into 4-24 stretches each starting from a fresh object.  Every pass uses the SAME argument objects
  (made once per object) and the same items (2-D: every 4th / 5th row and column of the point lattice + the per-column
  lattices; 3-D: the elevation set of every column, of ~12 columns when there are more than 20); every answer is
  compared with the exact reference (with a block mapping: the mapped name of the reference block), and every
  argument (position array, bounds, guess column, column list, quadtree, block mapping) must show after the call what
  it showed when it was made.  Signatures carry '|after=<previous mode>' / '|argument-modified|...|arg=<kind>'.

* vertical origins (both tiers): the 3-D set is also run on the rect grid with its top at 25, 10 and -7.5 (geometries
  'rectz@<top>'), where column surfaces of exactly 0.0 and -0.0 lie strictly inside a layer, on a layer boundary and
  above the model top; every surface route is also run on rect43 with those tops and on the file geometries
  translated vertically ('g7@120.0', 'g7@-50.0', thorough 'g5@-120.0', 'g5@-250.0'), two columns in five then
  getting the surface 0.0 / -0.0.

* further geometries (both tiers, all unit kinds): 'rectnc' / 'rectnc_r' - a 3x3 grid with an interior node dragged
  into the diagonally opposite column, which becomes a non-convex (arrowhead) quadrilateral (also rotated by 30
  degrees); 'bulge' - a 6x2 grid whose outer sides carry convex corners turning by 0.1, 0.2, 0.4, 0.7 and 1.6 degrees.
* near-node points (every geometry, with the vertex-aligned points): for every node and every column at it, the
  points node + t x (vertex mean of the column - node), t = 1e-3 and 1e-2, with every single aid - just inside the
  column at its corner, where the boundary polygon used as 'bounds' differs most from the true outline.

Oracle = the property statement, evaluated with the exact reference geometry ref/geo_c12.py (integer
arithmetic on the node coordinates; nothing under test is called by it).
"""
import contextlib
import io
import math
import os

from mc import core
from ref import geo_c12 as G

ID = 'C12'
LEVEL = 'exploration'
ENGINE = 'E3'
EXHAUSTIVE = True
RULE = ('per geometry: every point of the shifted 41x41 lattice over the enlarged bounding box and of the 3x3 '
        'lattice of every column, not within tolerance of an edge, x every search-aid combination (none; guess = '
        'every column (<= 120 columns) or the true/nearest column, each of its neighbours, the farthest column; bounds '
        '= boundary polygon, bounding rectangle; columns = true column + neighbours, the x-half and the y-half of the '
        'columns containing it; quadtree over all columns and over each such subset; every pair of aids); for every node '
        'the 9 points (3 x offsets) x (y of the node, its two floating-point neighbours) and, per column at the node, the '
        'two points 1e-3 and 1e-2 of the way to the column centre x every single aid; per column '
        'one interior point x the elevation set x {no quadtree, quadtree}; every ordered pair of lattice points as a '
        'line, not within tolerance of a node; and on one object of rect, g7 (thorough: g5) the sequences query, '
        'rotate(30), translate, rotate(-75) and query, translate, rotate(90) with a reduced query pass (21x21 points x '
        'single aids, all columns x elevations, 5x5 line lattice) after every step; 4 edits x 3 target columns as query '
        '-> edit -> same queries in reverse order (+ the edited neighbourhood); 5 routes to the same column surfaces x '
        'every column x the elevation set, also with the vertical origin moved so that surfaces of exactly 0.0 and -0.0 '
        'lie inside a layer, on a boundary and above the model top; and on one object of 5 (thorough: 6) translated / '
        'rotated geometries a closed circuit of 20 query modes (plain, 8 forms of bounds argument, guess, columns, '
        'quadtree, 6 block-name modes with / without quadtree and renaming / permuting block mappings, 2 primers) in '
        'which every ordered pair of modes is adjacent once, each pass on the same items with the same argument objects, '
        'arguments compared with their initial value after every call (quadtree, column lists: after every pass). A case is distinct by (geometry, point or line or (column, elevation), '
        'aid combination); a point case is non-trivial when the point is inside the bounding box, a line case when the '
        'line crosses at least one column')
ASSUMPTIONS = [
    'reference containment / clipping is ref/geo_c12.py: exact integer arithmetic on the node coordinates (doubles '
    'scaled by a common power of two); a column is its node polygon',
    'points within 1e-6 x longest column side of a column edge, lines with such an end point, and lines passing '
    'within 1e-6 x longest adjacent side of a node (hence all lines along an edge) are outside the lattice',
    'points that the reference finds inside more than one column (overlapping columns of a shipped or refined '
    'geometry) are outside the lattice; they are counted',
    'elevations are at least 1e-3 x min(1, thinnest layer) away from every layer boundary and from the column surface',
    'a block of column c and layer k exists when the column surface is above the layer bottom; it extends from the '
    'layer bottom to the layer top, the topmost block of a column to the column surface (the extent that '
    'block_surface/block_volume give it)',
    'corner clips: a clipped piece shorter than 0.5e-3 x the longest side of its column must be absent from the '
    'track, one longer than 2e-3 x must be present, in between either; two pieces of one (non-convex) column '
    'separated by less than 2e-3 x its longest side may be reported as one',
    'track points are compared to the exact ones with tolerance 1e-8 x (line length + geometry diagonal)',
    'history units: a quadtree is always built on the object as it is at that stage (one built before a transform is '
    'stale by contract and not asserted on); the reference is recomputed from the transformed node coordinates, '
    'layer elevations and column surfaces',
    'a column surface may be set by plain assignment col.surface = value followed by setup_block_name_index() / '
    'setup_block_connection_name_index(): the user documentation lists surface as an ordinary column property and never '
    'mentions set_column_num_layers(); the blocks of the geometry (block_name_list, block_surface, block_volume) are '
    'defined by col.surface alone',
    'delete_column() is followed by the two index set-ups (the primitive does not refresh them: F15); refine(), '
    'reduce() and split_column() refresh them themselves',
    'boundary corners of the built geometry bulge turn by at least 0.1 degrees, above the documented default colinearity '
    'tolerance of simplify_polygon (1e-6 on 1 - cos(turn), 0.081 degrees): corners below it may legitimately be dropped '
    'from boundary_polygon and are not in the lattice; geometries are connected tilings (parts touching at a single '
    'node are outside the family)',
    'order units: a bounds argument may be any sequence of points accepted by indexing (list / tuple of arrays, (n,2) '
    'ndarray of floats or integers) that encloses every column - the result must then equal the unaided search; a block '
    'mapping passed as blockmap= renames the reported block (documented: "an optional block mapping can be applied") and '
    'nothing else; none of the location routines is documented to modify an argument; the two primer modes are run for '
    'their effect on later queries only (their own results are not judged)',
    'refine() and rotate() are used only to build geometries; refined columns are labelled name-free (rank by '
    'centre) because refine() names new columns in set order',
]
BOUNDS = {
    'quick': {'geometries': ['rect', 'rect_rr', 'rectnc', 'rectnc_r', 'bulge', 'g7', 'g7_rr'],
              'point_lattice': '41x41 + 3x3 per column + 9 vertex-aligned points per node',
              'aids': 'every single aid and every pair of aids (pairs and vertex-aligned points use the reduced guess set: '
                      'true/nearest column, its neighbours, the farthest column)',
              'line_lattice': '7x7 (2352 ordered pairs per geometry)',
              'guess': 'every column when the geometry has <= 120 columns (41x41 lattice: on the points with i+j even; '
                       'all points of the per-column lattices)', 'elevations': 'full set, every column',
              'histories': 'rect, g7 x 2 transform sequences (3 and 2 in-place transforms), query pass after every step',
              'edit_histories': 'rect, g7 x {refine, delete_column, reduce, split_column} x {corner, centre, side} target',
              'surface_routes': 'rect43, g7 (rect43 = 4x3 rectangular, 5 layers) x 5 routes x every column x elevation set',
              'order_units': 'rect+t, rect_rr, rectnc_r, bulge+t, g7+t x 20 modes x 20 modes (every ordered pair adjacent once on one '
                             'object, 4-16 fresh objects per geometry), same argument objects throughout'},
    'thorough': {'geometries': ['rect', 'rect_rr', 'rectnc', 'rectnc_r', 'bulge', 'g7', 'g7_rr', 'g5', 'g5_rr', 'g1', 'g1_rr'],
                 'point_lattice': '41x41 + 3x3 per column + 9 vertex-aligned points per node',
                 'aids': 'every single aid and every pair of aids (pairs and vertex-aligned points use the reduced guess '
                         'set: true/nearest column, its neighbours, the farthest column)',
                 'line_lattice': '9x9 (6480 ordered pairs per geometry)',
                 'guess': 'every column when the geometry has <= 120 columns', 'elevations': 'full set, every column',
                 'histories': 'rect, g7, g5 x 2 transform sequences (3 and 2 in-place transforms), query pass after every step',
              'edit_histories': 'rect, g7, g5 x {refine, delete_column, reduce, split_column} x {corner, centre, side} target',
              'surface_routes': 'rect43, g7, g5 (rect43 = 4x3 rectangular, 5 layers) x 5 routes x every column x elevation set',
              'order_units': 'rect+t, rect_rr, rectnc_r, bulge+t, g7+t, g7_rr x 20 modes x 20 modes (every ordered pair adjacent once on '
                             'one object, 4-24 fresh objects per geometry), same argument objects throughout'},
}
TECHNIQUE = ('lattice enumeration (E3) of points x search-aid combinations, 3-D points and lines on the real mulgrid '
             'methods against an exact integer-arithmetic reference geometry')
LEVEL_TEXT = ('Every point of the stated lattices is located with every search-aid combination, every column is probed at '
              'the full elevation set, and every ordered pair of line-lattice points is tracked; each answer is compared '
              'with exact containment / clipping computed from the node coordinates. Nothing is sampled.')
LEVEL_NOTE = ('Nothing is claimed between lattice points. Trusted: ref/geo_c12.py. Points within tolerance of an edge and '
              'lines within tolerance of a node are excluded, corner clips within a factor 2 of the documented threshold '
              'are accepted either way.')

GEOS = {'quick': ['rect', 'rect_rr', 'rectnc', 'rectnc_r', 'bulge', 'g7', 'g7_rr'],
        'thorough': ['rect', 'rect_rr', 'rectnc', 'rectnc_r', 'bulge', 'g7', 'g7_rr', 'g5', 'g5_rr', 'g1', 'g1_rr']}
BULGE_TURNS = (0.1, 0.2, 0.4, 0.7, 1.6)      # degrees; turn of the outer boundary at the moved nodes of 'bulge'
NEAR_NODE_T = (1e-3, 1e-2)                  # near-node points: node + t x (vertex mean of an adjacent column - node)
NP = 41                    # point lattice
NLOC = 3                   # per-column lattice
NLINE = {'quick': 7, 'thorough': 9}
PHI = (math.sqrt(2.0) - 1.0, math.sqrt(3.0) - 1.0)
EDGE_TOL = 1e-6
CLIP_TOL = 1e-3
GUESS_ALL_MAX = 120
VERTEX_DX = (-0.37, -1.93, 0.41)   # x offsets of the vertex-aligned points, in units of the shortest adjacent column's longest side
CASE_LIMIT = 20.0          # seconds per library call; backstop only (a call takes milliseconds on the unchanged tree)
# history dimension: the same geometry object is queried, transformed in place and queried again
HIST = {'A': [('rotate', 30.0), ('translate', (123.4, -56.7, 7.5)), ('rotate', -75.0)],
        'B': [('translate', (-1000.25, 2000.5, -3.0)), ('rotate', 90.0)]}
HGEOS = {'quick': [('rect', 2), ('g7', 10)], 'thorough': [('rect', 2), ('g7', 10), ('g5', 16)]}   # (geometry, parts)
# edit histories: query (ending at the target column) -> edit that removes / reshapes the target -> the same
# queries again, the target's first; (geometry, [edit kinds]); targets: 'corner', 'centre', 'side'
EDITS = ('refine', 'delete_column', 'reduce', 'split_column')
ETARGETS = ('corner', 'centre', 'side')
EGEOS = {'quick': ['rect', 'g7'], 'thorough': ['rect', 'g7', 'g5']}
NLINE_E = 3                # line lattice of an edit-history pass
ESTEP = 5                  # an edit-history pass uses every ESTEP-th row and column of the point lattice
# surface routes (3-D part): how the column surfaces and the cached col.num_layers were arrived at
SROUTES = ('fresh-assigned', 'file-raised', 'lowered-raised', 'refine_layers-raised', 'copy_layers_from-raised')
ZTOPS = (25.0, 10.0, -7.5)  # model tops for which a surface of exactly 0.0 is inside a layer / on a boundary / above the top
ZGEOS = ['rectz@%r' % t for t in ZTOPS]          # 3-D part only (Q units)
SGEOS = {'quick': ['rect43'] + ['rect43@%r' % t for t in ZTOPS] + ['g7', 'g7@120.0', 'g7@-50.0'],
         'thorough': ['rect43'] + ['rect43@%r' % t for t in ZTOPS] + ['g7', 'g7@120.0', 'g7@-50.0', 'g5', 'g5@-120.0',
                                                                         'g5@-250.0']}
# ('g@shift': the file geometry translated vertically by shift, so that 0.0 lies inside its top layer / above its top;
#  g5's top is at 200, g7's at 0)
NLINE_H = 5                # line lattice of a history pass
HSTEP = 2                  # a history pass uses every HSTEP-th row and column of the 41x41 point lattice
MAX_TIMEOUTS = 2           # a work unit stops exploring after this many timeouts (reported; evidence then says cap_hit)


def quiet():
    return contextlib.redirect_stdout(io.StringIO())


def lattice(lo, hi, n, phi):
    w = hi - lo
    lo2 = lo - 0.1 * w
    w2 = 1.2 * w
    return [lo2 + w2 * (i + phi) / n for i in range(n)]


# --------------------------------------------------------------------------------------------
# geometries

def _library_geometry(name):
    import numpy as np
    from mulgrids import mulgrid
    base = name[:-3] if name.endswith('_rr') else name
    with quiet():
        if base == 'rect' or base.startswith('rectz@'):
            if base == 'rect':
                top = 0.0
                surf = [5.0, -4.0, -10.0, -17.5, None, -30.0, -45.0, 0.25, -59.5]
            else:
                # vertical origin moved so that an elevation of exactly 0.0 (and -0.0) is a legal column surface
                # strictly inside a layer (top 25), on a layer boundary (top 10) or above the model top (top -7.5)
                top = float(base.split('@')[1])
                surf = [0.0, -0.0, top + 5.0, None, top - 4.0, 0.0, -0.0, top - 45.0, 0.0]
            geo = mulgrid().rectangular([1., 30., 1000.], [1000., 30., 1.], [10., 20., 30.], atmos_type=2,
                                        origin=[0., 0., top])
            for col, s in zip(geo.columnlist, surf):
                if s is not None:
                    col.surface = s
                    geo.set_column_num_layers(col)
            geo.setup_block_name_index()
            geo.setup_block_connection_name_index()
        elif base in ('rectnc', 'rectnc_r'):
            # a 3x3 grid one of whose interior nodes is dragged into the diagonally opposite column: that column becomes
            # a NON-CONVEX (arrowhead) quadrilateral, its three partners stay simple; '_r': rotated by 30 degrees
            geo = mulgrid().rectangular([100., 150., 200.], [120., 100., 180.], [10., 20., 30.], atmos_type=2)
            nd = [n for n in geo.nodelist if float(n.pos[0]) == 100. and float(n.pos[1]) == 120.][0]
            nd.pos = np.array([190., 185.])
            for col in geo.columnlist:
                col.centre = col.centroid
                col.get_area()
            if base.endswith('_r'):
                geo.rotate(30., centre=[225., 200.])
        elif base == 'bulge':
            # a 6x2 grid of 1 km columns whose straight outer sides carry shallow CONVEX corners: single boundary nodes
            # moved outwards so that the boundary turns there by BULGE_TURNS degrees (all above the documented
            # colinearity tolerance of simplify_polygon, 1e-6 on 1 - cos(turn) = 0.081 degrees)
            geo = mulgrid().rectangular([1000.] * 6, [1000.] * 2, [10., 20., 30.], atmos_type=2)
            spots = [(1000., 0., -1.), (3000., 0., -1.), (5000., 0., -1.), (2000., 2000., 1.), (4000., 2000., 1.)]
            for (x, y, sgn), turn in zip(spots, BULGE_TURNS):
                nd = [n for n in geo.nodelist if float(n.pos[0]) == x and float(n.pos[1]) == y][0]
                nd.pos = np.array([x, y + sgn * 1000. * math.tan(math.radians(turn) / 2.)])
            for col in geo.columnlist:
                col.centre = col.centroid
                col.get_area()
        else:
            geo = mulgrid(os.path.join(core.REPO, 'tests', 'mulgrid', base + '.dat'))
    old = None
    if name.endswith('_rr'):
        old = dict((c.name, tuple(n.name for n in c.node)) for c in geo.columnlist)
        b = geo.bounds
        # rotate first, about a centre that does not depend on the order of the column list (refine() appends
        # new columns in set order and mulgrid.centre sums over the list, so rotating afterwards about the default
        # centre would give coordinates differing in the last place from process to process)
        with quiet():
            geo.rotate(30., centre=[0.5 * (float(b[0][0]) + float(b[1][0])), 0.5 * (float(b[0][1]) + float(b[1][1]))])
        b = geo.bounds
        corner = np.array([float(b[0][0]), float(b[0][1])])
        order = sorted(geo.columnlist, key=lambda c: (float(np.linalg.norm(c.centre - corner)), c.name))
        want = max(1, len(order) // 8)
        chosen = []
        for c in order:
            if len(chosen) >= want:
                break
            if c.num_nodes in (3, 4) and all(n.num_nodes in (3, 4) for n in c.neighbour):
                chosen.append(c)
        ncol0 = geo.num_columns
        with quiet():
            geo.refine(chosen)
        if geo.num_columns <= ncol0:
            raise core.HarnessError('refine() did not refine geometry %s' % name)
    return geo, old


class Ctx(object):
    """One geometry: the library object, the reference mesh, the lattices and the search aids."""

    def __init__(self, name, nline, geo=None, old=None):
        """geo given: describe THAT library object as it is now (history units: the same object is queried,
        transformed in place and described again from its transformed node coordinates)."""
        import numpy as np
        self.np = np
        self.name = name
        if geo is None:
            geo, old = _library_geometry(name)
        self.geo = geo
        cols = list(geo.columnlist)
        polys = dict((id(c), [(float(n.pos[0]), float(n.pos[1])) for n in c.node]) for c in cols)

        def vcentre(c):
            p = polys[id(c)]
            return (sum(x for x, _ in p) / len(p), sum(y for _, y in p) / len(p))
        self.refined = old is not None
        if old is None:
            lab = dict((id(c), c.name) for c in cols)
        else:
            lab = {}
            new = [c for c in cols if old.get(c.name) != tuple(n.name for n in c.node)]
            xs = [p[0] for c in cols for p in polys[id(c)]]
            q = (max(xs) - min(xs)) * 1e-7
            new.sort(key=lambda c: (round(vcentre(c)[0] / q), round(vcentre(c)[1] / q)))
            for i, c in enumerate(new):
                lab[id(c)] = 'r%03d' % i
            for c in cols:
                lab.setdefault(id(c), c.name)
        cols.sort(key=lambda c: lab[id(c)])
        self.cols = cols
        self.labels = [lab[id(c)] for c in cols]
        if len(set(self.labels)) != len(cols):
            raise core.HarnessError('column labels of %s are not unique' % name)
        self.index = dict((l, i) for i, l in enumerate(self.labels))
        self.ci_of = dict((id(c), i) for i, c in enumerate(cols))
        self.polys = [polys[id(c)] for c in cols]
        self.n = len(cols)
        self.vc = [vcentre(c) for c in cols]
        xs = [p[0] for pl in self.polys for p in pl]
        ys = [p[1] for pl in self.polys for p in pl]
        self.bb = (min(xs), min(ys), max(xs), max(ys))
        self.diag = math.hypot(self.bb[2] - self.bb[0], self.bb[3] - self.bb[1])
        # lattices
        self.gx = lattice(self.bb[0], self.bb[2], NP, PHI[0])
        self.gy = lattice(self.bb[1], self.bb[3], NP, PHI[1])
        self.loc = []
        for pl in self.polys:
            x0, x1 = min(p[0] for p in pl), max(p[0] for p in pl)
            y0, y1 = min(p[1] for p in pl), max(p[1] for p in pl)
            self.loc.append((lattice(x0, x1, NLOC, PHI[0]), lattice(y0, y1, NLOC, PHI[1])))
        self.nline = nline
        self.lx = lattice(self.bb[0], self.bb[2], nline, PHI[1])
        self.ly = lattice(self.bb[1], self.bb[3], nline, PHI[0])
        floats = xs + ys + self.gx + self.gy + self.lx + self.ly
        for lx_, ly_ in self.loc:
            floats += lx_ + ly_
        floats += [c[0] for c in self.vc] + [c[1] for c in self.vc]
        # vertex-aligned lattice: points whose y is exactly a node's y (and its two floating-point neighbours),
        # left and right of the node - the inputs on which a half-open crossing rule is decided
        wmin = {}
        for ci, pl in enumerate(self.polys):
            m = len(pl)
            w = max(math.hypot(pl[(i + 1) % m][0] - pl[i][0], pl[(i + 1) % m][1] - pl[i][1]) for i in range(m))
            for v in pl:
                wmin[v] = min(wmin.get(v, w), w)
        self.vnodes = sorted(wmin)
        self.vpts = []
        for (xv, yv) in self.vnodes:
            w = wmin[(xv, yv)]
            pts = []
            for fx in VERTEX_DX:
                # (the neighbours of 0.0 are denormals; one ulp at the size of the column is used there instead)
                for y in ((yv, math.nextafter(yv, -math.inf), math.nextafter(yv, math.inf)) if yv != 0.0
                          else (yv, -w * 2.0 ** -52, w * 2.0 ** -52)):
                    pts.append((xv + fx * w, y))
            self.vpts.append(pts)
            floats += [q[0] for q in pts] + [q[1] for q in pts]
        # near-node points: just inside every column at each of its nodes (where neighbour / quadtree-leaf / bounds
        # decisions are made, and where a simplified boundary polygon differs from the true outline)
        adj = {}
        for ci, pl in enumerate(self.polys):
            for v in pl:
                adj.setdefault(v, []).append(ci)
        self.npts = []
        for v in self.vnodes:
            pts = []
            for ci in adj[v]:
                c = self.vc[ci]
                for t in NEAR_NODE_T:
                    pts.append((v[0] + t * (c[0] - v[0]), v[1] + t * (c[1] - v[1])))
            self.npts.append(pts)
            floats += [q[0] for q in pts] + [q[1] for q in pts]
        self.frame = G.Frame(floats)
        self.mesh = G.Mesh(self.frame, list(zip(self.labels, self.polys)), EDGE_TOL)
        self.nbr = G.shared_edge_neighbours(self.polys)
        # canonical digest of the geometry itself (name-free)
        self.digest = '%016x' % core.h64(sorted(tuple(sorted(pl)) for pl in self.polys))
        # layers (reference: bottoms only; the top of a layer is the bottom of the one above)
        self.lay = [(l.name, float(l.bottom)) for l in geo.layerlist]
        self.surface = [float(c.surface) if c.surface is not None else self.lay[0][1] for c in cols]
        th = [self.lay[k - 1][1] - self.lay[k][1] for k in range(1, len(self.lay))]
        self.dz = 1e-3 * min([1.0] + th)
        # search aids (library objects), built lazily
        self._aid = {}
        medx = sorted(c[0] for c in self.vc)[self.n // 2]
        medy = sorted(c[1] for c in self.vc)[self.n // 2]
        self.half = {'x': [int(c[0] >= medx) for c in self.vc], 'y': [int(c[1] >= medy) for c in self.vc]}

    # -- subsets and aids
    def subset(self, spec):
        kind, _, arg = spec.partition(':')
        if kind == 'nbr':
            i = self.index[arg]
            return sorted(set([i]) | self.nbr[i])
        if kind in ('halfx', 'halfy'):
            h = self.half[kind[-1]]
            return [i for i in range(self.n) if h[i] == int(arg)]
        raise ValueError(spec)

    def aid(self, kind, spec):
        key = (kind, spec)
        if key not in self._aid:
            np = self.np
            with quiet():
                if kind == 'bounds':
                    if spec == 'poly':
                        v = self.geo.boundary_polygon
                    else:
                        v = self.geo.bounds
                elif kind == 'columns':
                    v = [self.cols[i] for i in self.subset(spec)]
                elif kind == 'qtree':
                    if spec == 'all':
                        v = self.geo.column_quadtree()
                    else:
                        v = self.geo.column_quadtree([self.cols[i] for i in self.subset(spec)])
                else:
                    raise ValueError(kind)
            if len(self._aid) > 4000:
                self._aid.clear()
            self._aid[key] = v
        return self._aid[key]

    def kwargs(self, spec):
        kw = {}
        if spec.get('guess') is not None:
            kw['guess'] = self.cols[self.index[spec['guess']]]
        for k in ('bounds', 'columns', 'qtree'):
            if spec.get(k) is not None:
                kw[k] = self.aid(k, spec[k])
        return kw

    # -- reference answers
    def nearest_farthest(self, p):
        d = [(math.hypot(c[0] - p[0], c[1] - p[1]), i) for i, c in enumerate(self.vc)]
        return min(d)[1], max(d)[1]

    def ref_block(self, ci, z):
        """(layer index k >= 1 or None, class of z) for a point of column ci at elevation z"""
        s = self.surface[ci]
        lay = self.lay
        ks = [k for k in range(1, len(lay)) if lay[k][1] < s]
        if not ks:
            return None
        ktop = ks[0]
        for k in ks:
            upper = s if k == ktop else lay[k - 1][1]
            if lay[k][1] < z < upper:
                return k
        return None


_ctx = {}


def ctx_for(name, tier):
    key = (name, NLINE[tier])
    if key not in _ctx:
        if len(_ctx) >= 3:
            _ctx.clear()
        _ctx[key] = Ctx(name, NLINE[tier])
    return _ctx[key]


def block_name_ref(convention, colname, layname):
    """MULgraph naming conventions as documented: 0 = 3 chars column + 2 digits layer, 1 = 3 chars layer + 2 digits
    column, 2 = 2 chars layer + 3 digits column; a blank in the 4th position between digits is written '0'."""
    if convention in (0, 3):
        nm = colname[0:3] + layname[0:2]
    elif convention == 1:
        nm = layname[0:3] + colname[0:2]
    else:
        nm = layname[0:2] + colname[0:3]
    if len(nm) == 5 and nm[2].isdigit() and nm[4].isdigit() and nm[3] == ' ':
        nm = nm[0:3] + '0' + nm[4]
    return nm


# --------------------------------------------------------------------------------------------
# units

def units(tier):
    us = []
    nline = NLINE[tier]
    for g in GEOS[tier]:
        big = g[:2] in ('g5', 'g1')
        nrow = 4 if g.startswith('rect') or g == 'bulge' else 14
        for ch in core.chunks(range(NP), nrow):
            us.append(('P', g, ch[0], ch[-1] + 1))
        ncolchunk = 12 if big else 3
        for k in range(ncolchunk):
            us.append(('Q', g, k, ncolchunk))
        for k in range(ncolchunk):
            us.append(('V', g, k, ncolchunk))
        nl = nline * nline
        for ch in core.chunks(range(nl), 16 if big else 6):
            us.append(('L', g, ch[0], ch[-1] + 1))
    for g in ZGEOS:
        us.append(('Q', g, 0, 1))
    for g, nparts in HGEOS[tier]:
        for seq in sorted(HIST):
            for part in range(nparts):
                us.append(('H' + seq, g, part, nparts))
    for g in EGEOS[tier]:
        for e in EDITS:
            for t in ETARGETS:
                us.append(('E', g, e, t))
    for g, step, nparts in OGEOS[tier]:
        for part in range(nparts):
            us.append(('O', g, (step, part), nparts))
    for g in SGEOS[tier]:
        for r in SROUTES:
            if not g.startswith('rect43') and r == 'fresh-assigned':
                continue          # a geometry read from a file is never 'fresh'
            us.append(('S', g, r, 0))
    return us


# --------------------------------------------------------------------------------------------
# points

def aid_specs(ctx, T, p, pairs, all_guesses=True):
    """Every search-aid combination for a point whose reference column is T (None: outside every column).
    Yields (spec dict, aid-class string)."""
    base = T
    near, far = ctx.nearest_farthest(p)
    if base is None:
        base = near
    L = ctx.labels
    nb = sorted(ctx.nbr[base])
    red = [(base, 'true' if T is not None else 'nearest')] + [(j, 'neighbour') for j in nb]
    if far != base and far not in nb:
        red.append((far, 'far'))
    redset = set(j for j, _ in red)
    if all_guesses and ctx.n <= GUESS_ALL_MAX:
        full = red + [(j, 'other') for j in range(ctx.n) if j not in redset]
    else:
        full = red
    bounds = ['poly', 'rect']
    subsets = ['nbr:' + L[base], 'halfx:%d' % ctx.half['x'][base], 'halfy:%d' % ctx.half['y'][base]]
    qtrees = ['all'] + subsets

    def cls(s):
        return s.split(':')[0].rstrip('xy')
    yield {}, 'none'
    for j, c in full:
        yield {'guess': L[j]}, 'guess:' + c
    for b in bounds:
        yield {'bounds': b}, 'bounds:' + b
    for s in subsets:
        yield {'columns': s}, 'columns:' + cls(s)
    for q in qtrees:
        yield {'qtree': q}, 'qtree:' + cls(q)
    if not pairs:
        return
    for j, c in red:
        for b in bounds:
            yield {'guess': L[j], 'bounds': b}, 'guess:%s+bounds:%s' % (c, b)
        for s in subsets:
            yield {'guess': L[j], 'columns': s}, 'guess:%s+columns:%s' % (c, cls(s))
        for q in qtrees:
            yield {'guess': L[j], 'qtree': q}, 'guess:%s+qtree:%s' % (c, cls(q))
    for b in bounds:
        for s in subsets:
            yield {'bounds': b, 'columns': s}, 'bounds:%s+columns:%s' % (b, cls(s))
        for q in qtrees:
            yield {'bounds': b, 'qtree': q}, 'bounds:%s+qtree:%s' % (b, cls(q))
    for s in subsets:
        for q in ('all', s):
            yield {'columns': s, 'qtree': q}, 'columns:%s+qtree:%s' % (cls(s), cls(q))


def point_query(ctx, p, T, spec, acls, kw=None, pos=None):
    """One library query; returns [(sig, what)].  kw: the keyword arguments themselves (order units: argument objects
    that are kept and re-used); pos: the position array to pass (so that the caller can look at it afterwards)."""
    np = ctx.np
    if pos is None:
        pos = np.array([p[0], p[1]])
    try:
        with core.timelimit(CASE_LIMIT), quiet():
            got = ctx.geo.column_containing_point(pos, **(ctx.kwargs(spec) if kw is None else kw))
    except core.CaseTimeout:
        return [('C12|column_containing_point|timeout|%s|aids=%s' % (ctx.name, acls),
                 'no answer within %.0f s for point %r aids %r' % (CASE_LIMIT, p, spec))], 'timeout', 'timeout'
    except Exception as e:
        return [('C12|column_containing_point|raises-%s|%s|aids=%s' % (type(e).__name__, ctx.name, acls),
                 'raised %r for point %r aids %r' % (e, p, spec))], 'raised', 'raised'
    gi = None if got is None else ctx.ci_of.get(id(got), -1)
    gl = None if gi is None else (ctx.labels[gi] if gi >= 0 else repr(got))
    if gi == T:
        return [], ('column' if T is not None else 'none'), gl
    tl = None if T is None else ctx.labels[T]
    if T is None:
        clause = 'column-for-outside-point'
    elif gi is None:
        clause = 'none-for-inside-point'
    else:
        clause = 'wrong-column'
    return [('C12|column_containing_point|%s|%s|aids=%s' % (clause, ctx.name, acls),
             'point %r lies in %s (exact reference), column_containing_point(%s) returned %s'
             % (p, 'column %r' % tl if tl is not None else 'no column',
                ', '.join('%s=%s' % kv for kv in sorted(spec.items())) or 'no aid', gl))], clause, gl


def do_point(ctx, pid, p, tier, rec, pairs=True, all_guesses=True, tag='points'):
    if all_guesses and tier == 'quick' and pid[0] == 'G' and (pid[1] + pid[2]) % 2:
        all_guesses = False     # quick: every column as guess on the even half of the 41x41 lattice only
    inside, ratio = ctx.mesh.locate(p)
    if ratio < 1.0:
        rec.count(tag + '_excluded_near_edge')
        return
    if len(inside) > 1:
        rec.count(tag + '_excluded_in_overlapping_columns')
        return
    T = inside[0] if inside else None
    bb = ctx.bb
    inbox = bb[0] <= p[0] <= bb[2] and bb[1] <= p[1] <= bb[3]
    rec.count(tag + ('_inside' if T is not None else ('_outside_in_bbox' if inbox else '_outside_bbox')))
    failed_single = {}
    for spec, acls in aid_specs(ctx, T, p, pairs, all_guesses):
        viol, oc, got = point_query(ctx, p, T, spec, acls)
        rec.case((ctx.name, pid, sorted(spec.items())), nontrivial=inbox, outcome=oc)
        if viol and len(spec) == 0:
            failed_single[()] = got
        elif viol and failed_single.get((), '?') == got:
            # the unaided search already gives this wrong answer at this point: reported once, under 'aids=none'
            rec.count('aided_failures_implied_by_the_failing_unaided_search')
            continue
        elif viol and len(spec) == 1:
            failed_single[list(spec.items())[0]] = got
        elif viol and any(failed_single.get(kv, '?') == got for kv in spec.items()):
            # the same wrong answer as one of the two aids gives alone at this point: one defect, reported once
            # under the single aid's signature
            rec.count('pair_failures_implied_by_a_failing_single_aid')
            continue
        for sig, what in viol:
            rec.violation(sig, what, {'kind': 'point', 'geo': ctx.name, 'tier': tier, 'p': [p[0], p[1]],
                                      'spec': spec, 'aidclass': acls})
        if oc == 'timeout':
            note_timeout(rec)


# --------------------------------------------------------------------------------------------
# 3-D points

def elevations(ctx, ci):
    lay = ctx.lay
    s = ctx.surface[ci]
    dz = ctx.dz
    out = []
    for k in range(1, len(lay)):
        top, bot = lay[k - 1][1], lay[k][1]
        out.append((0.5 * (top + bot), 'mid-layer'))
        out.append((top - dz, 'below-layer-top'))
        out.append((bot + dz, 'above-layer-bottom'))
    out.append((s - dz, 'below-surface'))
    out.append((s + dz, 'above-surface'))
    above = [b for _, b in lay if b > s]
    if above:
        out.append((0.5 * (s + min(above)), 'between-surface-and-next-boundary'))
    top1 = lay[0][1]
    if s > top1:
        out.append((0.5 * (s + top1), 'between-model-top-and-surface'))
    out.append((max(s, top1) + 10.0, 'far-above'))
    out.append((lay[-1][1] - dz, 'below-bottom'))
    out.append((lay[-1][1] - 10.0, 'far-below'))
    ok = []
    for z, c in out:
        if min(abs(z - b) for _, b in lay) < 0.5 * dz or abs(z - s) < 0.5 * dz:
            continue
        layer_relative = c in ('mid-layer', 'below-layer-top', 'above-layer-bottom')
        ok.append((z, c + ('(above-surface)' if layer_relative and z > s else '')))
    return ok


def interior_point(ctx, ci):
    cands = [ctx.vc[ci]] + [(x, y) for x in ctx.loc[ci][0] for y in ctx.loc[ci][1]]
    for p in cands:
        inside, ratio = ctx.mesh.locate(p)
        if inside == [ci] and ratio >= 10.0:
            return p
    return None


def block_query(ctx, ci, p, z, zc, q, blockmap=None, mapname=None, pos=None, mapref=None):
    """blockmap (order units): a block mapping passed as blockmap=; the reported name must then be the mapped name of
    the block that contains the point (signatures carry '|blockmap=<mapname>'); mapref: the check's own copy of the
    mapping, from which the expected name is taken."""
    np = ctx.np
    k = ctx.ref_block(ci, z) if ci is not None else None
    want = None if k is None else block_name_ref(ctx.geo.convention, ctx.cols[ci].name, ctx.lay[k][0])
    if pos is None:
        pos = np.array([p[0], p[1], z])
    kw = {}
    if blockmap is not None:
        kw['blockmap'] = blockmap
        if mapref is None:
            mapref = blockmap
        if want is not None:
            want = mapref.get(want, want)
    try:
        with core.timelimit(CASE_LIMIT), quiet():
            got = ctx.geo.block_name_containing_point(pos, qtree=ctx.aid('qtree', 'all') if q else None, **kw)
    except core.CaseTimeout:
        return [('C12|block_name_containing_point|timeout|%s' % ctx.name, 'no answer for %r' % ((p, z),))], 'timeout'
    except Exception as e:
        return [('C12|block_name_containing_point|raises-%s|%s|%s' % (type(e).__name__, ctx.name, zc),
                 'raised %r for %r' % (e, (p, z)))], 'raised'
    if got == want:
        return [], ('block' if want is not None else 'none')
    if ci is None:
        return [('C12|block_name_containing_point|block-for-point-outside-every-column|%s|qtree=%s'
                 % (ctx.name, 'all' if q else 'none'),
                 'point (%r, %r, %r) is outside every column; library returned %r' % (p[0], p[1], z, got))], \
            'block-for-point-outside-every-column'
    s = ctx.surface[ci]
    ks = [kk for kk in range(1, len(ctx.lay)) if ctx.lay[kk][1] < s]
    air = None
    if ks:
        air = block_name_ref(ctx.geo.convention, ctx.cols[ci].name, ctx.lay[ks[0]][0])
        if blockmap is not None:
            air = mapref.get(air, air)
    if want is None and air is not None and got == air and s < z < ctx.lay[ks[0] - 1][1]:
        # in the air between the column surface and the top of the column's surface layer, reported to be in the
        # column's topmost block: one signature per geometry
        return [('C12|block_name_containing_point|block-for-point-above-column-surface|%s' % ctx.name,
                 'point (%r, %r, %r) is above the surface %r of column %r (layer boundaries %r), i.e. outside every block; '
                 'library returned %r' % (p[0], p[1], z, s, ctx.labels[ci], [b for _, b in ctx.lay], got))], \
            'block-for-point-above-column-surface'
    if want is None:
        clause = 'block-for-point-outside-every-block'
    elif got is None:
        clause = 'none-for-point-inside-block'
    else:
        clause = 'wrong-block'
    return [('C12|block_name_containing_point|%s|%s|%s|qtree=%s%s' % (clause, ctx.name, zc, 'all' if q else 'none',
                                                                      '|blockmap=' + mapname if mapname else ''),
             'point (%r, %r, %r) in column %r (surface %r, layer boundaries %r): reference block %s%r, library returned %r'
             % (p[0], p[1], z, ctx.labels[ci], s, [b for _, b in ctx.lay],
                '(after the block mapping %s) ' % mapname if mapname else '', want, got))], clause


def do_blocks(ctx, ci, tier, rec):
    p = interior_point(ctx, ci)
    if p is None:
        rec.count('columns_without_clear_interior_point')
        return
    names = set(ctx.geo.block_name_list)
    for z, zc in elevations(ctx, ci):
        for q in (False, True):
            viol, oc = block_query(ctx, ci, p, z, zc, q)
            rec.case((ctx.name, 'B', ctx.labels[ci], z, q), nontrivial=True, outcome='3d-' + oc)
            for sig, what in viol:
                rec.violation(sig, what, {'kind': 'block', 'geo': ctx.name, 'tier': tier, 'col': ctx.labels[ci],
                                          'p': [p[0], p[1]], 'z': z, 'zclass': zc, 'qtree': q})
            if oc == 'timeout':
                note_timeout(rec)
        k = ctx.ref_block(ci, z)
        if k is not None:
            nm = block_name_ref(ctx.geo.convention, ctx.cols[ci].name, ctx.lay[k][0])
            if nm not in names:
                rec.count('reference_blocks_not_in_block_name_list')


# --------------------------------------------------------------------------------------------
# lines

def compare_track(ctx, A, B, lib):
    """Compare the library's track with the exact one.  Returns [(clause, key, what)], outcome class, ref."""
    mesh = ctx.mesh
    ref = mesh.track(A, B)
    dx, dy = B[0] - A[0], B[1] - A[1]
    Ln = math.hypot(dx, dy)
    tolp = 1e-8 * (Ln + ctx.diag)
    pos = [(float(a) * Ln, float(b) * Ln) for _, a, b in ref]
    thr = [CLIP_TOL * mesh.longest[ci] for ci, _, _ in ref]
    byc = {}
    for k, (ci, a, b) in enumerate(ref):
        byc.setdefault(ci, []).append(k)
    out = []
    matched = {}          # ref index -> lib index
    first = []            # per lib seg: (first ref idx, last ref idx) or None
    bad_cols = set()
    seglens = []
    for li, seg in enumerate(lib):
        try:
            col, pin, pout = seg
            ci = ctx.ci_of.get(id(col), None)
            pin = (float(pin[0]), float(pin[1]))
            pout = (float(pout[0]), float(pout[1]))
        except Exception as e:
            out.append(('malformed-entry', '', 'track entry %d is %r' % (li, seg)))
            first.append(None)
            seglens.append(0.0)
            continue
        if ci is None:
            out.append(('unknown-column', '', 'track entry %d names %r which is not a column of the geometry' % (li, col)))
            first.append(None)
            seglens.append(0.0)
            continue
        lab = ctx.labels[ci]
        s = []
        off = 0.0
        for P in (pin, pout):
            s.append(((P[0] - A[0]) * dx + (P[1] - A[1]) * dy) / Ln)
            off = max(off, abs((P[0] - A[0]) * dy - (P[1] - A[1]) * dx) / Ln)
        seglens.append(s[1] - s[0])
        if off > tolp or s[0] < -tolp or s[1] > Ln + tolp:
            out.append(('point-off-line', 'col=' + lab,
                        'entry/exit %r %r of column %r lie %.3g off the line or beyond its ends' % (pin, pout, lab, off)))
            bad_cols.add(ci)
            first.append(None)
            continue
        ks = byc.get(ci, [])
        if not ks:
            out.append(('column-not-crossed', 'col=' + lab,
                        'track lists column %r (%r -> %r) which the line does not enter' % (lab, pin, pout)))
            bad_cols.add(ci)
            first.append(None)
            continue
        k0 = [k for k in ks if abs(pos[k][0] - s[0]) <= tolp]
        k1 = [k for k in ks if abs(pos[k][1] - s[1]) <= tolp]
        m = None
        if k0 and k1 and k1[0] >= k0[0]:
            span = [k for k in ks if k0[0] <= k <= k1[0]]
            gaps = [pos[span[i + 1]][0] - pos[span[i]][1] for i in range(len(span) - 1)]
            if all(g <= 2.0 * CLIP_TOL * mesh.longest[ci] for g in gaps):
                m = span
            else:
                out.append(('reentrant-column-merged', '',
                            'line leaves column %r for %.6g (its longest side is %.6g) and re-enters; the track has one '
                            'segment %r -> %r over the gap' % (lab, max(gaps), mesh.longest[ci], pin, pout)))
                bad_cols.add(ci)
                first.append(None)
                continue
        if m is None:
            out.append(('entry-exit-wrong', 'col=' + lab,
                        'column %r: track says distance %.9g -> %.9g along the line, exact pieces are %s'
                        % (lab, s[0], s[1], ', '.join('%.9g -> %.9g' % pos[k] for k in ks))))
            bad_cols.add(ci)
            first.append(None)
            continue
        dup = [k for k in m if k in matched]
        if dup:
            out.append(('duplicate-segment', 'col=' + lab, 'column %r piece %.9g -> %.9g is listed twice' % ((lab,) + pos[dup[0]])))
            bad_cols.add(ci)
            first.append(None)
            continue
        for k in m:
            matched[k] = li
        first.append((m[0], m[-1]))
        if s[1] - s[0] < 0.5 * CLIP_TOL * mesh.longest[ci]:
            out.append(('short-clip-kept', 'col=' + lab,
                        'column %r is clipped over %.6g, less than half of one thousandth of its longest side %.6g, '
                        'yet it is in the track' % (lab, s[1] - s[0], mesh.longest[ci])))
    # every piece that is clearly longer than the threshold must be there
    for k, (ci, a, b) in enumerate(ref):
        ln = pos[k][1] - pos[k][0]
        if k in matched or ci in bad_cols or ln <= 2.0 * thr[k]:
            continue
        lab = ctx.labels[ci]
        # input class: pieces no longer than a thousandth of their distance from the line start (the class in which
        # the crossing de-duplication of line_polygon_intersections operates, F16), by severity; anything longer
        # is a different failure and is keyed by column
        r = ln / thr[k]
        if ln < 1.1e-3 * pos[k][1]:
            cls = 'short-relative-to-distance-from-line-start|%s' % (
                'x2-4' if r <= 4 else 'x4-8' if r <= 8 else 'x8-16' if r <= 16 else 'x16-32' if r <= 32 else 'x32+')
        else:
            cls = 'not-short|col=' + lab
        out.append(('segment-missing', cls,
                    'crosses column %r over a length %.6g = %.3g x its longest side (%.6g), %.3g x the '
                    'documented threshold, starting %.6g from the line start; the track omits it'
                    % (lab, ln, ln / mesh.longest[ci], mesh.longest[ci], ln / thr[k], pos[k][0])))
    # order along the line
    ok = [f for f in first if f is not None]
    if any(ok[i + 1][0] <= ok[i][0] for i in range(len(ok) - 1)):
        out.append(('order', '', 'track segments are not ordered along the line: reference piece indices %r' % (ok,)))
    # abutting
    for li in range(len(lib) - 1):
        f0, f1 = first[li], first[li + 1]
        if f0 is None or f1 is None:
            continue
        if ref[f0[1]][2] == ref[f1[0]][1]:
            e = lib[li][2]
            b = lib[li + 1][1]
            gap = math.hypot(float(e[0]) - float(b[0]), float(e[1]) - float(b[1]))
            if gap > 2 * tolp:
                out.append(('not-abutting', '', 'exit of %r and entry of %r are %.3g apart'
                            % (ctx.labels[ref[f0[1]][0]], ctx.labels[ref[f1[0]][0]], gap)))
    # lengths
    if not out:
        want = sum(pos[f[1]][1] - pos[f[0]][0] for f in ok)
        got = sum(seglens)
        if abs(got - want) > 2 * tolp * (len(lib) + 1):
            out.append(('length-sum', '', 'segment lengths add to %.9g, matched exact pieces to %.9g' % (got, want)))
    return out, ref


def line_case(ctx, A, B):
    """Run one line on the library and compare; returns ([(sig, what)], outcome, nontrivial)"""
    np = ctx.np
    try:
        with core.timelimit(CASE_LIMIT), quiet():
            lib = ctx.geo.column_track([np.array([A[0], A[1]]), np.array([B[0], B[1]])])
    except core.CaseTimeout:
        return [('C12|column_track|timeout|%s' % ctx.name, 'no track within %.0f s for %r -> %r' % (CASE_LIMIT, A, B))], \
            'timeout', True
    except Exception as e:
        return [('C12|column_track|raises-%s|%s' % (type(e).__name__, ctx.name),
                 'raised %r for line %r -> %r' % (e, A, B))], 'raised', True
    out, ref = compare_track(ctx, A, B, lib)
    viol = []
    for clause, key, what in out:
        sig = 'C12|column_track|%s|%s' % (clause, ctx.name) + ('|' + key if key else '')
        viol.append((sig, 'line %r -> %r: %s' % (A, B, what)))
    return viol, ('track-ok' if not out else 'track-differs') + (':empty' if not ref else ''), bool(ref)


def do_lines(ctx, lo, hi, tier, rec, starts=None):
    n = ctx.nline
    pts = [(ctx.lx[i], ctx.ly[j]) for j in range(n) for i in range(n)]
    info = [ctx.mesh.locate(p) for p in pts]
    for ia in (range(lo, hi) if starts is None else starts):
        for ib in range(len(pts)):
            if ia == ib:
                continue
            if info[ia][1] < 1.0 or info[ib][1] < 1.0 or len(info[ia][0]) > 1 or len(info[ib][0]) > 1:
                rec.count('lines_excluded_end_point_near_edge')
                continue
            A, B = pts[ia], pts[ib]
            if ctx.mesh.node_clearance(A, B) < 1.0:
                rec.count('lines_excluded_near_node')
                continue
            viol, oc, nontrivial = line_case(ctx, A, B)
            TA = info[ia][0][0] if info[ia][0] else None
            TB = info[ib][0][0] if info[ib][0] else None
            rec.count('lines:' + ('in' if TA is not None else 'out') + '->' + ('in' if TB is not None else 'out')
                      + ('' if nontrivial else ':misses-domain'))
            rec.case((ctx.name, 'L', ia, ib), nontrivial=nontrivial, outcome=oc)
            for sig, what in viol:
                rec.violation(sig, what, {'kind': 'line', 'geo': ctx.name, 'tier': tier, 'A': [A[0], A[1]],
                                          'B': [B[0], B[1]]})
            if oc == 'timeout':
                note_timeout(rec)


# --------------------------------------------------------------------------------------------

class UnitAborted(Exception):
    pass


class RecTag(object):
    """Recorder view of one stage of a history: keys, counters and signatures carry the stage, the case carries what
    is needed to re-create the state (sequence, stage, part)."""

    def __init__(self, rec, seq, stage, after, part, nparts, hist=None, suffix=None, prefix='history'):
        self.rec, self.seq, self.stage, self.after, self.part, self.nparts = rec, seq, stage, after, part, nparts
        self.hist = hist if hist is not None else {'seq': seq, 'stage': stage, 'part': part, 'nparts': nparts}
        self.suffix = suffix if suffix is not None else '|after=' + after
        self.prefix = prefix
        self.counters = rec.counters
        self.notes = rec.notes

    def case(self, key, nontrivial=True, outcome=None):
        self.rec.case((self.prefix, self.seq, self.stage, key), nontrivial=nontrivial,
                      outcome=None if outcome is None else self.prefix + '-' + outcome)

    def count(self, name, n=1):
        self.rec.count(name if name in ('timeouts', 'cap_hit') else self.prefix + ':' + name, n)

    def sample(self, obj, force=False):
        self.rec.sample(obj, force)

    def violation(self, sig, what, case):
        case = dict(case)
        case['hist'] = self.hist
        self.rec.violation(sig + self.suffix, '%s on the same geometry object: %s' % (self.suffix[1:], what), case)


def apply_step(geo, step):
    with quiet():
        if step[0] == 'rotate':
            geo.rotate(step[1])
        else:
            geo.translate(list(step[1]))


def after_tag(seq, stage):
    return '+'.join(['query'] + [st[0] for st in HIST[seq][:stage]])


def history_pass(ctx, part, nparts, tier, rec):
    """One query pass on the object as it is now: points x every single aid (quadtrees freshly built for this
    stage), 3-D points, lines - this unit's share (every nparts-th item)."""
    k = 0
    for j in range(0, NP, HSTEP):
        for i in range(0, NP, HSTEP):
            if k % nparts == part:
                do_point(ctx, ('G', i, j), (ctx.gx[i], ctx.gy[j]), tier, rec, pairs=False, all_guesses=False,
                         tag='points')
            k += 1
    for ci in range(ctx.n):
        if ci % nparts != part:
            continue
        if ctx.n <= 20:
            for a in range(NLOC):
                for b in range(NLOC):
                    do_point(ctx, ('C', ctx.labels[ci], a, b), (ctx.loc[ci][0][a], ctx.loc[ci][1][b]), tier, rec,
                             pairs=False, all_guesses=False, tag='points')
        do_blocks(ctx, ci, tier, rec)
    do_lines(ctx, 0, 0, tier, rec, starts=[ia for ia in range(ctx.nline * ctx.nline) if ia % nparts == part])


def run_history(g, seq, part, nparts, tier, rec, stop_at=None):
    """query pass -> transform in place -> query pass -> ... on ONE library object; the exact reference is recomputed
    from the transformed node coordinates at every stage.  stop_at: return the context of that stage without running
    its pass (replay)."""
    geo, _ = _library_geometry(g)
    steps = HIST[seq]
    for stage in range(len(steps) + 1):
        ctx = Ctx(g, NLINE_H, geo=geo)
        if stop_at == stage:
            return ctx
        rec.count('geometry:%s@%s%d:%s:columns=%d' % (g, seq, stage, ctx.digest, ctx.n), 1)
        history_pass(ctx, part, nparts, tier, RecTag(rec, seq, stage, after_tag(seq, stage), part, nparts))
        if stage < len(steps):
            apply_step(geo, steps[stage])
    return None


def note_timeout(rec):
    rec.count('timeouts')
    if rec.counters['timeouts'] >= MAX_TIMEOUTS:
        rec.count('cap_hit')
        raise UnitAborted()


# ---- edit histories ---------------------------------------------------------------------------

def edit_target(ctx, which):
    """canonical index of the target column: nearest the lower-left corner / the centre / the middle of the
    right-hand side of the bounding box, among quadrilaterals all of whose neighbours have 3 or 4 nodes"""
    bb = ctx.bb
    ref = {'corner': (bb[0], bb[1]), 'centre': (0.5 * (bb[0] + bb[2]), 0.5 * (bb[1] + bb[3])),
           'side': (bb[2], 0.5 * (bb[1] + bb[3]))}[which]
    ok = [i for i in range(ctx.n) if len(ctx.polys[i]) == 4 and all(len(ctx.polys[j]) in (3, 4) for j in ctx.nbr[i])]
    return min(ok, key=lambda i: (math.hypot(ctx.vc[i][0] - ref[0], ctx.vc[i][1] - ref[1]), ctx.labels[i]))


def apply_edit(ctx, kind, ti):
    geo = ctx.geo
    col = ctx.cols[ti]
    with quiet():
        if kind == 'refine':
            geo.refine([col])
        elif kind == 'delete_column':
            geo.delete_column(col.name)
            geo.setup_block_name_index()
            geo.setup_block_connection_name_index()
        elif kind == 'reduce':
            gone = set([ti]) | ctx.nbr[ti]
            geo.reduce([c for i, c in enumerate(ctx.cols) if i not in gone])
        elif kind == 'split_column':
            if not geo.split_column(col.name, col.node[0].name):
                raise core.HarnessError('split_column refused column %r' % col.name)
        else:
            raise ValueError(kind)


def edit_items(ctx, ti):
    """The query items of an edit history, in the order of the pass before the edit: lines, global points, then
    the neighbourhood of the target, the target column itself last (points, then its 3-D set)."""
    items = [('lines',)]
    for j in range(0, NP, ESTEP):
        for i in range(0, NP, ESTEP):
            items.append(('point', ('G', i, j), (ctx.gx[i], ctx.gy[j])))
    for ci in sorted(ctx.nbr[ti]) + [ti]:
        for a in range(NLOC):
            for b in range(NLOC):
                items.append(('point', ('C', ctx.labels[ci], a, b), (ctx.loc[ci][0][a], ctx.loc[ci][1][b])))
        p = interior_point(ctx, ci)
        if p is not None:
            items.append(('block', ctx.labels[ci], p, elevations(ctx, ci)))
    return items


def run_items(ctx, items, tier, rec):
    for it in items:
        if it[0] == 'lines':
            do_lines(ctx, 0, ctx.nline * ctx.nline, tier, rec)
        elif it[0] == 'point':
            do_point(ctx, it[1], it[2], tier, rec, pairs=False, all_guesses=False, tag='points')
        else:
            _, lab, p, zs = it
            inside, ratio = ctx.mesh.locate(p)
            if ratio < 1.0 or len(inside) > 1:
                rec.count('3d_positions_excluded_near_edge')
                continue
            ci = inside[0] if inside else None
            for z, zc in zs:
                if ci is not None and (min(abs(z - b) for _, b in ctx.lay) < 0.5 * ctx.dz
                                       or abs(z - ctx.surface[ci]) < 0.5 * ctx.dz):
                    continue
                for q in (False, True):
                    viol, oc = block_query(ctx, ci, p, z, zc, q)
                    rec.case((ctx.name, 'B@', lab, z, q), nontrivial=True, outcome='3d-' + oc)
                    for sig, what in viol:
                        rec.violation(sig, what, {'kind': 'block', 'geo': ctx.name, 'tier': tier,
                                                  'col': None if ci is None else ctx.labels[ci],
                                                  'p': [p[0], p[1]], 'z': z, 'zclass': zc, 'qtree': q})
                    if oc == 'timeout':
                        note_timeout(rec)


def run_edit_history(g, kind, which, tier, rec, stop_before_post=False):
    """query pass (ending in the target column) -> edit -> the same items in reverse order (the target's first), then a
    pass over the edited geometry's own columns near the edit; reference and aids rebuilt from the edited object."""
    geo, _ = _library_geometry(g)
    ctx0 = Ctx(g, NLINE_E, geo=geo)
    ti = edit_target(ctx0, which)
    items = edit_items(ctx0, ti)
    hist = {'edit': kind, 'target': which}
    run_items(ctx0, items, tier, RecTag(rec, kind + ':' + which, 0, None, 0, 1, hist=dict(hist, stage=0),
                                        suffix='|after=query', prefix='edit-history'))
    names_before = dict((c.name, tuple(n.name for n in c.node)) for c in geo.columnlist)
    apply_edit(ctx0, kind, ti)
    ctx1 = Ctx(g, NLINE_E, geo=geo, old=names_before)
    if stop_before_post:
        return ctx1
    rec.count('geometry:%s@%s-%s:%s:columns=%d' % (g, kind, which, ctx1.digest, ctx1.n), 1)
    tag = RecTag(rec, kind + ':' + which, 1, None, 0, 1, hist=dict(hist, stage=1), suffix='|after=query+' + kind,
                 prefix='edit-history')
    run_items(ctx1, items[::-1], tier, tag)
    # the edited geometry's own columns around the edit: every column that is new or touches the old target outline
    x0 = min(p[0] for p in ctx0.polys[ti]); x1 = max(p[0] for p in ctx0.polys[ti])
    y0 = min(p[1] for p in ctx0.polys[ti]); y1 = max(p[1] for p in ctx0.polys[ti])
    for ci in range(ctx1.n):
        pl = ctx1.polys[ci]
        if max(p[0] for p in pl) < x0 or min(p[0] for p in pl) > x1 or max(p[1] for p in pl) < y0 \
                or min(p[1] for p in pl) > y1:
            continue
        for a in range(NLOC):
            for b in range(NLOC):
                do_point(ctx1, ('N', ctx1.labels[ci], a, b), (ctx1.loc[ci][0][a], ctx1.loc[ci][1][b]), tier, tag,
                         pairs=False, all_guesses=False, tag='points')
        do_blocks(ctx1, ci, tier, tag)
    return None


# ---- surface routes ---------------------------------------------------------------------------

def surface_route_geometry(g, route):
    """A geometry whose column surfaces (and cached col.num_layers) were reached by the given route.  The final
    surfaces are the same function of the column's rank whatever the route."""
    from mulgrids import mulgrid
    import numpy as np
    base, _, origin = g.partition('@')
    with quiet():
        if base == 'rect43':
            geo = mulgrid().rectangular([100.] * 4, [100.] * 3, [10., 10., 20., 20., 40.], atmos_type=2,
                                        origin=[0., 0., float(origin or 0.0)])
        else:
            geo = mulgrid(os.path.join(core.REPO, 'tests', 'mulgrid', base + '.dat'))
            if origin:
                geo.translate([0., 0., float(origin)])

    def levels(geo):
        top = float(geo.layerlist[0].bottom)
        return top, top - float(geo.layerlist[-1].bottom)

    def assign(geo, fracs, refresh):
        top, depth = levels(geo)
        for i, col in enumerate(geo.columnlist):
            col.surface = top - fracs[i % len(fracs)] * depth
            if refresh:
                geo.set_column_num_layers(col)
        geo.setup_block_name_index()
        geo.setup_block_connection_name_index()
    low = [0.35, 0.55, 0.8, 0.95]
    high = [-0.05, 0.03, 0.12, 0.3, 0.45]
    with quiet():
        if route == 'fresh-assigned':
            pass
        elif route == 'file-raised':
            if base == 'rect43':
                assign(geo, low, True)
                fn = os.path.join(core.scratch(), 'c12_%s_low.dat' % base)
                geo.write(fn)
                geo = mulgrid(fn)
                os.remove(fn)
            # (a shipped file is taken as read: its SURFA section gave the columns their num_layers)
        elif route == 'lowered-raised':
            assign(geo, low, True)
        elif route == 'refine_layers-raised':
            assign(geo, low, True)
            geo.refine_layers()
        elif route == 'copy_layers_from-raised':
            assign(geo, low, True)
            top, depth = levels(geo)
            other = mulgrid().rectangular([10.], [10.], [depth / 8.] * 8, origin=[0., 0., top])
            geo.copy_layers_from(other)
        else:
            raise ValueError(route)
        # finally the surfaces are set by plain assignment (col.surface = ...), followed by the index set-up
        assign(geo, high, False)
        if origin:
            # with the vertical origin moved, exactly 0.0 and -0.0 are legal surfaces: give them to two columns in five
            for i, col in enumerate(geo.columnlist):
                if i % 5 in (1, 3) and float(geo.layerlist[-1].bottom) < 0.0:
                    col.surface = 0.0 if i % 5 == 1 else -0.0
            geo.setup_block_name_index()
            geo.setup_block_connection_name_index()
    return geo


def run_surface_route(g, route, tier, rec, only_ctx=False):
    geo = surface_route_geometry(g, route)
    ctx = Ctx(g, NLINE_E, geo=geo)
    if only_ctx:
        return ctx
    tag = RecTag(rec, route, 0, None, 0, 1, hist={'route': route}, suffix='|route=' + route, prefix='surface-route')
    for ci in range(ctx.n):
        do_blocks(ctx, ci, tier, tag)
    return None


# ---- order / argument units --------------------------------------------------------------------
# Every query mode is run directly after every mode (itself included) on ONE geometry object, always with the SAME
# argument objects; every answer is compared with the exact reference; every argument must be unchanged afterwards.

OMODES = ('plain',
          'bounds:poly-list', 'bounds:poly-tuple', 'bounds:poly-float-ndarray', 'bounds:quad-int-ndarray',
          'bounds:rect-list', 'bounds:rect-tuple', 'bounds:rect-float-ndarray', 'bounds:rect-int-ndarray',
          'guess', 'columns', 'qtree',
          'block:plain', 'block:qtree', 'block:map-new', 'block:map-perm', 'block:qtree+map-new',
          'block:qtree+map-perm', 'prime:block_name+maps', 'prime:fromgeo+maps')
OSHIFT = (1234.5, -678.25, 7.5)          # '<geometry>+t': translated by this
OGEOS = {'quick': [('rect+t', 4, 4), ('rect_rr', 4, 4), ('rectnc_r', 4, 4), ('bulge+t', 4, 4), ('g7+t', 5, 16)],
         'thorough': [('rect+t', 4, 4), ('rect_rr', 4, 4), ('rectnc_r', 4, 4), ('bulge+t', 4, 4), ('g7+t', 5, 16),
                      ('g7_rr', 5, 24)]}       # (geometry, step through the 41x41 lattice, parts)
OCOLS = 12                                # 3-D set of an order unit: every column when <= 20, else ~OCOLS of them


def de_bruijn2(m):
    """Cyclic sequence over range(m), length m*m, in which every ordered pair (a, b) - a == b included - occurs
    exactly once as two consecutive elements."""
    a = [0] * 4
    seq = []

    def db(t, p):
        if t > 2:
            if 2 % p == 0:
                seq.extend(a[1:p + 1])
        else:
            a[t] = a[t - p]
            db(t + 1, p)
            for j in range(a[t - p] + 1, m):
                a[t] = j
                db(t + 1, t)
    db(1, 1)
    pairs = set((seq[i], seq[(i + 1) % len(seq)]) for i in range(len(seq)))
    if len(seq) != m * m or len(pairs) != m * m:
        raise core.HarnessError('de_bruijn2(%d) does not cover every ordered pair once' % m)
    return seq


def order_segment(part, nparts):
    """This unit's stretch of the mode circuit: positions lo..hi inclusive (the last one is the first of the next
    unit's stretch, so the pair across the cut is run too; the circuit is closed)."""
    seq = de_bruijn2(len(OMODES))
    n = len(seq)
    k = (n + nparts - 1) // nparts
    lo, hi = part * k, min(n, (part + 1) * k)
    return [OMODES[seq[i % n]] for i in range(lo, hi + 1)]


def snap(v):
    """Canonical value of an argument object (what a caller can see of it)."""
    import numpy as np
    if isinstance(v, np.ndarray):
        return ('ndarray', str(v.dtype), v.shape, v.tobytes())
    if isinstance(v, (list, tuple)):
        return (type(v).__name__,) + tuple(snap(x) for x in v)
    if isinstance(v, dict):
        return ('dict',) + tuple(sorted((k, snap(x)) for k, x in v.items()))
    if v is None or isinstance(v, (bool, int, str)):
        return v
    if isinstance(v, float):
        return ('float', v.hex())
    cn = type(v).__name__
    if cn == 'column':
        return ('column', id(v), v.name, tuple((n.name, snap(n.pos)) for n in v.node), snap(v.centre),
                None if v.surface is None else float(v.surface).hex(), tuple(sorted(c.name for c in v.neighbour)))
    if cn == 'quadtree':
        return ('quadtree', snap(list(v.bounds)), tuple(id(e) for e in v.elements), tuple(snap(c) for c in v.child))
    raise core.HarnessError('snap: unexpected argument type %s' % cn)


class OrderArgs(object):
    """The query items and the argument objects of one order unit (made once, used for every pass)."""

    def __init__(self, ctx, step):
        np = ctx.np
        geo = ctx.geo
        self.ctx = ctx
        # 2-D items
        self.p2 = []
        pts = [(('G', i, j), (ctx.gx[i], ctx.gy[j])) for j in range(0, NP, step) for i in range(0, NP, step)]
        cstep = 1 if ctx.n <= 20 else max(1, ctx.n // OCOLS)
        self.cols3 = [ci for ci in range(ctx.n) if ci % cstep == 0]
        for ci in self.cols3:
            if ctx.n <= 20:
                pts += [(('C', ctx.labels[ci], a, b), (ctx.loc[ci][0][a], ctx.loc[ci][1][b]))
                        for a in range(NLOC) for b in range(NLOC)]
            else:
                pts.append((('C', ctx.labels[ci], 1, 1), (ctx.loc[ci][0][1], ctx.loc[ci][1][1])))
        self.excluded = 0
        for pid, p in pts:
            inside, ratio = ctx.mesh.locate(p)
            if ratio < 1.0 or len(inside) > 1:
                self.excluded += 1
                continue
            self.p2.append((pid, p, inside[0] if inside else None))
        # 3-D items: (column index or None, point, z, class)
        self.p3 = []
        for ci in self.cols3:
            p = interior_point(ctx, ci)
            if p is None:
                continue
            for z, zc in elevations(ctx, ci):
                self.p3.append((ci, p, z, zc))
        zmid = 0.5 * (ctx.lay[0][1] + ctx.lay[1][1])
        for pid, p, T in self.p2:
            if T is None and pid[0] == 'G':
                self.p3.append((None, p, zmid, 'outside-every-column'))
        # bounds
        poly = geo.boundary_polygon
        bb = ctx.bb
        x0, y0 = int(math.floor(bb[0])) - 3, int(math.floor(bb[1])) - 2
        x1, y1 = int(math.ceil(bb[2])) + 2, int(math.ceil(bb[3])) + 3
        rect = geo.bounds
        self.args = {
            'bounds:poly-list': poly,
            'bounds:poly-tuple': tuple(np.array([float(v[0]), float(v[1])]) for v in poly),
            'bounds:poly-float-ndarray': np.array([[float(v[0]), float(v[1])] for v in poly], dtype=np.float64),
            'bounds:quad-int-ndarray': np.array([[x1, y0], [x1, y1], [x0, y1], [x0, y0]], dtype=np.int64),
            'bounds:rect-list': rect,
            'bounds:rect-tuple': ((float(rect[0][0]), float(rect[0][1])), (float(rect[1][0]), float(rect[1][1]))),
            'bounds:rect-float-ndarray': np.array([[float(rect[0][0]), float(rect[0][1])],
                                                   [float(rect[1][0]), float(rect[1][1])]], dtype=np.float64),
            'bounds:rect-int-ndarray': np.array([[x0, y0], [x1, y1]], dtype=np.int64),
            'qtree': ctx.aid('qtree', 'all'),
        }
        # block mappings, chosen by rank (column label order, layer) so that they do not depend on generated names
        blocks = []
        for ci in range(ctx.n):
            s = ctx.surface[ci]
            for k in range(1, len(ctx.lay)):
                if ctx.lay[k][1] < s:
                    blocks.append(block_name_ref(geo.convention, ctx.cols[ci].name, ctx.lay[k][0]))
        self.blocks = blocks
        if len(set(blocks)) != len(blocks):
            raise core.HarnessError('reference block names of %s are not unique' % ctx.name)
        new = dict((nm, 'Z%04d' % i) for i, nm in enumerate(blocks[0::3]))
        if set(new.values()) & set(blocks):
            raise core.HarnessError('new block names collide with blocks of %s' % ctx.name)
        pk = blocks[1::3]
        perm = dict((nm, pk[(i + 1) % len(pk)]) for i, nm in enumerate(pk))
        self.args['blockmap:new'] = new
        self.args['blockmap:perm'] = perm
        self.mapref = {'new': dict(new), 'perm': dict(perm)}
        for ci, c in enumerate(ctx.cols):
            self.args[('guess', ci)] = c
        self.snaps = dict((k, snap(v)) for k, v in self.args.items())
        self.reported = {}      # (mode, item) -> wrong answer already reported in this unit

    def columns_arg(self, spec):
        key = ('columns', spec)
        if key not in self.args:
            self.args[key] = self.ctx.aid('columns', spec)
            self.snaps[key] = snap(self.args[key])
        return self.args[key]

    def unchanged(self, key, fn, rec, case):
        """The argument object must show what it showed when it was made."""
        now = snap(self.args[key])
        if now == self.snaps[key]:
            return
        self.snaps[key] = now
        kind = key if isinstance(key, str) else key[0]
        rec.violation('C12|%s|argument-modified|%s|arg=%s' % (fn, self.ctx.name, kind),
                      'the %s object passed by the caller was modified by the call (mode %s)' % (kind, case['mode']),
                      dict(case, kind='order', q=['argument', kind]))


def order_pass(oa, mode, prev, step, tier, rec, hist):
    ctx = oa.ctx
    np = ctx.np
    after = '|after=' + prev

    def base_case(q):
        return {'kind': 'order', 'geo': ctx.name, 'tier': tier, 'order': hist, 'step': step, 'mode': mode,
                'prev': prev, 'q': q}

    def report(viol, item, got, case):
        if not viol:
            return
        if (mode, item) in oa.reported:
            # reported once per unit, under the first predecessor after which it fails
            rec.count('order:failures_of_a_mode_and_item_already_reported_in_this_unit')
            return
        oa.reported[(mode, item)] = got
        for sig, what in viol:
            rec.violation(sig + after, 'directly after a pass in mode %r on the same geometry object, with the same '
                          'argument objects as in every earlier pass: %s' % (prev, what), case)

    if mode.startswith('prime:'):
        # not a query: other legal uses of the block mappings on the same geometry object
        try:
            with core.timelimit(10 * CASE_LIMIT), quiet():
                for mk in ('new', 'perm'):
                    m = oa.args['blockmap:' + mk]
                    if mode == 'prime:block_name+maps':
                        for ci in range(ctx.n):
                            for k in range(1, len(ctx.lay)):
                                ctx.geo.block_name(ctx.lay[k][0], ctx.cols[ci].name, m)
                    else:
                        from t2grids import t2grid
                        t2grid().fromgeo(ctx.geo, blockmap=m)
                    rec.count('order:primer_calls')
        except core.CaseTimeout:
            rec.count('order:primer_timeouts')
        except Exception:
            rec.count('order:primer_raised')
        for mk in ('new', 'perm'):
            oa.unchanged('blockmap:' + mk, mode[6:].split('+')[0], rec, base_case(None))
        return
    if not mode.startswith('block:'):
        for pid, p, T in oa.p2:
            bbx = ctx.bb
            inbox = bbx[0] <= p[0] <= bbx[2] and bbx[1] <= p[1] <= bbx[3]
            if mode == 'guess':
                base = T
                near, far = ctx.nearest_farthest(p)
                if base is None:
                    base = near
                nb = sorted(ctx.nbr[base])
                subs = [(base, 'true' if T is not None else 'nearest')] + [(j, 'neighbour') for j in nb]
                if far != base and far not in nb:
                    subs.append((far, 'far'))
                calls = [({'guess': oa.args[('guess', j)]}, {'guess': ctx.labels[j]}, 'guess:' + c, [('guess', j)])
                         for j, c in subs]
            elif mode == 'columns':
                base = T if T is not None else ctx.nearest_farthest(p)[0]
                calls = []
                for spec in ('nbr:' + ctx.labels[base], 'halfx:%d' % ctx.half['x'][base]):
                    calls.append(({'columns': oa.columns_arg(spec)}, {'columns': spec},
                                  'columns:' + spec.split(':')[0].rstrip('xy'), []))
            elif mode == 'qtree':
                calls = [({'qtree': oa.args['qtree']}, {'qtree': 'all'}, 'qtree:all', [])]
            elif mode == 'plain':
                calls = [({}, {}, 'none', [])]
            else:
                calls = [({'bounds': oa.args[mode]}, {'bounds': mode[7:]}, mode, [mode])]
            for kw, spec, acls, keys in calls:
                pos = np.array([p[0], p[1]])
                viol, oc, got = point_query(ctx, p, T, spec, acls, kw=kw, pos=pos)
                item = (pid, tuple(sorted(spec.items())))
                rec.case((ctx.name, 'O', mode, prev, item), nontrivial=inbox, outcome='order-' + oc)
                case = base_case({'p': [p[0], p[1]], 'spec': spec, 'aidclass': acls})
                report(viol, item, got, case)
                if oc == 'timeout':
                    note_timeout(rec)
                if not (pos.shape == (2,) and float(pos[0]) == p[0] and float(pos[1]) == p[1]):
                    rec.violation('C12|column_containing_point|argument-modified|%s|arg=pos' % ctx.name,
                                  'the position array passed by the caller was modified (mode %s)' % mode,
                                  dict(case, q=['argument', 'pos']))
                for key in keys:
                    oa.unchanged(key, 'column_containing_point', rec, case)
        for key in list(oa.args):
            if key == 'qtree' or (isinstance(key, tuple) and key[0] == 'columns'):
                oa.unchanged(key, 'column_containing_point', rec, base_case(None))
        return
    q = 'qtree' in mode
    mk = 'new' if 'map-new' in mode else 'perm' if 'map-perm' in mode else None
    for ci, p, z, zc in oa.p3:
        pos = np.array([p[0], p[1], z])
        # (signatures of an order unit: the input class is the pair of modes, not the elevation class - that is in the case)
        if mk is None:
            viol, oc = block_query(ctx, ci, p, z, 'order-set', q, pos=pos)
        else:
            viol, oc = block_query(ctx, ci, p, z, 'order-set', q, blockmap=oa.args['blockmap:' + mk], mapname=mk, pos=pos,
                                   mapref=oa.mapref[mk])
        item = ('B', None if ci is None else ctx.labels[ci], p[0], p[1], z)
        rec.case((ctx.name, 'O', mode, prev, item), nontrivial=True, outcome='order-3d-' + oc)
        case = base_case({'col': None if ci is None else ctx.labels[ci], 'p': [p[0], p[1]], 'z': z, 'zclass': zc})
        report(viol, item, viol[0][1] if viol else None, case)
        if oc == 'timeout':
            note_timeout(rec)
        if not (pos.shape == (3,) and float(pos[0]) == p[0] and float(pos[1]) == p[1] and float(pos[2]) == z):
            rec.violation('C12|block_name_containing_point|argument-modified|%s|arg=pos' % ctx.name,
                          'the position array passed by the caller was modified (mode %s)' % mode,
                          dict(case, q=['argument', 'pos']))
        if mk is not None:
            oa.unchanged('blockmap:' + mk, 'block_name_containing_point', rec, case)
    if q:
        oa.unchanged('qtree', 'block_name_containing_point', rec, base_case(None))


def order_geometry(g):
    base, _, t = g.partition('+')
    geo, old = _library_geometry(base)
    if t:
        with quiet():
            geo.translate(list(OSHIFT))
    return geo, old


def run_order(g, step, part, nparts, tier, rec, stop_after=None):
    geo, old = order_geometry(g)
    ctx = Ctx(g, NLINE_E, geo=geo, old=old)
    oa = OrderArgs(ctx, step)
    rec.count('geometry:%s@order:%s:columns=%d' % (g, ctx.digest, ctx.n), 1)
    if part == 0:
        rec.count('order:%s:2d_items' % g, len(oa.p2))
        rec.count('order:%s:3d_items' % g, len(oa.p3))
        rec.count('order:%s:2d_items_excluded_near_edge_or_overlap' % g, oa.excluded)
        rec.count('order:%s:blocks_renamed_to_new_names' % g, len(oa.mapref['new']))
        rec.count('order:%s:blocks_permuted' % g, len(oa.mapref['perm']))
    hist = {'part': part, 'nparts': nparts, 'lattice_step': step}
    prev = 'fresh'
    for k, mode in enumerate(order_segment(part, nparts)):
        order_pass(oa, mode, prev, k, tier, rec, hist)
        rec.count('order:passes')
        if prev != 'fresh':
            rec.count('order:ordered_pairs_of_modes_run')
        prev = mode
        if stop_after is not None and k >= stop_after:
            break


def run_unit(unit, tier, rec):
    try:
        _run_unit(unit, tier, rec)
    except UnitAborted:
        rec.notes.append('unit %r stopped after %d timeouts' % (unit, MAX_TIMEOUTS))


def _run_unit(unit, tier, rec):
    core.load_library()
    kind, g, lo, hi = unit
    if kind == 'E':
        run_edit_history(g, lo, hi, tier, rec)
        return
    if kind == 'O':
        run_order(g, lo[0], lo[1], hi, tier, rec)
        if lo[1] == 0:
            rec.sample({'order_unit': g, 'modes': list(OMODES), 'segment': order_segment(0, hi)[:8] + ['...']}, force=False)
        return
    if kind == 'S':
        run_surface_route(g, lo, tier, rec)
        if lo == SROUTES[1]:
            rec.sample({'surface_route': lo, 'geometry': g}, force=False)
        return
    if kind[0] == 'H':
        run_history(g, kind[1:], lo, hi, tier, rec)
        if lo == 0:
            rec.sample({'history': g, 'sequence': ['query'] + [list(st) for st in HIST[kind[1:]]], 'parts': hi}, force=True)
        return
    ctx = ctx_for(g, tier)
    rec.count('geometry:%s:%s:columns=%d' % (g, ctx.digest, ctx.n), 1)
    if kind == 'P':
        for j in range(lo, hi):
            for i in range(NP):
                do_point(ctx, ('G', i, j), (ctx.gx[i], ctx.gy[j]), tier, rec)
        if lo == 0:
            rec.sample({'geometry': g, 'columns': ctx.n, 'point': [ctx.gx[20], ctx.gy[20]],
                        'reference_column': (lambda r: ctx.labels[r[0][0]] if r[0] else None)(
                            ctx.mesh.locate((ctx.gx[20], ctx.gy[20]))),
                        'aid_combinations': sum(1 for _ in aid_specs(
                            ctx, (ctx.mesh.locate((ctx.gx[20], ctx.gy[20]))[0] or [None])[0],
                            (ctx.gx[20], ctx.gy[20]), True))})
    elif kind == 'Q':
        for ci in range(ctx.n):
            if ci % hi != lo:
                continue
            for a in range(NLOC):
                for b in range(NLOC):
                    do_point(ctx, ('C', ctx.labels[ci], a, b), (ctx.loc[ci][0][a], ctx.loc[ci][1][b]), tier, rec)
            do_blocks(ctx, ci, tier, rec)
    elif kind == 'V':
        for vi, pts in enumerate(ctx.vpts):
            if vi % hi != lo:
                continue
            for k, p in enumerate(pts):
                do_point(ctx, ('V', vi, k), p, tier, rec, pairs=False, all_guesses=False, tag='vertex_aligned_points')
            for k, p in enumerate(ctx.npts[vi]):
                do_point(ctx, ('N', vi, k), p, tier, rec, pairs=False, all_guesses=False, tag='near_node_points')
    elif kind == 'L':
        do_lines(ctx, lo, hi, tier, rec)
    else:
        raise core.HarnessError('unknown unit %r' % (unit,))


def finalize(rec, tier):
    """The refined geometries must be the same in every worker (refine() names columns in set order; the check
    is name-free, but the shapes have to agree for the explored set to be seed-independent)."""
    seen = {}
    for k in rec.counters:
        if k.startswith('geometry:'):
            _, g, dig, ncol = k.split(':')
            seen.setdefault(g, set()).add((dig, ncol))
    for g, s in seen.items():
        if len(s) != 1:
            raise core.HarnessError('geometry %s was built differently in different workers: %r' % (g, sorted(s)))
    return {'geometries': dict((g, {'digest': list(s)[0][0], 'columns': list(s)[0][1]}) for g, s in sorted(seen.items()))}


def replay(case):
    core.load_library()
    tier = case.get('tier', 'thorough')
    h = case.get('hist')
    if case.get('kind') == 'order':
        import json
        o = case['order']
        r = core.Rec()
        try:
            run_order(case['geo'], o['lattice_step'], o['part'], o['nparts'], tier, r, stop_after=case['step'])
        except UnitAborted:
            pass
        want = json.dumps(case, sort_keys=True)
        return [(sig, e['what']) for sig, e in sorted(r.viol.items()) if json.dumps(e['case'], sort_keys=True) == want]
    if h and 'edit' in h:
        c2 = dict(case)
        del c2['hist']
        if h['stage'] == 0:
            geo, _ = _library_geometry(case['geo'])
            ctx = Ctx(case['geo'], NLINE_E, geo=geo)
            return [(sig + '|after=query', what) for sig, what in _replay_on(ctx, c2)]
        ctx = run_edit_history(case['geo'], h['edit'], h['target'], tier, core.Rec(), stop_before_post=True)
        return [(sig + '|after=query+' + h['edit'], what) for sig, what in _replay_on(ctx, c2)]
    if h and 'route' in h:
        c2 = dict(case)
        del c2['hist']
        ctx = run_surface_route(case['geo'], h['route'], tier, core.Rec(), only_ctx=True)
        return [(sig + '|route=' + h['route'], what) for sig, what in _replay_on(ctx, c2)]
    if h:
        # re-create the state: the same passes and transforms on a fresh object, then this one case
        ctx = run_history(case['geo'], h['seq'], h['part'], h['nparts'], tier, core.Rec(), stop_at=h['stage'])
        c2 = dict(case)
        del c2['hist']
        return [(sig + '|after=' + after_tag(h['seq'], h['stage']), what) for sig, what in _replay_on(ctx, c2)]
    return _replay_on(ctx_for(case['geo'], tier), case)


def _replay_on(ctx, case):
    if case['kind'] == 'point':
        p = (float(case['p'][0]), float(case['p'][1]))
        ctx.frame.grow(p)
        inside, ratio = ctx.mesh.locate(p)
        T = inside[0] if inside else None
        viol, oc, got = point_query(ctx, p, T, case['spec'], case['aidclass'])
        return viol
    if case['kind'] == 'block':
        ci = ctx.index[case['col']] if case['col'] is not None else None
        p = (float(case['p'][0]), float(case['p'][1]))
        viol, oc = block_query(ctx, ci, p, float(case['z']), case['zclass'], case['qtree'])
        return viol
    if case['kind'] == 'line':
        A = (float(case['A'][0]), float(case['A'][1]))
        B = (float(case['B'][0]), float(case['B'][1]))
        ctx.frame.grow(A + B)
        viol, oc, nt = line_case(ctx, A, B)
        return viol
    raise core.HarnessError('unknown case kind %r' % case.get('kind'))
