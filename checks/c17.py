"""C17 - block, column, layer and node names are unique, well-formed and invertible.

Space (enumerated completely):
  N  name generators column_name_from_number / node_name_from_number / layer_name_from_number / int_to_chars /
     new_column_name / new_node_name (new_dict_key), every integer 0..20000, crossed with 4 conventions x justify {r, l} x
     6 alphabets (lower, upper, 'abc', 'atm', 'mta', 27 letters) x blanks allowed or not; new_dict_key also on
     dictionaries with a hole;
  L  add_layers with every layer count 1..120 and the counts cap-1, cap, cap+1 of every option combination (crossing the
     surface-layer name 'at' / 'atm');
  N' the three *_name_from_number generators for 0..1100 (thorough 0..5000) on an object that reached the same options by
     another route: names generated under each other convention and the convention then assigned, atmosphere type
     assigned, other justification / blanks option / alphabet used first; and (GR) on a geometry built by rectangular()
     under convention A whose convention is then assigned to B (all 12 ordered pairs); results must be those of a fresh
     object (order independence), and satisfy the same clauses;
  G  rectangular(): every size nx, ny in 1..6 (quick 1..4), nz in 1..4 (quick {1,3}) plus four sizes on the 3-letter
     capacity edges, crossed with convention x atmosphere type x justify x 13 (chars, case) pairs (among them alphabets
     holding a letter in both cases, with case None / 'u' / 'l') x blanks allowed or not; each geometry is also written to
     a file and re-read with mulgrid(filename), twice,
     each also re-indexed in 'dmplex' block order;
  X  capacity-edge geometries: 98/99/100 nodes (convention 1), 998/999/1000 nodes (convention 2), 98/99/100 layers,
     letter-layer counts cap-1/cap/cap+1, 1296 upper-case columns (a column called 'ATM' next to the atmosphere block
     'ATM 0'), thorough: 18277/18278/18279 nodes (26+26^2+26^3) and 17575/17576 nodes (26^3, no blanks), 18276..18278
     three-letter layers - x convention x atmosphere type x justify;
  C  the other constructors - from_gmsh (MSH 2.2 and 4.1 files), from_layermesh (duck-typed mesh), from_amesh (AMESH
     input + segment files), inputs written by ref/meshfiles.py for nx x ny x nz boxes incl. the 39 / 99-node capacity
     edges - x convention x atmosphere type x justify x 6 alphabets (among them one with a repeated letter and a
     one-letter alphabet) x blanks allowed or not, each also called on an object whose own convention differs: same
     clauses as for rectangular(), and the geometry must have the convention asked for;
  ED the library's own name-consuming edits at exhaustion: on rectangular grids 2x2 .. 7x6 over the alphabets 'xy' and
     'xyz' (4 conventions x 2 atmosphere types x blanks allowed or not), split_column / triangulate_column (subdivide_column)
     / refine repeated until no column or node name of the alphabet is free, and once more: the operation that needs a
     name past capacity must raise NamingConventionError (not return quietly, not duplicate / truncate a name, not drop
     a column); before that it must succeed and keep names distinct, of the convention's length, and the plan area;
  RJ name-generating operations on a geometry whose justification is no longer the one it was built (or first asked)
     with: rectangular 3x3x2 (thorough also 2x2x1) x 4 conventions x justify {r, l} x atmosphere type {0, 2} (thorough
     0..2) x lower (thorough also upper) case; first operation in {none, read right_justified_names / uppercase_names,
     split_column, subdivide_column, refine_layers, refine, triangulate_column}; ALL columns renamed to the other
     justification by rename_column (one call with lists / one call per column; thorough also there and back again);
     node names kept or re-justified too; second operation in {split_column, subdivide_column, refine_layers, refine,
     triangulate_column} (the node-making ones only with re-justified nodes); and the steps of rectangular() done by
     hand on an empty mulgrid (with / without reading the two properties at every stage before the layers exist)
     followed by each second operation.  After every operation all name clauses, the block clauses and one write +
     mulgrid(filename) cycle (no column / node / layer lost to names differing only in padding); the names after the
     last operation must equal those of a geometry built directly with the final justification (order independence;
     not for histories containing refine, whose choice among free names varies with set order);
  F  fix_blockname / unfix_blockname / fix_block_mapping on all 7776 five-character strings over {a,B,0,1,9,blank}
     (thorough: also all 100000 over a 10-letter alphabet) and on every block name of every geometry built above.
Oracle: the property statement (distinct names of the convention's length; explicit NamingConventionError exactly when
the name space is exhausted; block names distinct, 5 long, column/layer parts invert; fix idempotent; unfix(fix(n)) is
the simulator's (A3,I2) print for valid names; fix.unfix reaches a fixed point in one step).
"""
import contextlib
import io

from mc import core
from ref import names as N

ID = 'C17'
LEVEL = 'exploration'
ENGINE = 'E2'
EXHAUSTIVE = True
RULE = ('name generators: every integer 0..20000 x 4 conventions x 2 justifications x 6 alphabets x blanks allowed or not '
        '(a case = one call; distinct = (generator, options, integer)); add_layers: every count 1..120 and cap-1/cap/cap+1 x '
        'the same options; rectangular: every (nx, ny, nz) in the size box x 4 conventions x 3 atmosphere types x 2 '
        'justifications x 13 (chars, case) pairs x blanks allowed or not, each also re-read from its own file, plus the listed capacity-edge geometries (a case = one '
        'geometry, all of its names and blocks checked; distinct = (options, size)); fix/unfix: every 5-character string over '
        'the stated alphabet; generator calls 0..1100 (thorough 0..5000) repeated on objects that reached the options by '
        'another route (7 primers per option combination, 12 convention pairs after rectangular()); re-justified histories: every '
        '(first operation, rename route, node treatment, second operation) on the stated grids x convention x justify x '
        'atmosphere type (a case = one history of 1-3 operations, every name checked after each). Non-trivial = the call is made with an integer/size for which the statement fixes the '
        'outcome (a name, or the naming error) - all cases are.')
ASSUMPTIONS = ['alphabets handed to the name generators directly have no repeated letter; every constructor (rectangular, '
               'from_gmsh, from_layermesh, from_amesh) and add_layers is handed a repeated-letter alphabet ("abcab") and '
               'must still name distinctly; a one-letter alphabet is a legal custom alphabet (3 names with blanks, none '
               'without: the naming error is then due at number 1)',
               'alphabets are alphabetic (no digits or blanks), as the property statement says',
               'capacities are those of the documented conventions: 26+26^2+26^3 letter names with blanks, 26^3-1 numbers '
               'without blanks (the all-first-letter name belongs to number 0), 99 / 999 digit names, one layer name '
               'fewer when the surface layer name (at / atm) can be spelt with the alphabet',
               'the layer name made unavailable by the surface layer is the name the library actually gave the surface layer '
               '(read from the result); when rectangular() raises, that name is unknown and a naming error is called premature '
               'only below capacity-1 (add_layers itself is checked exactly)',
               'a naming error raised before the capacity is reached is reported as a violation (premature-naming-error): '
               'the quantifier names the capacity limits as part of the space in which names must exist',
               'only names are asserted, never which name a number gets; geometry, areas and connections belong to other '
               'properties',
               're-justified histories: every column is renamed (a geometry with columns of both justifications is not '
               'claimed to name consistently); the library has no rename_node, so node-making operations are applied after '
               'a re-justification only when the node names were re-justified as well (through node.name / geo.node); '
               'no name-generating operation is applied before the geometry has layers (without blocks the library '
               'cannot know the justification)',
               'valid block names = the documented TOUGH2 form (3 free characters, digit-or-blank, digit); for other '
               '5-character strings only idempotence, one-step stabilisation and absence of exceptions are asserted']
BOUNDS = {'quick': {'integers': '0..20000', 'layer_counts': '1..120 + capacity edges <= 2000', 'sizes': 'nx,ny 1..4 x nz in {1,3} + 4 edge sizes',
                    'edge_geometries': 'up to 1369 nodes', 'fix_unfix_alphabet': '6 letters (7776 strings)',
                    'rejustified_histories': '3x3x2 grid, atmos {0,2}, lower case, 7 first x 5 second operations, 2 rename routes + stepwise build'},
          'thorough': {'integers': '0..20000', 'layer_counts': '1..120 + all capacity edges', 'sizes': 'nx,ny 1..6 x nz 1..4 + 4 edge sizes',
                       'edge_geometries': 'up to 18279 nodes / 18278 layers',
                       'fix_unfix_alphabet': '6 letters (7776 strings) and 10 letters (100000 strings)',
                       'rejustified_histories': '2x2x1 and 3x3x2 grids, atmos 0..2, lower and upper case, 7 first x 5 second operations, '
                                                '3 rename routes (one there and back) + stepwise build'}}
TECHNIQUE = ('bounded exhaustive enumeration (every integer x naming option; every small geometry x option; capacity-edge '
             'geometries; every 5-character name) on the real naming functions against capacity and (A3,I2) reference models')
LEVEL_TEXT = ('Every generator integer 0..20000 under every naming option, every rectangular geometry of the size box under '
              'every option combination, the geometries and layer stacks sitting exactly on, one below and one above each '
              'capacity limit, and every 5-character name over a 6-letter alphabet are driven through the real naming code; '
              'nothing is sampled.')
LEVEL_NOTE = ('Trusted: ref/names.py capacity formulas and (A3,I2) print; ref/meshfiles.py input writers. The constructors '
              'from_gmsh / from_layermesh / from_amesh are driven on small rectangular plan meshes only; column counts between the size box and the '
              'capacity edges are covered by the name generators, not by building each geometry.')

NMAX = 20000
BUILDERS = ('from_gmsh-2.2', 'from_gmsh-4.1', 'from_layermesh', 'from_amesh')
CONSTRUCTOR_CHARSETS = ('lower', 'upper', 'abc', 'abcab', 'one', 'mixed12')
CONSTRUCTOR_SIZES = {'quick': [(1, 1, 1), (2, 2, 2), (3, 2, 1), (12, 2, 1), (6, 5, 1), (10, 8, 1), (9, 9, 2)],
                     'thorough': [(1, 1, 1), (2, 1, 2), (2, 2, 2), (3, 2, 1), (3, 3, 3), (4, 3, 2), (12, 2, 1), (1, 19, 1),
                                  (6, 5, 1), (10, 8, 1), (9, 9, 2), (8, 10, 1)]}


def nmax_for(cs, default=NMAX):
    """A one-letter alphabet has at most 3 names: integers far beyond capacity + margin add nothing (and every call past
    the capacity costs a full recursion on a tree that mishandles it)."""
    return min(default, 60) if cs == 'one' else default
CALL_LIMIT = 10          # seconds; backstop for one library call that normally takes microseconds .. milliseconds
FILE_CYCLE_MAX_NODES = 1500      # geometries larger than this are not written to / re-read from a file
UNIT_LIMIT = 900
STATS = {'file_cycles': 0}         # seconds; backstop for a whole work unit
FIX_ALPHA = 'aB019 '
FIX_ALPHA_BIG = 'aBz0159 -.'
EXTRA_SIZES = [(1, 12, 1), (2, 12, 1), (1, 19, 1), (2, 8, 1)]      # 26, 39, 40, 27 nodes: the 3-letter capacity edges


def lib():
    import mulgrids
    return mulgrids


@contextlib.contextmanager
def quiet():
    with contextlib.redirect_stdout(io.StringIO()):
        yield


def justfn(j):
    return str.ljust if j == 'l' else str.rjust


# ---------------------------------------------------------------------------------------------------------
# units

def units(tier):
    us = []
    for conv in range(4):
        for j in 'rl':
            for cs in N.NAME_CHARSETS:
                for sp in (True, False):
                    us.append(('N', conv, j, cs, sp))
                    us.append(('L', conv, j, cs, sp))
            for sp in (True, False):
                us.append(('L', conv, j, 'abcab', sp))
    for conv in range(4):
        for atm in range(3):
            for j in 'rl':
                for cs in N.RECT_CHARSETS:
                    if cs == 'upper':
                        continue        # the same alphabet as 'lower-u'; kept for the other constructors
                    for sp in (True, False):
                        us.append(('G', conv, atm, j, cs, sp))
    # the other constructors: from_gmsh (both file versions), from_layermesh, from_amesh
    for builder in BUILDERS:
        for conv in range(4):
            for j in 'rl':
                us.append(('C', builder, conv, j))
    for e in edge_cases(tier):
        us.append(('X',) + e)
    for a in range(4):
        for b in range(4):
            if a != b:
                us.append(('GR', a, b))
    for conv in range(4):
        for cs in EDIT_CHARSETS:
            for seq in EDIT_SEQUENCES:
                us.append(('ED', conv, cs, seq))
    for conv in range(4):
        for j in 'rl':
            us.append(('RJ', conv, j))
    us.append(('F', FIX_ALPHA, ''))
    if tier == 'thorough':
        for c in FIX_ALPHA_BIG:
            us.append(('F', FIX_ALPHA_BIG, c))
    return us


def edge_cases(tier):
    """(conv, atmos, justify, charset id, spaces, nx, ny, nz)"""
    out = []
    for atm in range(3):
        for j in 'rl':
            # convention 1: 99 two-digit node/column names
            for nx, ny in ((1, 48), (2, 32), (8, 10), (1, 49), (3, 24), (9, 9)):
                out.append((1, atm, j, 'lower', True, nx, ny, 2))
            # convention 2: 999 three-digit names
            for nx, ny in ((1, 498), (26, 36), (9, 99)):
                out.append((2, atm, j, 'lower', True, nx, ny, 1))
            # 99 two-digit layer names
            for nz in (98, 99, 100):
                out.append((0, atm, j, 'lower', True, 1, 1, nz))
            # two-letter layer names: 702 (701 in convention 2, where 'at' is the surface layer), 675 without blanks
            for conv in (2, 3):
                for sp in (True, False):
                    cap = N.layer_capacity(conv, N.NAME_CHARSETS['lower'], sp)
                    for nz in (cap - 1, cap, cap + 1):
                        out.append((conv, atm, j, 'lower', sp, 1, 2, nz))
            # upper-case letter columns: column 1209 is called 'ATM'
            for conv in (0, 3):
                out.append((conv, atm, j, 'lower-u', True, 36, 36, 2))
            # alphabets holding a letter in both cases, with the case option: more nodes than distinct letters
            for conv in (0, 3):
                for cs in ('mixed12-u', 'mixed12-l', 'letters52-u', 'letters52-l', 'letters52', 'mixed12'):
                    for sp in (True, False):
                        out.append((conv, atm, j, cs, sp, 8, 7, 3))
            if tier == 'thorough':
                for conv in (0, 3):
                    for nx, ny in ((6, 2610), (36, 493), (26, 676)):
                        out.append((conv, atm, j, 'lower', True, nx, ny, 1))
                    for nx, ny in ((24, 702), (25, 675)):
                        out.append((conv, atm, j, 'lower', False, nx, ny, 1))
                cap = N.layer_capacity(1, N.NAME_CHARSETS['lower'], True)
                for nz in (cap - 1, cap, cap + 1):
                    out.append((1, atm, j, 'lower', True, 1, 1, nz))
    return out


# ---------------------------------------------------------------------------------------------------------
# N: name generators

def relation(n, cap):
    return 'below-capacity' if n < cap else ('at-capacity' if n == cap else 'above-capacity')


def check_generator(fname, conv, j, cs, sp, nmax=NMAX, geo=None, after=None, collect=None, fresh=None):
    """All integers 0..nmax through one generator.  -> (violations [(sig, what, n)], evaluations, outcome counts).
    geo/after: an object that reached this convention by another route (signatures get '|after=...');
    collect: list receiving the result per integer; fresh: the results of a fresh object to compare with."""
    m = lib()
    chars = N.NAME_CHARSETS[cs]
    if geo is None:
        geo = m.mulgrid(convention=conv)
    jf = justfn(j)
    viol = []
    seen = {}
    oc = {'name': 0, 'naming-error': 0}
    opts, sigopts = 'conv=%d,spaces=%s' % (conv, sp), 'conv=%d' % conv
    if fname == 'layer_name_from_number':
        fn, cap, L = geo.layer_name_from_number, N.layer_number_capacity(conv, chars, sp), N.LAYERNAME_LENGTH[conv]
    else:
        fn = geo.column_name_from_number if fname == 'column_name_from_number' else geo.node_name_from_number
        cap, L = N.column_capacity(conv, chars, sp), N.COLNAME_LENGTH[conv]

    route = '' if after is None else '|after=%s' % after
    rdesc = '' if after is None else ' on an object that had %s' % after

    def add(clause, n, what):
        viol.append(('C17|%s|%s|%s,%s%s' % (fname, clause, sigopts, relation(n, cap), route), what + rdesc, n))

    def note(n, res):
        if collect is not None:
            collect.append(res)
        if fresh is not None and n < len(fresh) and fresh[n] != res:
            add('differs-from-fresh-object', n, '%s(%d) gives %r, a fresh object of convention %d gives %r (%s, justify %s, chars %s)'
                % (fname, n, res, conv, fresh[n], opts, j, cs))

    for n in range(0, nmax + 1):
        try:
            name = fn(n, jf, chars, sp)
        except m.NamingConventionError:
            oc['naming-error'] += 1
            note(n, 'NamingConventionError')
            if n <= cap:
                add('premature-naming-error', n, '%s(%d) raised NamingConventionError, capacity is %d (%s, justify %s, chars %s)'
                    % (fname, n, cap, opts, j, cs))
            continue
        except core.CaseTimeout:
            raise
        except Exception as e:
            add('raises-%s' % type(e).__name__, n, '%s(%d) raised %r (%s, justify %s, chars %s)' % (fname, n, e, opts, j, cs))
            note(n, 'raised-%s' % type(e).__name__)
            continue
        oc['name'] += 1
        note(n, name)
        if not isinstance(name, str) or len(name) != L:
            add('name-length', n, '%s(%d) returned %r, not a %d-character name (%s, justify %s, chars %s)'
                % (fname, n, name, L, opts, j, cs))
        elif n > cap:
            add('no-naming-error', n, '%s(%d) returned %r although the name space holds only %d names (%s, justify %s, chars %s)'
                % (fname, n, name, cap, opts, j, cs))
        if name in seen:
            add('duplicate-name', n, '%s gives %r to both %d and %d (%s, justify %s, chars %s)'
                % (fname, name, seen[name], n, opts, j, cs))
        else:
            seen[name] = n
    return viol, nmax + 1, oc


GENERATORS = ('column_name_from_number', 'node_name_from_number', 'layer_name_from_number')
ROUTE_RANGE = {'quick': 1100, 'thorough': 5000}


def primers(conv):
    """Other routes to the same (convention, justify, chars, spaces): what the object did before."""
    out = [('convention', a) for a in range(4) if a != conv]
    out += [('atmosphere_type', 1), ('justify',), ('spaces',), ('chars',)]
    return out


def primer_name(primer):
    if primer[0] == 'convention':
        return 'generated-names-under-convention-%d-then-convention-assigned' % primer[1]
    if primer[0] == 'atmosphere_type':
        return 'generated-names-then-atmosphere_type-assigned'
    return 'generated-names-with-other-%s' % primer[0]


def prime(m, conv, j, cs, sp, primer, nmax):
    """-> a mulgrid object that has generated names 0..nmax under the primer's options and now has convention conv;
    None when the library refuses the assignment (not a documented operation, so not a violation)."""
    pconv, pj, pcs, psp = conv, j, cs, sp
    if primer[0] == 'convention':
        pconv = primer[1]
    elif primer[0] == 'justify':
        pj = 'l' if j == 'r' else 'r'
    elif primer[0] == 'spaces':
        psp = not sp
    elif primer[0] == 'chars':
        pcs = N.OTHER_CHARSET[cs]
    geo = m.mulgrid(convention=pconv, atmos_type=0)
    jf, chars = justfn(pj), N.NAME_CHARSETS[pcs]
    for fn in (geo.column_name_from_number, geo.node_name_from_number, geo.layer_name_from_number):
        for n in range(0, nmax + 1):
            try:
                fn(n, jf, chars, psp)
            except core.CaseTimeout:
                raise
            except Exception:
                pass
    try:
        with quiet():
            if primer[0] == 'convention':
                geo.convention = conv
            elif primer[0] == 'atmosphere_type':
                geo.atmosphere_type = primer[1]
    except core.CaseTimeout:
        raise
    except Exception:
        return None
    return geo


def check_generator_route(conv, j, cs, sp, primer, nmax, fresh):
    m = lib()
    geo = prime(m, conv, j, cs, sp, primer, nmax)
    if geo is None:
        return [], 0
    out, total = [], 0
    for fname in GENERATORS:
        viol, n, oc = check_generator(fname, conv, j, cs, sp, nmax=nmax, geo=geo, after=primer_name(primer),
                                      fresh=fresh.get(fname) if fresh else None)
        total += n
        out += [(s, w, num, fname) for s, w, num in viol]
    return out, total


def check_int_to_chars(j, cs, sp, length, nmax=NMAX):
    m = lib()
    chars = N.NAME_CHARSETS[cs]
    k = len(chars)
    viol, seen = [], {}
    opts = 'spaces=%s,length=%d' % (sp, length)

    def add(clause, n, what):
        viol.append(('C17|int_to_chars|%s|%s' % (clause, opts), what, n))

    no_name = k == 1 and not sp          # one letter and no blanks: the only name belongs to the number 0
    for n in range(0, nmax + 1):
        try:
            name = m.int_to_chars(n, chars=chars, spaces=sp, length=length)
        except core.CaseTimeout:
            raise
        except m.NamingConventionError as e:
            if not (no_name and n >= 1):
                add('premature-naming-error', n, 'int_to_chars(%d, chars=%s, %s) raised %r' % (n, cs, opts, e))
            continue
        except BaseException as e:
            if isinstance(e, (KeyboardInterrupt, SystemExit)):
                raise
            add('raises-%s' % type(e).__name__, n, 'int_to_chars(%d, chars=%s, %s) raised %r' % (n, cs, opts, e))
            continue
        if not isinstance(name, str) or any(c not in chars for c in name):
            add('foreign-letter', n, 'int_to_chars(%d, chars=%s, %s) returned %r' % (n, cs, opts, name))
            continue
        # length of the name: the smallest L whose capacity holds n
        if no_name and n >= 1:
            want = len(name)          # any distinct longer name would do; only duplicates are asserted on
        elif sp:
            want = 0
            while n > N.letter_capacity(k, want, True):
                want += 1
        else:
            want = max(length, 1) if n > 0 or length else 0
            while n > N.letter_capacity(k, want, False):
                want += 1
            if length == 0 and n == 0:
                want = 0
        if len(name) != want:
            add('name-length', n, 'int_to_chars(%d, chars=%s, %s) returned %r, expected %d letters' % (n, cs, opts, name, want))
        if name in seen:
            add('duplicate-name', n, 'int_to_chars gives %r to both %d and %d (chars=%s, %s)' % (name, seen[name], n, cs, opts))
        else:
            seen[name] = n
    return viol, nmax + 1


def check_new_key(kind, conv, j, cs, sp, nmax=NMAX):
    """new_column_name / new_node_name used the way the library uses them (istart chained), to exhaustion of the name
    space or nmax names; then on dictionaries with a hole."""
    m = lib()
    chars = N.NAME_CHARSETS[cs]
    jf = justfn(j)
    L = N.COLNAME_LENGTH[conv]
    cap = N.letter_capacity(len(chars), L, sp)          # new_dict_key always uses letters
    fname = 'new_%s_name' % kind
    opts, sigopts = 'conv=%d,spaces=%s' % (conv, sp), 'conv=%d' % conv
    viol = []
    evals = 0

    def add(clause, n, what):
        viol.append(('C17|%s|%s|%s,%s' % (fname, clause, sigopts, relation(n, cap)), what, n))

    def one(geo, d, istart, n, guarded=False):
        """n = number of names already handed out + 1"""
        fn = geo.new_column_name if kind == 'column' else geo.new_node_name
        try:
            if guarded or n >= cap - 1:
                # new_dict_key searches 'while used': with the name space exhausted and no error raised it would
                # search for ever - the backstop turns that into a violation
                with core.timelimit(CALL_LIMIT):
                    name, i = fn(istart, jf, chars, sp)
            else:
                name, i = fn(istart, jf, chars, sp)
        except core.CaseTimeout:
            add('does-not-terminate', n, '%s did not return within %d s with %d of %d names in use (%s, justify %s, chars %s)'
                % (fname, CALL_LIMIT, n - 1, cap, opts, j, cs))
            return None, istart
        except m.NamingConventionError:
            if n <= cap:
                add('premature-naming-error', n, '%s raised NamingConventionError with %d of %d names in use (%s, justify %s, chars %s)'
                    % (fname, n - 1, cap, opts, j, cs))
            return None, istart
        except core.CaseTimeout:
            raise
        except Exception as e:
            add('raises-%s' % type(e).__name__, n, '%s raised %r (%s, justify %s, chars %s)' % (fname, e, opts, j, cs))
            return None, istart
        if not isinstance(name, str) or len(name) != L:
            add('name-length', n, '%s returned %r, not a %d-character name (%s, justify %s, chars %s)' % (fname, name, L, opts, j, cs))
        if name in d:
            add('duplicate-name', n, '%s returned %r which is in use (%s, justify %s, chars %s)' % (fname, name, opts, j, cs))
        if n > cap and isinstance(name, str) and len(name) == L and name not in d:
            add('no-naming-error', n, '%s returned %r as name number %d of a space of %d (%s, justify %s, chars %s)'
                % (fname, name, n, cap, opts, j, cs))
        return name, i

    geo = m.mulgrid(convention=conv)
    d = geo.column if kind == 'column' else geo.node
    i = 0
    for n in range(1, min(cap + 2, nmax) + 1):
        name, i = one(geo, d, i, n)
        evals += 1
        if name is None or n > cap:
            break           # exhausted: a name handed out above capacity has been reported; error states are not expanded
        d[name] = n
    # dictionaries with a hole, search from the start
    for mm in (0, 1, 2, 3, 4, 12, 13, 26, 27, 39, 40, 100, 703):
        if mm > cap:
            continue
        full = [jf(N.bijective_name(q, chars), L) if sp else None for q in range(1, mm + 1)]
        if not sp:
            # without blanks: use the library's own generator for the used names (any distinct set would do)
            full = [jf(m.int_to_chars(q, chars=chars, spaces=False, length=L), L) for q in range(1, mm + 1)]
        for hole in [None] + sorted(set([1, (mm + 1) // 2, mm])):
            if hole is not None and not (1 <= hole <= mm):
                continue
            geo = m.mulgrid(convention=conv)
            d = geo.column if kind == 'column' else geo.node
            for q, nm in enumerate(full, 1):
                if q != hole:
                    d[nm] = q
            one(geo, d, 0, len(d) + 1, guarded=True)
            evals += 1
    return viol, evals


def run_N(unit, tier, rec):
    _, conv, j, cs, sp = unit
    total = 0
    fresh = {}
    base_sigs = set()
    for fname in GENERATORS:
        fresh[fname] = []
        viol, n, oc = check_generator(fname, conv, j, cs, sp, nmax=nmax_for(cs), collect=fresh[fname])
        base_sigs.update(sig for sig, what, num in viol)
        total += n
        for k, v in oc.items():
            rec.outcomes[k] += v
        for sig, what, num in viol:
            rec.violation(sig, what, {'kind': 'generator', 'fn': fname, 'conv': conv, 'justify': j, 'chars': cs,
                                      'spaces': sp, 'n': num})
    rec.count('generator_calls', total)
    # the same generators on an object that reached these options by another route
    tr = 0
    for primer in primers(conv):
        viol, n = check_generator_route(conv, j, cs, sp, primer, nmax_for(cs, ROUTE_RANGE[tier]), fresh)
        tr += n
        for sig, what, num, fname in viol:
            if sig.split('|after=')[0] in base_sigs:
                continue            # the fresh object already fails this clause: the route adds nothing to report
            rec.violation(sig, what, {'kind': 'generator-route', 'fn': fname, 'conv': conv, 'justify': j, 'chars': cs,
                                      'spaces': sp, 'n': num, 'primer': list(primer), 'range': nmax_for(cs, ROUTE_RANGE[tier])})
    rec.count('generator_calls_after_primer', tr)
    total += tr
    t2 = 0
    if conv == 0:      # int_to_chars does not depend on the convention
        for length in ((0, 2, 3) if sp else (2, 3)):
            viol, n = check_int_to_chars(j, cs, sp, length, nmax=nmax_for(cs))
            t2 += n
            for sig, what, num in viol:
                rec.violation(sig, what, {'kind': 'int_to_chars', 'justify': j, 'chars': cs, 'spaces': sp,
                                          'length': length, 'n': num})
        rec.count('int_to_chars_calls', t2)
    t3 = 0
    for kind in ('column', 'node'):
        viol, n = check_new_key(kind, conv, j, cs, sp)
        t3 += n
        for sig, what, num in viol:
            rec.violation(sig, what, {'kind': 'new_key', 'which': kind, 'conv': conv, 'justify': j, 'chars': cs,
                                      'spaces': sp, 'n': num})
    rec.count('new_dict_key_calls', t3)
    # distinct cases: every (generator, options, integer) triple is met exactly once by the range loops above; they are
    # counted, not hashed (10^7 keys), and added to the hashed count of the other unit kinds in finalize()
    rec.bulk(total + t2 + t3, [])
    rec.count('generator_cases_distinct_by_construction', total + t2 + t3)
    if conv == 0 and j == 'r' and cs == 'lower':
        try:        # a sample is an illustration, never a verdict
            geo = lib().mulgrid(convention=0)
            cap = N.column_capacity(0, N.NAME_CHARSETS[cs], sp)
            rec.sample({'generator': 'column_name_from_number', 'conv': 0, 'spaces': sp, 'capacity': cap,
                        'name_at_capacity': geo.column_name_from_number(cap, str.rjust, N.NAME_CHARSETS[cs], sp),
                        'above_capacity': 'NamingConventionError'})
        except Exception:
            pass


# ---------------------------------------------------------------------------------------------------------
# L: add_layers

def check_add_layers(conv, j, cs, sp, nz):
    m = lib()
    chars_arg = N.NAME_CHARSETS.get(cs, cs)
    chars = N.uniq(chars_arg)
    LL = N.LAYERNAME_LENGTH[conv]
    geo = m.mulgrid(convention=conv)
    opts = 'conv=%d,spaces=%s' % (conv, sp)
    viol = []
    cap = [N.layer_capacity(conv, chars, sp)]

    def actual_cap():
        # the name the library gave the surface layer decides which layer name is not available
        if geo.layerlist and isinstance(geo.layerlist[0].name, str):
            cap[0] = N.layer_capacity(conv, chars, sp, geo.layerlist[0].name)

    def add(clause, what):
        viol.append(('C17|add_layers|%s|conv=%d,%s' % (clause, conv, relation(nz, cap[0])),
                     'add_layers(%d layers, justify %s, chars %s, %s): %s' % (nz, j, cs, opts, what)))

    try:
        with quiet():
            geo.add_layers([1.0] * nz, 0.0, j, chars_arg, sp)
    except m.NamingConventionError:
        actual_cap()
        if nz <= cap[0]:
            add('premature-naming-error', 'NamingConventionError although %d layer names exist' % cap[0])
        return viol, 'naming-error'
    except core.CaseTimeout:
        raise
    except Exception as e:
        add('raises-%s' % type(e).__name__, 'raised %r' % (e,))
        return viol, 'raised'
    actual_cap()
    for c, w in layer_clauses(geo, nz, LL, cap[0]):
        add(c, w)
    return viol, 'layers'


def layer_clauses(geo, nz, LL, cap):
    out = []
    names = [lay.name for lay in geo.layerlist]
    if nz > cap:
        out.append(('no-naming-error', '%d layers were named although only %d names exist: last names %r'
                    % (nz, cap, names[-3:])))
    if len(names) != nz + 1 or len(geo.layer) != nz + 1:
        out.append(('layer-lost', '%d layers in list, %d in dictionary, expected %d (surface + %d): a duplicate name was dropped'
                    % (len(names), len(geo.layer), nz + 1, nz)))
    if len(set(names)) != len(names):
        dup = sorted(set(x for x in names if names.count(x) > 1))[:3] if len(names) < 3000 else '...'
        out.append(('duplicate-name', 'duplicate layer names %r' % (dup,)))
    bad = [x for x in names if not isinstance(x, str) or len(x) != LL]
    if bad:
        out.append(('name-length', 'layer names not of length %d: %r' % (LL, bad[:3])))
    return out


def layer_counts(conv, cs, sp, tier):
    chars = N.uniq(N.NAME_CHARSETS.get(cs, cs))
    cap = N.layer_capacity(conv, chars, sp)
    ns = set(range(1, 121))
    if cap <= 2000 or tier == 'thorough':
        ns |= {cap - 1, cap, cap + 1}
    return sorted(n for n in ns if n >= 1)


def run_L(unit, tier, rec):
    _, conv, j, cs, sp = unit
    n = 0
    for nz in layer_counts(conv, cs, sp, tier):
        viol, oc = check_add_layers(conv, j, cs, sp, nz)
        rec.case(('L', conv, j, cs, sp, nz), outcome='add_layers:' + oc)
        n += 1
        for sig, what in viol:
            rec.violation(sig, what, {'kind': 'add_layers', 'conv': conv, 'justify': j, 'chars': cs, 'spaces': sp, 'nz': nz})
    rec.count('add_layers_calls', n)
    if conv == 2 and cs == 'lower' and j == 'r' and sp:
        try:
            geo = lib().mulgrid(convention=2)
            geo.add_layers([1.0] * 47, 0.0, 'r', N.NAME_CHARSETS['lower'], True)
            rec.sample({'add_layers': 47, 'conv': 2, 'layers 44..47': [l.name for l in geo.layerlist[44:48]],
                        'surface': geo.layerlist[0].name})
        except Exception:
            pass


# ---------------------------------------------------------------------------------------------------------
# G / X: geometries

def build_geometry(m, builder, self_conv, conv, atm, j, chars_arg, case, sp, nx, ny, nz):
    """One geometry through one of the library's constructors, called on an object of convention self_conv."""
    from ref import meshfiles as MF
    import os
    host = m.mulgrid(convention=self_conv)
    if builder == 'rectangular':
        return host.rectangular([10.0] * nx, [10.0] * ny, [5.0] * nz, convention=conv, atmos_type=atm,
                                justify=j, case=case, chars=chars_arg, spaces=sp)
    d = core.scratch()
    if builder.startswith('from_gmsh'):
        path = os.path.join(d, 'c17_mesh.msh')
        (MF.write_gmsh22 if builder.endswith('2.2') else MF.write_gmsh41)(path, nx, ny)
        return host.from_gmsh(path, [5.0] * nz, convention=conv, atmos_type=atm, justify=j, chars=chars_arg, spaces=sp)
    if builder == 'from_layermesh':
        return host.from_layermesh(MF.fake_layermesh(nx, ny, nz), convention=conv, atmosphere_type=atm, justify=j,
                                   chars=chars_arg, spaces=sp)
    if builder == 'from_amesh':
        inp, seg = MF.write_amesh(d, nx, ny, nz)
        return host.from_amesh(inp, seg, convention=conv, justify=j, chars=chars_arg, spaces=sp)[0]
    raise core.HarnessError('unknown builder %r' % builder)


def geometry_case(conv, atm, j, cs, sp, nx, ny, nz, file_cycle=None, builder='rectangular', self_conv=0):
    """Build one geometry and check every name in it.  -> (violations [(sig, what)], outcome)."""
    m = lib()
    chars_arg, case = N.RECT_CHARSETS[cs]
    site = builder.split('-')[0]
    route = '' if self_conv == 0 else '|called-on-convention-%d-object' % self_conv
    chars = N.effective_chars(chars_arg, case)
    ccap = N.column_capacity(conv, chars, sp)
    lcap = N.layer_capacity(conv, chars, sp)
    nn, nc = (nx + 1) * (ny + 1), nx * ny
    if file_cycle is None:
        file_cycle = nn <= FILE_CYCLE_MAX_NODES and nz <= FILE_CYCLE_MAX_NODES
    CL, LL = N.COLNAME_LENGTH[conv], N.LAYERNAME_LENGTH[conv]
    expect_error = nn > ccap or nz > lcap
    rel = 'above-capacity' if expect_error else ('at-capacity' if (nn == ccap or nz == lcap) else 'below-capacity')
    opts = 'conv=%d' % conv
    lcap_lo = N.layer_capacity_lower_bound(conv, chars, sp)
    desc = '%s(%dx%dx%d, convention %d, atmos_type %d, justify %s, chars %s, spaces %s)%s' % (
        builder, nx, ny, nz, conv, atm, j, cs, sp, '' if self_conv == 0 else ' called on a mulgrid(convention=%d)' % self_conv)
    viol = []

    def add(clause, what):
        viol.append(('C17|%s|%s|%s,%s%s' % (site, clause, opts, rel, route), '%s: %s' % (desc, what)))

    try:
        with quiet():
            with core.timelimit(CALL_LIMIT * 12):
                geo = build_geometry(m, builder, self_conv, conv, atm, j, chars_arg, case, sp, nx, ny, nz)
    except core.CaseTimeout:
        add('does-not-terminate', 'no geometry within %d s' % (CALL_LIMIT * 12))
        return viol, 'timeout'
    except m.NamingConventionError:
        # the geometry is not available, so the name the surface layer got is unknown: a layer count is certainly
        # nameable only up to the capacity less one (add_layers itself is checked exactly in the L units)
        if nn <= ccap and nz <= lcap_lo:
            add('premature-naming-error', 'NamingConventionError although %d node, %d column and %d layer names are needed '
                'and %d / %d exist' % (nn, nc, nz, ccap, lcap))
        return viol, 'naming-error'
    except BaseException as e:
        if isinstance(e, (KeyboardInterrupt, SystemExit, core.HarnessError)):
            raise
        add('raises-%s' % type(e).__name__, 'raised %r' % (e,))
        return viol, 'raised'
    if (geo.convention, geo.atmosphere_type) != (conv, atm):
        add('convention-not-as-asked', 'the geometry has convention %r, atmosphere type %r' % (geo.convention, geo.atmosphere_type))
        return viol, 'geometry'
    if geo.layerlist and isinstance(geo.layerlist[0].name, str):
        lcap = N.layer_capacity(conv, chars, sp, geo.layerlist[0].name)
    if nn > ccap or nz > lcap:
        add('no-naming-error', 'built without error although %d node / %d layer names are needed and only %d / %d exist'
            % (nn, nz, ccap, lcap))
    for c, w in member_clauses(geo, nn, nc, nz, CL, LL, lcap):
        add(c, w)
    if viol and any('lost' in s or 'raises' in s for s, w in viol):
        return viol, 'geometry'
    for c, w in block_clauses(m, geo, conv, atm, nz, True):
        add(c, w)
    # the same geometry constructed by reading the file the library writes for it, twice over
    if file_cycle and not viol:
        for c, w in file_cycle_clauses(m, geo, conv, atm, j, nn, nc, nz, CL, LL, lcap):
            add(c, w)
    try:
        with quiet():
            geo.block_order = 'dmplex'
    except core.CaseTimeout:
        raise
    except Exception as e:
        add('raises-%s' % type(e).__name__, 'block_order = %r raised %r' % ('dmplex', e))
        return viol, 'geometry'
    for c, w in block_clauses(m, geo, conv, atm, nz, False):
        add(c + '-dmplex', w)
    return viol, 'geometry'


def member_clauses(geo, nn, nc, nz, CL, LL, lcap):
    """Node, column and layer names of one geometry: none lost to a duplicate, distinct, of the convention's length."""
    out = []
    for what, lst, dct, want in (('node', geo.nodelist, geo.node, nn), ('column', geo.columnlist, geo.column, nc)):
        nm = [x.name for x in lst]
        if len(nm) != want or len(dct) != want:
            out.append(('%s-lost' % what, '%d %ss in list, %d in dictionary, expected %d: a duplicate name was dropped'
                        % (len(nm), what, len(dct), want)))
        if len(set(nm)) != len(nm):
            out.append(('duplicate-name', 'duplicate %s names' % what))
        bad = [x for x in nm if not isinstance(x, str) or len(x) != CL]
        if bad:
            out.append(('name-length', '%s names not of length %d: %r' % (what, CL, bad[:3])))
    for c, w in layer_clauses(geo, nz, LL, lcap):
        if c != 'no-naming-error':
            out.append((c, w))
    return out


def all_names(geo):
    return {'node': [x.name for x in geo.nodelist], 'column': [x.name for x in geo.columnlist],
            'layer': [x.name for x in geo.layerlist], 'block': list(geo.block_name_list)}


def file_cycle_clauses(m, geo, conv, atm, j, nn, nc, nz, CL, LL, lcap):
    """geo -> file -> g1 -> file -> g2 with plain mulgrid(filename): g1 is a geometry the library constructs, so all
    name clauses hold on it; its names are those of geo (exactly when right-justified; the reader right-justifies,
    so for a left-justified geometry up to the padding); a second cycle changes nothing."""
    import os
    out = []
    path = os.path.join(core.scratch(), 'c17_geo.dat')

    def cycle(g, tag):
        try:
            with quiet():
                with core.timelimit(120):
                    g.write(path)
                    return m.mulgrid(path)
        except core.CaseTimeout:
            out.append(('%s-does-not-terminate' % tag, 'write + mulgrid(filename) did not finish in 120 s'))
        except Exception as e:
            out.append(('%s-raises-%s' % (tag, type(e).__name__), 'write + mulgrid(filename) raised %r' % (e,)))
        return None

    STATS['file_cycles'] += 1
    g1 = cycle(geo, 'reread')
    if g1 is None:
        return out
    if (g1.convention, g1.atmosphere_type) != (conv, atm):
        out.append(('reread-header', 'file read back with convention %r, atmosphere type %r' % (g1.convention, g1.atmosphere_type)))
        return out
    first = [('reread-' + c, 'after write + mulgrid(filename): ' + w) for c, w in member_clauses(g1, nn, nc, nz, CL, LL, lcap)]
    out += first
    if any('lost' in c for c, w in first):
        return out
    out += [('reread-' + c, 'after write + mulgrid(filename): ' + w) for c, w in block_clauses(m, g1, conv, atm, nz, True)]
    n0, n1 = all_names(geo), all_names(g1)
    for kind in ('node', 'column', 'layer', 'block'):
        a, b = n0[kind], n1[kind]
        if j != 'l':
            same = a == b
        elif kind == 'block':
            same = len(a) == len(b)      # block names of a left-justified geometry are rebuilt from re-justified parts
        else:
            same = len(a) == len(b) and all(isinstance(y, str) and x.strip(' ') == y.strip(' ') for x, y in zip(a, b))
        if not same:
            diff = [(x, y) for x, y in zip(a, b) if x != y][:3]
            out.append(('reread-names-changed', '%s names differ after write + mulgrid(filename): %r (%d -> %d names)'
                        % (kind, diff, len(a), len(b))))
            break
    if out:
        return out
    g2 = cycle(g1, 'second-cycle')
    if g2 is None:
        return out
    n2 = all_names(g2)
    for kind in ('node', 'column', 'layer', 'block'):
        if n2[kind] != n1[kind]:
            diff = [(x, y) for x, y in zip(n1[kind], n2[kind]) if x != y][:3]
            out.append(('second-cycle-names-changed', '%s names change again in a second write/read cycle: %r (%d -> %d names)'
                        % (kind, diff, len(n1[kind]), len(n2[kind]))))
            break
    return out


def block_clauses(m, geo, conv, atm, nz, full):
    out = []
    names = geo.block_name_list
    cols, lays = geo.columnlist, geo.layerlist
    natm = [1, len(cols), 0][atm]
    want = natm + len(cols) * nz
    if len(names) != want:
        out.append(('block-count', '%d block names, expected %d' % (len(names), want)))
    bad = [b for b in names if not isinstance(b, str) or len(b) != 5]
    if bad:
        out.append(('block-name-length', 'block names not 5 characters long: %r' % (bad[:3],)))
    sn = set(names)
    if len(sn) != len(names):
        seen, dup = set(), []
        for b in names:
            if b in seen and len(dup) < 3:
                dup.append(b)
            seen.add(b)
        out.append(('duplicate-block-name', 'duplicate block names %r' % (dup,)))
    if len(geo.block_name_index) != len(sn):
        out.append(('block-index', 'block_name_index has %d keys for %d distinct names' % (len(geo.block_name_index), len(sn))))
    if not full:
        return out
    # every (layer, column) pair: the block exists and its parts give the pair back
    built = set()
    bn, cn, ln = geo.block_name, geo.column_name, geo.layer_name
    pairs = []
    if atm == 0 and lays:
        pairs.append((lays[0].name, geo.atmosphere_column_name, 'atmosphere'))
    elif atm == 1 and lays:
        pairs += [(lays[0].name, c.name, 'atmosphere') for c in cols]
    for lay in lays[1:]:
        ls = lay.name
        pairs += [(ls, c.name, 'block') for c in cols]
    errs = {}
    for ls, cs_, what in pairs:
        b = bn(ls, cs_)
        built.add(b)
        if b not in sn:
            errs.setdefault('block-missing', '%s of layer %r, column %r is called %r, which is not in block_name_list'
                            % (what, ls, cs_, b))
            continue
        if cn(b) != cs_:
            errs.setdefault('column-part', 'column_name(%r) = %r, the block was built from column %r' % (b, cn(b), cs_))
        if ln(b) != ls:
            errs.setdefault('layer-part', 'layer_name(%r) = %r, the block was built from layer %r' % (b, ln(b), ls))
    out += sorted(errs.items())
    if len(built) != len(pairs):
        out.append(('pairs-collide', '%d (layer, column) pairs give only %d distinct block names' % (len(pairs), len(built))))
    extra = sn - built
    if extra:
        out.append(('block-unaccounted', 'block names built from no (layer, column) pair: %r' % (sorted(extra)[:3],)))
    # names produced here through the repair functions
    fix, unfix = m.fix_blockname, m.unfix_blockname
    for b in names:
        if isinstance(b, str) and len(b) == 5:
            c = fixunfix_clauses(fix, unfix, b)
            if c:
                out.append(('block-name-repair', '%s [%s]' % (c[0][1], c[0][0])))
                break
    return out


def sizes(tier):
    mx, zs = (6, (1, 2, 3, 4)) if tier == 'thorough' else (4, (1, 3))
    out = [(nx, ny, nz) for nx in range(1, mx + 1) for ny in range(1, mx + 1) for nz in zs]
    return out + EXTRA_SIZES


def run_G(unit, tier, rec):
    _, conv, atm, j, cs, sp = unit
    nblocks = 0
    for nx, ny, nz in sizes(tier):
        viol, oc = geometry_case(conv, atm, j, cs, sp, nx, ny, nz)
        rec.case(('G', conv, atm, j, cs, sp, nx, ny, nz), outcome='rectangular:' + oc)
        for sig, what in viol:
            rec.violation(sig, what, {'kind': 'geometry', 'conv': conv, 'atmos': atm, 'justify': j, 'chars': cs,
                                      'spaces': sp, 'nx': nx, 'ny': ny, 'nz': nz})
    rec.count('geometries', len(sizes(tier)))
    rec.count('geometries_reread_from_file', STATS['file_cycles'])
    STATS['file_cycles'] = 0
    if atm == 0 and j == 'l' and cs == 'lower-u' and sp:
        try:
            with quiet():
                geo = lib().mulgrid().rectangular([1.] * 2, [1.] * 2, [1.] * 2, convention=conv, atmos_type=0, justify='l',
                                                  case='u', spaces=True)
            rec.sample({'rectangular': '2x2x2', 'conv': conv, 'atmos': 0, 'justify': 'l', 'case': 'u',
                        'block_names': list(geo.block_name_list)})
        except Exception:
            pass


def run_GR(unit, tier, rec):
    """A geometry built by rectangular() under convention A (its object has generated names), then convention B
    assigned; the generators must then behave as those of a fresh object of convention B.  An assignment the library
    refuses is not a violation (re-labelling a populated geometry is not a documented operation)."""
    _, ca, cb = unit
    m = lib()
    nmax = ROUTE_RANGE[tier]
    n_eval = refused = 0
    for j in 'rl':
        for sp in (True, False):
            for cs in ('lower', 'abc'):
                chars = N.NAME_CHARSETS[cs]
                fresh = {}
                for fname in GENERATORS:
                    fresh[fname] = []
                    check_generator(fname, cb, j, cs, sp, nmax=nmax, collect=fresh[fname])
                for atm in (0, 2):
                    try:
                        with quiet():
                            geo = m.mulgrid().rectangular([10.] * 3, [10.] * 2, [5.] * 2, convention=ca, atmos_type=atm,
                                                          justify=j, chars=chars, spaces=sp)
                            geo.convention = cb
                    except core.CaseTimeout:
                        raise
                    except Exception:
                        refused += 1
                        continue
                    after = 'built-by-rectangular-under-convention-%d-then-convention-assigned' % ca
                    for fname in GENERATORS:
                        viol, n, oc = check_generator(fname, cb, j, cs, sp, nmax=nmax, geo=geo, after=after, fresh=fresh[fname])
                        n_eval += n
                        for sig, what, num in viol:
                            rec.violation(sig, what, {'kind': 'geometry-route', 'from': ca, 'to': cb, 'justify': j,
                                                      'chars': cs, 'spaces': sp, 'atmos': atm, 'n': num, 'fn': fname,
                                                      'range': nmax})
                    rec.case(('GR', ca, cb, j, sp, cs, atm), outcome='convention-assigned')
    rec.bulk(n_eval, [])
    rec.count('generator_cases_distinct_by_construction', n_eval)
    rec.count('generator_calls_after_rectangular_and_assignment', n_eval)
    rec.count('convention_assignments_refused', refused)


# ---------------------------------------------------------------------------------------------------------
# ED: the library's own name-consuming edit operations, repeated until the name space of the alphabet handed in is used
# up, and once more.  Reference: the free names are the letter names of the convention's column-name length that no
# column (node) of the geometry carries; split_column needs 1 column name, triangulate_column of an n-sided column needs
# 1 node name and n column names (the replaced column's name is released afterwards), refine needs at least 1 node name.

EDIT_CHARSETS = ('xy', 'xyz', 'xyx')       # 'xyx': a repeated letter handed to the edit operations
EDIT_SEQUENCES = ('split', 'triangulate', 'triangulate-then-split', 'refine')
EDIT_GRIDS = ((2, 2), (3, 2), (3, 3), (6, 4), (7, 6))
ED_MAX_COLUMNS = 400            # an edit sequence is abandoned (nothing claimed) when the geometry outgrows this
ED_REREAD_MAX_COLUMNS = 200     # write / read round trips only while the geometry is small
ED_CALL_LIMIT = 5               # seconds for one edit operation (they take milliseconds)
ED_STOP_AFTER_VIOLATION = 20    # seconds of further exploration in a unit once it has recorded a violation: a STOP of
                                # exploration on an already failing tree, never a verdict
ED_STOP_TIMEOUTS = 3            # operations that did not terminate, after which the unit stops exploring


def free_names(dct, chars, L, spaces):
    used = 0
    for nm in dct:
        if isinstance(nm, str) and N.in_letter_namespace(nm.strip(' '), chars, L, spaces):
            used += 1
    return N.letter_capacity(len(chars), L, spaces) - used


def edit_postconditions(geo, CL, area0, ncols_want, nnodes_want):
    out = []
    for what, lst, dct, want in (('column', geo.columnlist, geo.column, ncols_want), ('node', geo.nodelist, geo.node, nnodes_want)):
        nm = [x.name for x in lst]
        if len(nm) != len(dct) or (want is not None and len(nm) != want):
            out.append(('%s-lost' % what, '%d %ss in list, %d in dictionary%s' % (len(nm), what, len(dct),
                                                                                  '' if want is None else ', expected %d' % want)))
        if len(set(nm)) != len(nm):
            out.append(('duplicate-name', 'duplicate %s names' % what))
        bad = [x for x in nm if not isinstance(x, str) or len(x) != CL]
        if bad:
            out.append(('name-length', '%s names not of length %d: %r' % (what, CL, bad[:3])))
    area = sum(c.area for c in geo.columnlist)
    if abs(area - area0) > 1e-9 * area0:
        out.append(('column-lost', 'total column area %r after the edit, %r before: a column was dropped or not added' % (area, area0)))
    return out


RENAME_PRIMES = ('none', 'rename-all-to-themselves', 'rename-upper-case', 'rename-one-identical-pair', 'rename-partly-identical',
                 'rename-digit-ended')


def rename_prime(m, geo, prime, chars_arg, spaces, CL, LL, add):
    """First step of a two-step history: rename_column / rename_layer with lists that map some or all names to
    themselves, then the operations that rely on the by-name dictionaries (add_layer / add_column refusing an existing
    name).  Every name clause must still hold; returns False when the sequence should stop."""
    ok = True
    for what, fn, lst_of, dct_of, L in (('column', geo.rename_column, lambda: geo.columnlist, lambda: geo.column, CL),
                                        ('layer', geo.rename_layer, lambda: geo.layerlist, lambda: geo.layer, LL)):
        names = [x.name for x in lst_of()]
        if prime == 'rename-all-to-themselves':
            old, new = list(names), list(names)
        elif prime == 'rename-upper-case':
            old, new = list(names), [x.upper() for x in names]
        elif prime == 'rename-one-identical-pair':
            old, new = names[-1], names[-1]
        elif prime == 'rename-digit-ended':
            # a name of the convention's length whose last character is a digit (legal for rename_column / in files)
            if what != 'column' or not names[0].strip(' '):
                continue
            fresh = (names[0].strip(' ')[:L - 1] + '1').rjust(L)
            if fresh in names:
                continue
            old, new = [names[0]], [fresh]
        else:
            if what == 'column':
                try:
                    with core.timelimit(ED_CALL_LIMIT):
                        fresh = geo.new_column_name(justfn=str.rjust, chars=chars_arg, spaces=spaces)[0]
                except core.CaseTimeout:
                    add('new_column_name', 'does-not-terminate', 'below-capacity', 0, 'no unused column name within %d s' % ED_CALL_LIMIT)
                    return False
                except Exception:
                    continue
            else:
                fresh = 'zq'.rjust(L)
            if fresh in names or len(names) < 2:
                continue
            old, new = [names[0], names[-1]], [names[0], fresh]
        if not isinstance(new, str) and len(set(new)) != len(new):
            continue                # upper-casing would merge two names: not a legal rename list
        op = 'rename_%s' % what
        area0 = sum(c.area for c in geo.columnlist)
        count0 = len(names)
        try:
            with quiet():
                with core.timelimit(ED_CALL_LIMIT):
                    res = fn(old, new)
        except core.CaseTimeout:
            add(op, 'does-not-terminate', 'below-capacity', 0, '%s(%r, %r) gave no result' % (op, old, new))
            return False
        except Exception as e:
            add(op, 'raises-%s' % type(e).__name__, 'below-capacity', 0, '%s(%r, %r) raised %r' % (op, old, new, e))
            return False
        lst, dct = lst_of(), dct_of()
        now = [x.name for x in lst]
        want = list(names)
        if isinstance(old, str):
            old, new = [old], [new]
        for o, nw in zip(old, new):
            want[names.index(o)] = nw
        problems = []
        if res is not True:
            problems.append(('edit-refused', 'returned %r' % (res,)))
        if now != want:
            problems.append(('names-after-rename', 'names are %r, expected %r' % (now[:6], want[:6])))
        if len(dct) != len(lst) or sorted(dct) != sorted(now) or any(dct[k].name != k for k in dct):
            problems.append(('%s-lost' % what, '%d %ss in list, %d in the by-name dictionary (missing: %r)'
                             % (len(lst), what, len(dct), sorted(set(now) - set(dct))[:4])))
        # the by-name de-duplication the dictionaries exist for: an existing name must not be added a second time
        try:
            with quiet():
                if what == 'layer':
                    geo.add_layer(m.layer(now[-1], lst[-1].bottom - 1.0, lst[-1].bottom - 0.5))
                else:
                    geo.add_column(m.column(now[-1], list(lst[-1].node)))
        except Exception as e:
            problems.append(('raises-%s' % type(e).__name__, 'adding a %s under the existing name %r raised %r' % (what, now[-1], e)))
        after = [x.name for x in lst_of()]
        if len(after) != count0 or len(set(after)) != len(after):
            problems.append(('duplicate-name', 'after %s and add_%s(%r): %s names %r' % (op, what, now[-1], what, after[-5:])))
        blk = geo.block_name_list
        try:
            with quiet():
                geo.setup_block_name_index()
            blk = geo.block_name_list
        except Exception as e:
            problems.append(('raises-%s' % type(e).__name__, 'setup_block_name_index raised %r' % (e,)))
        if len(set(blk)) != len(blk):
            problems.append(('duplicate-block-name', '%d block names, %d distinct' % (len(blk), len(set(blk)))))
        if not problems:
            # every (layer, column) pair still gives a block whose parts give the pair back
            problems += block_clauses(m, geo, geo.convention, geo.atmosphere_type, len(geo.layerlist) - 1, True)
        for c, w in problems:
            add(op, c, 'below-capacity', 0, '%s(%r, %r): %s' % (op, old if len(old) < 5 else old[:4] + ['...'],
                                                               new if len(new) < 5 else new[:4] + ['...'], w))
        if problems:
            ok = False
    return ok


def edit_file_cycle(m, geo):
    """The edited geometry written and read back: no node or column lost, names the same up to padding."""
    import os
    path = os.path.join(core.scratch(), 'c17_edit.dat')
    try:
        with quiet():
            with core.timelimit(CALL_LIMIT * 6):
                geo.write(path)
                g1 = m.mulgrid(path)
    except core.CaseTimeout:
        return [('reread-does-not-terminate', 'write + mulgrid(filename) did not finish')]
    except Exception as e:
        return [('reread-raises-%s' % type(e).__name__, 'write + mulgrid(filename) of the edited geometry raised %r' % (e,))]
    out = []
    for what, a, b in (('node', geo.nodelist, g1.nodelist), ('column', geo.columnlist, g1.columnlist),
                       ('layer', geo.layerlist, g1.layerlist)):
        na, nb = [x.name.strip(' ') for x in a], [x.name.strip(' ') for x in b]
        if len(nb) != len(na):
            out.append(('reread-%s-lost' % what, 'the edited geometry has %d %ss, after write + mulgrid(filename) %d: names that '
                        'differ only in their padding collapse on reading' % (len(na), what, len(nb))))
        elif na != nb:
            out.append(('reread-names-changed', '%s names differ after write + mulgrid(filename): %r'
                        % (what, [(x, y) for x, y in zip(na, nb) if x != y][:3])))
    return out


def edit_sequence(conv, cs, seq, spaces, atm, grid, prime='none', justify='r'):
    """-> (violations [(sig, what, step)], operations applied, set of operations for which exhaustion was reached)."""
    m = lib()
    chars_arg = cs
    chars = N.uniq(cs)
    CL = N.COLNAME_LENGTH[conv]
    nx, ny = grid
    viol, reached = [], set()
    desc = '%s%s on rectangular(%dx%dx1, convention %d, atmos_type %d, chars %r, spaces %s, justify %s)' % (
        '' if prime == 'none' else prime + ' then ', seq, nx, ny, conv, atm, cs, spaces, justify)
    route = ('' if prime == 'none' else '|after=%s' % prime) + ('' if justify == 'r' else '|left-justified')

    def add(op, clause, rel, step, what):
        viol.append(('C17|%s|%s|conv=%d,%s|edit-sequence%s' % (op, clause, conv, rel, route),
                     '%s, operation %d (%s): %s' % (desc, step, op, what), step))

    try:
        with quiet():
            geo = m.mulgrid().rectangular([10.0] * nx, [10.0] * ny, [5.0] if prime == 'none' else [5.0, 5.0], convention=conv,
                                          atmos_type=atm, justify=justify, chars=chars_arg, spaces=spaces)
    except m.NamingConventionError:
        return viol, 0, reached          # this grid cannot be named with the alphabet: nothing to edit
    if prime != 'none':
        if not rename_prime(m, geo, prime, chars_arg, spaces, CL, N.LAYERNAME_LENGTH[conv], add):
            return viol, 1, reached
        chars = N.uniq(cs)
    cap = N.letter_capacity(len(chars), CL, spaces if seq != 'split' else True)
    steps = 0
    phase = 'triangulate' if seq.startswith('triangulate') else seq
    for it in range(cap + 8):              # every operation uses up at least one name: the bound cannot be reached
        if len(geo.columnlist) > ED_MAX_COLUMNS or len(geo.nodelist) > 2 * ED_MAX_COLUMNS:
            break                              # size bound: nothing is claimed beyond it
        quads = [c for c in geo.columnlist if c.num_nodes == 4]
        sp_eff = True if phase == 'split' else spaces          # split_column has no 'spaces' option
        fc = free_names(geo.column, chars, CL, sp_eff)
        fn = free_names(geo.node, chars, CL, sp_eff)
        if phase == 'triangulate' and seq == 'triangulate-then-split' and (fc < 4 or fn < 1):
            phase = 'split'
            continue
        if phase in ('split', 'triangulate') and not quads:
            break                              # no column left to operate on before the names ran out: nothing claimed
        if phase == 'split':
            col = quads[0]
            need_c, need_n, op = 1, 0, 'split_column'
            call = lambda: geo.split_column(col.name, col.node[0].name, chars_arg)
            want_cols, want_nodes = len(geo.columnlist) + 1, len(geo.nodelist)
        elif phase == 'triangulate':
            col = quads[0]
            need_c, need_n, op = 4, 1, 'triangulate_column'
            call = lambda: geo.triangulate_column(col.name, chars_arg, spaces)
            want_cols, want_nodes = len(geo.columnlist) + 3, len(geo.nodelist) + 1
        else:
            col = geo.columnlist[0]
            need_c, need_n, op = None, 1, 'refine'
            call = lambda: geo.refine([col], chars=chars_arg, spaces=spaces)
            want_cols, want_nodes = None, None
        must_raise = fn < need_n or (need_c is not None and fc < need_c)
        must_succeed = need_c is not None and not must_raise
        rel = 'above-capacity' if must_raise else ('at-capacity' if (need_c is not None and fc == need_c and fn >= need_n) else 'below-capacity')
        area0 = sum(c.area for c in geo.columnlist)
        steps += 1
        try:
            with quiet():
                with core.timelimit(ED_CALL_LIMIT):
                    res = call()
        except m.NamingConventionError:
            if must_succeed:
                add(op, 'premature-naming-error', rel, steps, 'NamingConventionError although %d column and %d node names are free '
                    'and %d / %d are needed' % (fc, fn, need_c, need_n))
            if must_raise:
                reached.add(op)
            break                              # the geometry may be half edited: error states are not expanded
        except core.CaseTimeout:
            add(op, 'does-not-terminate', rel, steps, 'no result within %d s (%d column, %d node names free)' % (ED_CALL_LIMIT, fc, fn))
            break
        except Exception as e:
            add(op, 'raises-%s' % type(e).__name__, rel, steps, 'raised %r (%d column, %d node names free)' % (e, fc, fn))
            break
        if must_raise:
            reached.add(op)
            add(op, 'no-naming-error', rel, steps, 'returned %r without NamingConventionError although %d column / %d node names '
                'are free and %s / %d are needed' % (res, fc, fn, need_c if need_c is not None else '>=0', need_n))
            break
        if op == 'split_column' and res is not True:
            add(op, 'edit-refused', rel, steps, 'returned %r for a quadrilateral column and one of its nodes with %d names free' % (res, fc))
            break
        post = edit_postconditions(geo, CL, area0, want_cols, want_nodes)
        if not post and (steps <= 3 or steps % 5 == 0) and len(geo.columnlist) <= ED_REREAD_MAX_COLUMNS:
            post = edit_file_cycle(m, geo)
        for c, w in post:
            add(op, c, rel, steps, w)
        if post:
            break
    else:
        add(seq, 'names-never-run-out', 'above-capacity', steps, '%d operations without exhausting %d names' % (steps, cap))
    return viol, steps, reached


def run_ED(unit, tier, rec):
    import time
    _, conv, cs, seq = unit
    first_violation_at = None
    timeouts = 0
    stopped = False
    # without blanks a repeated letter makes 'which name belongs to the number 0' ambiguous for the operations that
    # take the alphabet as it is: the repeated-letter alphabet is run with blanks allowed only
    for spaces in ((True,) if (seq == 'split' or len(set(cs)) != len(cs)) else (True, False)):
        for atm in (0, 1, 2):
            for grid in EDIT_GRIDS:
                for prime, justify in [(p_, 'r') for p_ in RENAME_PRIMES] + [('none', 'l'), ('rename-digit-ended', 'l')]:
                    if first_violation_at is not None and (time.time() - first_violation_at > ED_STOP_AFTER_VIOLATION
                                                           or timeouts >= ED_STOP_TIMEOUTS):
                        stopped = True
                        break
                    with core.timelimit(300):
                        viol, steps, reached = edit_sequence(conv, cs, seq, spaces, atm, grid, prime, justify)
                    rec.case(('ED', conv, cs, seq, spaces, atm, grid, prime, justify), nontrivial=steps > 0,
                             outcome='edit-sequence:' + ('exhausted' if reached else ('not-exhausted' if steps else 'grid-not-nameable')))
                    rec.count('edit_operations', steps)
                    if prime != 'none' and steps:
                        rec.count('edit_sequences_after_rename', 1)
                    for op in reached:
                        rec.count('exhaustion_reached:' + op, 1)
                    for sig, what, st in viol:
                        rec.violation(sig, what, {'kind': 'edit-sequence', 'conv': conv, 'chars': cs, 'seq': seq, 'spaces': spaces,
                                                  'atmos': atm, 'grid': list(grid), 'step': st, 'prime': prime,
                                                  'justify': justify})
                        if first_violation_at is None:
                            first_violation_at = time.time()
                        if 'does-not-terminate' in sig:
                            timeouts += 1
    if stopped:
        rec.count('ED_units_that_stopped_exploring_after_violations', 1)
        rec.notes.append('ED unit %r stopped exploring further sequences after recording violations' % (unit,))


# ---------------------------------------------------------------------------------------------------------
# RJ: name-generating operations on a geometry whose justification is not the one it was first built / first asked with.
# Histories (all steps on ONE object):
#   rename-list / rename-one-by-one:  rectangular(justify=j); first operation; ALL columns renamed to the other
#       justification with rename_column (one call with lists / one call per column); second operation;
#   rename-there-and-back (thorough): the same, then all columns renamed back and the second operation once more;
#   stepwise-build:  the steps of rectangular() done by hand on an empty mulgrid (nodes, columns, connections, then
#       add_layers and the index set-up), optionally reading the public properties right_justified_names /
#       uppercase_names at every stage before the layers exist; then the second operation.
# After every operation: column (node, layer) names distinct and of the convention's length, by-name dictionaries
# complete, block names distinct / 5 long / invertible, one write + mulgrid(filename) cycle loses no column, node or
# layer (names that differ only in padding collapse there), plan area kept.  Differential clause (order independence):
# when the column names before the last operation equal those of a geometry that reached them directly
# (rectangular(justify=final) and the same operations, never re-justified), the names after it must be equal too.
# The library has no rename_node: with nodes 'kept' only the operations that make no node are applied after the
# renaming; with nodes 'rejustified' the node names are re-justified through node.name / geo.node (the only way there
# is) and the node-making operations refine / triangulate_column are applied as well.

RJ_FIRST = ('none', 'query', 'split', 'subdivide', 'refine_layers', 'refine', 'triangulate')
RJ_SECOND = ('split', 'subdivide', 'refine_layers', 'refine', 'triangulate')
RJ_NODE_OPS = ('refine', 'triangulate')
RJ_CHARSETS = {'quick': ('lower',), 'thorough': ('lower', 'upper')}
RJ_ATMOS = {'quick': (0, 2), 'thorough': (0, 1, 2)}
RJ_GRIDS = {'quick': ((3, 3, 2),), 'thorough': ((2, 2, 1), (3, 3, 2))}
RJ_ROUTES = {'quick': ('rename-list', 'rename-one-by-one', 'stepwise-build'),
             'thorough': ('rename-list', 'rename-one-by-one', 'rename-there-and-back', 'stepwise-build')}


def rj_apply(geo, op, chars):
    """One operation of the library on the first quadrilateral column (last layer)."""
    if op == 'none':
        return None
    if op == 'query':
        return (geo.right_justified_names, geo.uppercase_names)
    if op == 'refine_layers':
        return geo.refine_layers([geo.layerlist[-1]], 2, chars, True)
    col = [c for c in geo.columnlist if c.num_nodes == 4][0]
    if op == 'split':
        return geo.split_column(col.name, col.node[0].name, chars)
    if op == 'refine':
        return geo.refine([col], chars=chars, spaces=True)
    if op == 'subdivide':
        res = geo.subdivide_column(col.name, 0, [(0, 1, 2), (2, 3, 0)], chars, True)
    else:
        res = geo.triangulate_column(col.name, chars, True)
    # what decompose_columns() does after its subdivide_column calls
    for c in geo.missing_connections:
        geo.add_connection(c)
    geo.setup_block_name_index()
    geo.setup_block_connection_name_index()
    return res


def rj_rejustify(geo, to, one_by_one, nodes):
    """All columns renamed to the justification 'to' with rename_column; -> its results."""
    CL = geo.colname_length
    jf = justfn(to)
    old = [c.name for c in geo.columnlist]
    new = [jf(x.strip(' '), CL) for x in old]
    if one_by_one:
        res = [geo.rename_column(o, n_) for o, n_ in zip(old, new) if o != n_]
    else:
        res = [geo.rename_column(old, new)]
    if nodes == 'rejustified':
        for nd in geo.nodelist:
            nd.name = jf(nd.name.strip(' '), CL)
        geo.node = dict((nd.name, nd) for nd in geo.nodelist)
    return res, new


def rj_stepwise(m, conv, atm, j, chars, grid, query):
    """rectangular()'s own steps done by hand on an empty geometry."""
    import numpy as np
    nx, ny, nz = grid
    geo = m.mulgrid(convention=conv, atmos_type=atm)
    jf = justfn(j)
    if query:
        rj_apply(geo, 'query', chars)
    num = 1
    for iy in range(ny + 1):
        for ix in range(nx + 1):
            geo.add_node(m.node(geo.node_name_from_number(num, jf, chars, True), np.array([10.0 * ix, 10.0 * iy])))
            num += 1
    if query:
        rj_apply(geo, 'query', chars)
    num = 1
    nxv = nx + 1
    for iy in range(ny):
        for ix in range(nx):
            verts = [iy * nxv + ix + 1, (iy + 1) * nxv + ix + 1, (iy + 1) * nxv + ix + 2, iy * nxv + ix + 2]
            nodes = [geo.node[geo.node_name_from_number(v, jf, chars, True)] for v in verts]
            geo.add_column(m.column(geo.column_name_from_number(num, jf, chars, True), nodes))
            num += 1
    for c in geo.missing_connections:
        geo.add_connection(c)
    if query:
        rj_apply(geo, 'query', chars)
    geo.add_layers([5.0] * nz, 0.0, j, chars, True)
    geo.set_default_surface()
    geo.identify_neighbours()
    geo.setup_block_name_index()
    geo.setup_block_connection_name_index()
    return geo


def rj_names(geo):
    # as sorted lists: which column gets which name is not asserted (refine() walks sets, the assignment varies)
    return (sorted(c.name for c in geo.columnlist), sorted(l.name.strip(' ') for l in geo.layerlist))


def rj_direct(m, conv, atm, final_j, chars, grid, ops):
    """The same operations on a geometry built with the final justification and never re-justified.
    -> (names before the last operation, names after it) or None when the library refuses."""
    nx, ny, nz = grid
    try:
        with quiet():
            with core.timelimit(CALL_LIMIT * 6):
                geo = m.mulgrid().rectangular([10.0] * nx, [10.0] * ny, [5.0] * nz, convention=conv, atmos_type=atm,
                                              justify=final_j, chars=chars, spaces=True)
                for op in ops[:-1]:
                    rj_apply(geo, op, chars)
                pre = rj_names(geo)
                rj_apply(geo, ops[-1], chars)
                return pre, rj_names(geo)
    except core.CaseTimeout:
        raise
    except Exception:
        return None


def rj_sequence(conv, atm, j, cs, grid, route, first, second, nodes, cache=None):
    """-> (violations [(sig, what)], operations applied, 'compared' / 'not-comparable' / 'stopped')"""
    m = lib()
    chars = N.NAME_CHARSETS[cs]
    nx, ny, nz = grid
    CL, LL = N.COLNAME_LENGTH[conv], N.LAYERNAME_LENGTH[conv]
    oj = 'l' if j == 'r' else 'r'
    viol = []
    desc = '%s: %dx%dx%d, convention %d, atmos_type %d, justify %s, chars %s, first operation %s, nodes %s' % (
        route, nx, ny, nz, conv, atm, j, cs, first, nodes)

    def add(op, clause, what):
        viol.append(('C17|%s|%s|conv=%d|rejustified-history|after=%s' % (op, clause, conv, route), '%s; %s: %s' % (desc, op, what)))

    def guarded(op, fn):
        try:
            with quiet():
                with core.timelimit(ED_CALL_LIMIT * 4):
                    return True, fn()
        except core.CaseTimeout:
            add(op, 'does-not-terminate', 'no result within %d s' % (ED_CALL_LIMIT * 4))
        except m.NamingConventionError as e:
            add(op, 'premature-naming-error', 'raised %r with %s columns named (26 or 27 letters: 18278+ names)'
                % (e, len(geo.columnlist) if geo is not None else 'no'))
        except Exception as e:
            add(op, 'raises-%s' % type(e).__name__, 'raised %r' % (e,))
        return False, None

    def after(op, area0, res):
        post = []
        if op == 'split' and res is not True:
            post.append(('edit-refused', 'returned %r for a quadrilateral column and one of its nodes' % (res,)))
        post += edit_postconditions(geo, CL, area0, None, None)
        post += [(c, w) for c, w in layer_clauses(geo, len(geo.layerlist) - 1, LL, 10 ** 9)]
        if not post:
            post += block_clauses(m, geo, conv, atm, len(geo.layerlist) - 1, True)
        if not post:
            post += edit_file_cycle(m, geo)
        for c, w in post:
            add(op, c, w)
        return not post

    def operate(op):
        area0 = sum(c.area for c in geo.columnlist)
        ok, res = guarded(op, lambda: rj_apply(geo, op, chars))
        if not ok:
            return False
        return True if op in ('none', 'query') else after(op, area0, res)

    def rename(to, tag):
        old = [c.name for c in geo.columnlist]
        ok, res = guarded('rename_column', lambda: rj_rejustify(geo, to, route == 'rename-one-by-one', nodes))
        if not ok:
            return False
        results, new = res
        now = [c.name for c in geo.columnlist]
        if any(r is not True for r in results):
            add('rename_column', 'edit-refused', 'returned %r when renaming all columns to justify %s' % (results[:3], to))
            return False
        if now != new or sorted(geo.column) != sorted(new):
            add('rename_column', 'names-after-rename', 'names are %r, expected %r' % (now[:4], new[:4]))
            return False
        return True

    geo = None
    steps = 0
    if route == 'stepwise-build':
        ok, geo = guarded('stepwise-build', lambda: rj_stepwise(m, conv, atm, j, chars, grid, first == 'query'))
        if not ok:
            return viol, steps, 'stopped'
        final_j, ops = j, [second]
    else:
        ok, geo = guarded('rectangular', lambda: m.mulgrid().rectangular(
            [10.0] * nx, [10.0] * ny, [5.0] * nz, convention=conv, atmos_type=atm, justify=j, chars=chars, spaces=True))
        if not ok:
            return viol, steps, 'stopped'
        steps += first != 'none'
        if not operate(first) or not rename(oj, 'there'):
            return viol, steps, 'stopped'
        final_j, ops = oj, [first, second]
        if route == 'rename-there-and-back':
            steps += 1
            if not operate(second) or not rename(j, 'back'):
                return viol, steps, 'stopped'
            final_j, ops = j, [first, second, second]
    pre = rj_names(geo)
    steps += 1
    if not operate(second):
        return viol, steps, 'stopped'
    post = rj_names(geo)
    ops = [o for o in ops if o not in ('none', 'query')]
    if 'refine' in ops:
        # refine() walks Python sets while it frees and takes names: WHICH names end up in use varies from run to run
        # on one and the same input, so its result is judged by the clauses above only
        return viol, steps, 'not-comparable'
    key = (conv, atm, final_j, cs, grid, tuple(ops))
    if cache is None or key not in cache:
        direct = rj_direct(m, conv, atm, final_j, chars, grid, ops)
        if cache is not None:
            cache[key] = direct
    else:
        direct = cache[key]
    if direct is None or direct[0] != pre:
        return viol, steps, 'not-comparable'
    if direct[1] != post:
        diff = (sorted(set(post[0] + post[1]) - set(direct[1][0] + direct[1][1]))[:3],
                sorted(set(direct[1][0] + direct[1][1]) - set(post[0] + post[1]))[:3])
        add(second, 'differs-from-direct-route', 'the names before the operation are those of a geometry built with justify %s '
            'and never re-justified, the names after it differ: %r (%d / %d columns)' % (final_j, diff, len(post[0]), len(direct[1][0])))
    return viol, steps, 'compared'


def rj_cases(tier):
    """(atm, cs, grid, route, first, second, nodes) of one (convention, justify) unit."""
    out = []
    for atm in RJ_ATMOS[tier]:
        for cs in RJ_CHARSETS[tier]:
            for grid in RJ_GRIDS[tier]:
                for route in RJ_ROUTES[tier]:
                    for second in RJ_SECOND:
                        if route == 'stepwise-build':
                            out += [(atm, cs, grid, route, first, second, 'kept') for first in ('none', 'query')]
                            continue
                        for first in RJ_FIRST:
                            for nodes in ('kept', 'rejustified'):
                                if nodes == 'kept' and second in RJ_NODE_OPS:
                                    continue        # no rename_node in the library: see the section comment
                                out.append((atm, cs, grid, route, first, second, nodes))
    return out


def run_RJ(unit, tier, rec):
    _, conv, j = unit
    cache = {}
    for atm, cs, grid, route, first, second, nodes in rj_cases(tier):
        with core.timelimit(300):
            viol, steps, oc = rj_sequence(conv, atm, j, cs, grid, route, first, second, nodes, cache)
        rec.case(('RJ', conv, j, atm, cs, grid, route, first, second, nodes), nontrivial=steps > 0,
                 outcome='rejustified-history:' + oc)
        rec.count('rejustified_history_operations', steps)
        rec.count('rejustified_histories', 1)
        if oc == 'compared':
            rec.count('rejustified_histories_compared_with_direct_route', 1)
        for sig, what in viol:
            rec.violation(sig, what, {'kind': 'rejustify', 'conv': conv, 'justify': j, 'atmos': atm, 'chars': cs,
                                      'grid': list(grid), 'route': route, 'first': first, 'second': second, 'nodes': nodes})


def run_C(unit, tier, rec):
    """The constructors other than rectangular(): same clauses, same options; each also called on an object whose own
    convention differs from the one asked for (the result must not depend on it)."""
    _, builder, conv, j = unit
    n = 0
    for cs in CONSTRUCTOR_CHARSETS:
        for sp in (True, False):
            for atm in ((2,) if builder == 'from_amesh' else (0, 1, 2)):
                for (nx, ny, nz) in CONSTRUCTOR_SIZES[tier]:
                    if builder == 'from_amesh' and nx * ny > 40:
                        continue           # from_amesh rebuilds a search tree per point: keep its meshes small
                    if atm == 1 and (nx, ny, nz) not in CONSTRUCTOR_SIZES[tier][:3]:
                        continue
                    base_sigs = set()
                    for self_conv in ((0, 2) if (nx, ny, nz) in CONSTRUCTOR_SIZES[tier][:4] else (0,)):
                        viol, oc = geometry_case(conv, atm, j, cs, sp, nx, ny, nz, file_cycle=False, builder=builder,
                                                 self_conv=self_conv)
                        if self_conv == 0:
                            base_sigs = set(sig for sig, what in viol)
                        else:       # report the route only where it changes the verdict
                            viol = [(sig, what) for sig, what in viol if sig.split('|called-on-')[0] not in base_sigs]
                        n += 1
                        rec.case(('C', builder, conv, atm, j, cs, sp, nx, ny, nz, self_conv), outcome=builder.split('-')[0] + ':' + oc)
                        for sig, what in viol:
                            rec.violation(sig, what, {'kind': 'geometry', 'builder': builder, 'self_conv': self_conv,
                                                      'conv': conv, 'atmos': atm, 'justify': j, 'chars': cs, 'spaces': sp,
                                                      'nx': nx, 'ny': ny, 'nz': nz})
    rec.count('geometries_by_other_constructors', n)


def run_X(unit, tier, rec):
    _, conv, atm, j, cs, sp, nx, ny, nz = unit
    with core.timelimit(600):
        viol, oc = geometry_case(conv, atm, j, cs, sp, nx, ny, nz)
    rec.case(('X',) + tuple(unit[1:]), outcome='rectangular:' + oc)
    for sig, what in viol:
        rec.violation(sig, what, {'kind': 'geometry', 'conv': conv, 'atmos': atm, 'justify': j, 'chars': cs,
                                  'spaces': sp, 'nx': nx, 'ny': ny, 'nz': nz})
    rec.count('edge_geometries', 1)
    rec.count('geometries_reread_from_file', STATS['file_cycles'])
    STATS['file_cycles'] = 0
    rec.count('edge_geometry_names', (nx + 1) * (ny + 1) + nx * ny * (nz + 1) + nz)


# ---------------------------------------------------------------------------------------------------------
# F: fix / unfix

def fixunfix_clauses(fix, unfix, n):
    out = []

    def guard(f, x, label):
        try:
            return f(x)
        except core.CaseTimeout:
            raise
        except Exception as e:
            out.append(('C17|%s|raises-%s|%s' % (label, type(e).__name__, name_class(n)), '%s(%r) raised %r' % (label, x, e)))
            return None

    f1 = guard(fix, n, 'fix_blockname')
    if f1 is not None:
        f2 = guard(fix, f1, 'fix_blockname')
        if f2 is not None and f2 != f1:
            out.append(('C17|fix_blockname|not-idempotent|%s' % name_class(n), 'fix(%r) = %r but fix(fix) = %r' % (n, f1, f2)))
    u = guard(unfix, n, 'unfix_blockname')
    c1 = guard(fix, u, 'fix_blockname') if u is not None else None
    if c1 is not None:
        u2 = guard(unfix, c1, 'unfix_blockname')
        c2 = guard(fix, u2, 'fix_blockname') if u2 is not None else None
        if c2 is not None and c2 != c1:
            out.append(('C17|fix.unfix|cycle-not-stable|%s' % name_class(n),
                        'one write/read cycle takes %r to %r, a second one to %r' % (n, c1, c2)))
    if N.valid_blockname_ref(n):
        sp = N.simulator_print(n)
        if f1 is not None:
            uf = guard(unfix, f1, 'unfix_blockname')
            if uf is not None and uf != sp:
                out.append(('C17|unfix_blockname|not-simulator-form|%s' % name_class(n),
                            'unfix(fix(%r)) = %r, the simulator prints %r' % (n, uf, sp)))
        if n == sp and u is not None and u != n:
            out.append(('C17|unfix_blockname|changes-simulator-form|%s' % name_class(n),
                        'unfix(%r) = %r although %r is already what the simulator prints' % (n, u, n)))
    return out


def name_class(n):
    def k(c):
        return 'd' if c.isdigit() else ('b' if c == ' ' else ('l' if c.isalpha() else 'p'))
    return 'third=%s,fourth=%s,fifth=%s' % (k(n[2]), k(n[3]), k(n[4]))


def mapping_clauses(m, n):
    """fix_block_mapping on a one-entry mapping: applying it twice equals applying it once, and it agrees with
    fix_blockname."""
    out = []
    v = n[::-1]
    d1 = {n: v}
    try:
        m.fix_block_mapping(d1)
        d2 = dict(d1)
        m.fix_block_mapping(d2)
    except core.CaseTimeout:
        raise
    except Exception as e:
        return [('C17|fix_block_mapping|raises-%s|%s' % (type(e).__name__, name_class(n)), 'fix_block_mapping({%r: %r}) raised %r' % (n, v, e))]
    if d2 != d1:
        out.append(('C17|fix_block_mapping|not-idempotent|%s' % name_class(n),
                    'fix_block_mapping({%r: %r}) gives %r, applied again %r' % (n, v, d1, d2)))
    return out


def run_F(unit, tier, rec):
    import itertools
    _, alpha, prefix = unit
    m = lib()
    fix, unfix = m.fix_blockname, m.unfix_blockname
    n = 0
    nvalid = 0
    for tup in itertools.product(alpha, repeat=5 - len(prefix)):
        s = prefix + ''.join(tup)
        n += 1
        valid = N.valid_blockname_ref(s)
        nvalid += valid
        for sig, what in fixunfix_clauses(fix, unfix, s) + mapping_clauses(m, s):
            rec.violation(sig, what, {'kind': 'name', 'name': s})
        rec.case(('F', s), outcome='valid-name' if valid else 'other-name')
    rec.count('fix_unfix_names', n)
    rec.count('fix_unfix_valid_names', nvalid)
    if not prefix:
        for s in ('aB1 9', 'aBa09', '  101'):
            try:
                rec.sample({'name': s, 'fix': fix(s), 'unfix(fix)': unfix(fix(s)), 'simulator_print': N.simulator_print(s)})
            except Exception:
                pass


# ---------------------------------------------------------------------------------------------------------

def run_unit(unit, tier, rec):
    with core.timelimit(UNIT_LIMIT):       # a hit is reported by mc.core as a unit-timeout violation
        _run_unit(unit, tier, rec)


def _run_unit(unit, tier, rec):
    k = unit[0]
    if k == 'N':
        run_N(unit, tier, rec)
    elif k == 'L':
        run_L(unit, tier, rec)
    elif k == 'G':
        run_G(unit, tier, rec)
    elif k == 'X':
        run_X(unit, tier, rec)
    elif k == 'GR':
        run_GR(unit, tier, rec)
    elif k == 'ED':
        run_ED(unit, tier, rec)
    elif k == 'C':
        run_C(unit, tier, rec)
    elif k == 'RJ':
        run_RJ(unit, tier, rec)
    elif k == 'F':
        run_F(unit, tier, rec)
    else:
        raise core.HarnessError('unknown unit %r' % (unit,))


def finalize(rec, tier):
    for op in ('split_column', 'triangulate_column', 'refine'):
        # (vacuity guard; a library that misbehaves may never reach exhaustion - then the violations speak)
        if not rec.counters.get('exhaustion_reached:' + op) and not rec.viol:
            raise core.HarnessError('no edit sequence reached the exhaustion of names for %s: the ED units are vacuous' % op)
    return {'distinct_nontrivial': len(rec.distinct) + rec.counters.get('generator_cases_distinct_by_construction', 0),
            'distinct_hashed': len(rec.distinct),
            'dimensions': {'integer': 'crossed 0..20000', 'convention': 'crossed', 'atmosphere_type': 'crossed',
                           'justify': 'crossed', 'alphabet': 'crossed over the listed alphabets',
                           'spaces': 'crossed', 'size': 'crossed in the size box; capacity edges listed explicitly',
                           'five_character_names': 'crossed over the stated alphabet',
                           'history': 'first operation x re-justification route x node treatment x second operation, crossed '
                                      'on the stated grids (RJ units)'}}


def replay(case):
    k = case['kind']
    if k == 'generator':
        viol, n, oc = check_generator(case['fn'], case['conv'], case['justify'], case['chars'], case['spaces'], nmax=case['n'])
        return [(s, w) for s, w, num in viol if num == case['n']]
    if k == 'generator-route':
        fresh = {}
        for fname in GENERATORS:
            fresh[fname] = []
            check_generator(fname, case['conv'], case['justify'], case['chars'], case['spaces'], nmax=case['range'],
                            collect=fresh[fname])
        viol, n = check_generator_route(case['conv'], case['justify'], case['chars'], case['spaces'], tuple(case['primer']),
                                        case['range'], fresh)
        return [(s, w) for s, w, num, fname in viol if num == case['n'] and fname == case['fn']]
    if k == 'geometry-route':
        m = lib()
        fresh = []
        check_generator(case['fn'], case['to'], case['justify'], case['chars'], case['spaces'], nmax=case['range'], collect=fresh)
        with quiet():
            geo = m.mulgrid().rectangular([10.] * 3, [10.] * 2, [5.] * 2, convention=case['from'], atmos_type=case['atmos'],
                                          justify=case['justify'], chars=N.NAME_CHARSETS[case['chars']], spaces=case['spaces'])
            geo.convention = case['to']
        viol, n, oc = check_generator(case['fn'], case['to'], case['justify'], case['chars'], case['spaces'], nmax=case['range'],
                                      geo=geo, fresh=fresh,
                                      after='built-by-rectangular-under-convention-%d-then-convention-assigned' % case['from'])
        return [(s, w) for s, w, num in viol if num == case['n']]
    if k == 'edit-sequence':
        viol, steps, reached = edit_sequence(case['conv'], case['chars'], case['seq'], case['spaces'], case['atmos'],
                                             tuple(case['grid']), case.get('prime', 'none'), case.get('justify', 'r'))
        return [(s, w) for s, w, st in viol]
    if k == 'rejustify':
        return rj_sequence(case['conv'], case['atmos'], case['justify'], case['chars'], tuple(case['grid']), case['route'],
                           case['first'], case['second'], case['nodes'])[0]
    if k == 'int_to_chars':
        viol, n = check_int_to_chars(case['justify'], case['chars'], case['spaces'], case['length'], nmax=case['n'])
        return [(s, w) for s, w, num in viol if num == case['n']]
    if k == 'new_key':
        viol, n = check_new_key(case['which'], case['conv'], case['justify'], case['chars'], case['spaces'])
        return [(s, w) for s, w, num in viol]
    if k == 'add_layers':
        return check_add_layers(case['conv'], case['justify'], case['chars'], case['spaces'], case['nz'])[0]
    if k == 'geometry':
        return geometry_case(case['conv'], case['atmos'], case['justify'], case['chars'], case['spaces'],
                             case['nx'], case['ny'], case['nz'], builder=case.get('builder', 'rectangular'),
                             self_conv=case.get('self_conv', 0),
                             file_cycle=False if case.get('builder', 'rectangular') != 'rectangular' else None)[0]
    if k == 'name':
        m = lib()
        return fixunfix_clauses(m.fix_blockname, m.unfix_blockname, case['name']) + mapping_clauses(m, case['name'])
    raise core.HarnessError('unknown case kind %r' % k)
