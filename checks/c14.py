"""C14 - IAPWS-97 water properties are thermodynamically consistent over their range (IAPWS97.py).

Engine E3: stated lattices plus the floating-point neighbours of every limit, and one part that is
exhaustive over a finite table (the multiplication chains of power_array).

Clauses (DESIGN.md section 6, C14):
 (1) chains    exponent-tracking run of power_array over every chain table x every index a caller reads
 (2) inverses  sat/tsat on every 0.01 degC of the closed saturation interval, both directions, end points
               and their neighbours; b23p/b23t likewise on 350..590 degC
 (3) identity  single-potential identity by 4th-order central differences on the region lattices
 (4) monotone  density rises with pressure along every lattice isotherm; viscosity > 0
 (5) boundary  1|3 along 350 degC, 2|3 along b23, 3|4 (equal-area pressure of the region 3 isotherm against
               sat) from 350 degC to the critical point, 1|2|4 (Clausius-Clapeyron) along the saturation line
 (6) region    classifier = reference predicate, and the named region's routine accepts the state, on the
               (T, p) lattice and on the neighbours of every limit
 (7) history   repeatability / order independence: at every limit and ulp-neighbour state and a thinned lattice,
               each routine twice in a row and every ordered pair of routines as f, g, f must reproduce bit for
               bit the value the call has as the first call after a fresh import of the module
 (8) primer    order independence against neighbouring arguments: at every state of the history lattice x the tier's
               densities, every routine f after every routine g (g == f included) called at a primer state whose
               temperature, other argument (p, d) or all arguments are offset by +-1 ulp, 1e-9, 1e-6, 1e-5, 1e-4,
               1e-3 relative or lie far away; f must reproduce bit for bit its value after a fresh import, g its
               own first value
All tolerances are in ref/thermo.py (TOL: noise-limited quantities, BAND: signed boundary jumps) with the
measurement behind them.
"""
import math
import os

from mc import core
from ref import thermo as R

ID = 'C14'
LEVEL = 'exploration'
ENGINE = 'E3'
EXHAUSTIVE = True
RULE = ('chains: every (chain table, index read by a caller with non-zero multiplier) under two exponent-tracking '
        'runs of power_array; inverses: every multiple of 0.01 degC in [0.01, tcritical] and [350, 590] plus end '
        'points and their ulp neighbours, and log-spaced pressure lattices for the reverse direction, both with the 48 nearest doubles and 10^-13..10^-3 relative offsets around every zero of a coefficient of the two region 4 quadratics (located from the published coefficients); identity / '
        'monotonicity / viscosity: every state of the region 1, 2 (T x log-spaced p) and region 3 (T x density) '
        'lattices, which include exactly the critical density and the critical temperature +- 1 ulp (the zeros of the '
        'reduced variables of the viscosity correlation); boundaries: lattices along 350 degC, b23, the saturation line; classifier: (T lattice + ulp '
        'neighbours of 0.01, 350, tcritical, 590, 800) x (p lattice + ulp neighbours of 0, 100 MPa, sat(T), '
        'b23p(T)); history: at each of those limit states and a thinned lattice, 9 routines x (twice in a row + every '
        'ordered pair as f, g, f) against the value after a fresh import; primer: at each of those states x the tier\'s densities, for each of 39 primer states s2 of the state s1 (3 axes - T, the other argument, all - x 6 offsets 1 ulp, 1e-9..1e-3 relative x 2 directions, + the far state of the axis) and each routine g, from the module state of a fresh import: g(s2), then for each of the 9 routines f: f(s1), g(s2); f(s1) against its value after a fresh import, g(s2) against its first value.  One evaluation = one oracle decision on one state; distinct = distinct (clause, state); '
        'non-trivial = the state lies inside the range the clause quantifies over (outer neighbours of a limit are '
        'executed and counted but carry no oracle except in the classifier clause)')
ASSUMPTIONS = [
    'the saturation and 2|3 boundary CURVES are the library\'s own sat/b23p (no independent source offline); '
    'exactly on a curve either region is accepted',
    'boundary-agreement and finite-difference tolerances are calibrated on the pinned tree (ref/thermo.py TOL: '
    'measured worst x multiplier); nothing is claimed between lattice points',
    'region 3 states of the (T, density) lattice are those whose pressure super(d,T)[0] lies in [b23p(T), 100 MPa] '
    'and, below the critical temperature, on the outer (stable) branches of the isotherm',
    'the value clauses are evaluated for p >= 1e-3 Pa; between 0 and 1e-3 Pa only the classification is compared '
    '(the ideal-gas terms leave double precision far below); p = 0 itself is explored as a limit',
    'central stencils of the finite-difference identities are moved inward so that they stay inside [0.01 degC, routine '
    'limit] x (0, 100 MPa]; lattice states closer than two steps to such a limit are judged a second time at the state '
    'itself with one-sided 4th-order differences (own tolerance identity_r*_edge)',
]
BOUNDS = {
    'quick': {'T_step_degC': 2, 'pressures_per_isotherm': 60, 'density_step': 10, 'sat_line_step_degC': 0.01,
              'b23_step_degC': 0.01, 'reverse_lattice_points': 400, 'boundary_350_points': 100,
              'boundary_b23_step_degC': 1, 'maxwell_step_degC': 0.5, 'clausius_step_degC': 2,
              'chains': 'complete', 'limits': 'complete', 'history_lattice': 'T every 50 degC x 4 pressures + all limit states',
              'primer_densities': [500.0], 'primer_axes': ['T', 'p and d', 'all'],
              'primer_offsets': ['1ulp', 1e-9, 1e-6, 1e-5, 1e-4, 1e-3, 'far'], 'primer_routine_pairs': 'all ordered, 9 x 9'},
    'thorough': {'T_step_degC': 1, 'pressures_per_isotherm': 80, 'density_step': 5, 'sat_line_step_degC': 0.01,
                 'b23_step_degC': 0.01, 'reverse_lattice_points': 4000, 'boundary_350_points': 1000,
                 'boundary_b23_step_degC': 0.1, 'maxwell_step_degC': 0.25, 'clausius_step_degC': 0.5,
                 'chains': 'complete', 'limits': 'complete', 'history_lattice': 'T every 10 degC x 4 pressures + all limit states',
                 'primer_densities': [322.0, 500.0], 'primer_axes': ['T', 'p and d', 'all'],
                 'primer_offsets': ['1ulp', 1e-9, 1e-6, 1e-5, 1e-4, 1e-3, 'far'],
                 'primer_routine_pairs': 'all ordered, 9 x 9'},
}
TECHNIQUE = ('bounded exhaustive enumeration: exponent-tracking symbolic run of the multiplication chains (complete '
             'over the tables), lattice + ulp-neighbour enumeration of (T,p)/(T,rho) states on the real routines '
             'against identities, inverse pairs and a reference region predicate')
LEVEL_TEXT = ('Every chain entry a caller reads is checked exactly; every multiple of 0.01 degC of the saturation line '
              'and of the 2|3 boundary, every state of the stated region lattices and every floating-point '
              'neighbour of every range limit is executed on the real code; nothing is sampled.')
LEVEL_NOTE = ('Continuous domain: nothing is claimed between lattice points.  Trusted: ref/thermo.py (stencils, '
              'region predicate, calibrated tolerances).  Coefficient changes that keep all identities and stay '
              'inside the calibrated boundary jumps are not detectable by consistency alone (see C15).')

CAL = os.environ.get('VERIF_CALIBRATE') == '1'

PARAMS = {
    'quick': dict(tstep=2., npres=60, dstep=10., nrev=400, n350=100, b23step=1., mxstep=0.5, ccstep=2., tchunk=32),
    'thorough': dict(tstep=1., npres=80, dstep=5., nrev=4000, n350=1000, b23step=0.1, mxstep=0.25, ccstep=0.5,
                     tchunk=32),
}


def tol(name):
    return R.INF if CAL else R.tol(name)


def lib():
    import IAPWS97
    return IAPWS97


class LibErr(Exception):
    def __init__(self, site, exc):
        Exception.__init__(self, '%s raised %s: %s' % (site, type(exc).__name__, exc))
        self.site, self.exc = site, exc


def call(site, f, *a):
    try:
        return f(*a)
    except core.CaseTimeout:
        raise
    except Exception as e:
        raise LibErr(site, e)


class Undefined(Exception):
    """A curve the lattice is built on is not defined where the statement says it is."""
    def __init__(self, site, arg):
        Exception.__init__(self, '%s(%r) is None' % (site, arg))
        self.site, self.arg = site, arg


def need(site, f, x):
    v = call(site, f, x)
    if v is None:
        raise Undefined(site, x)
    return float(v)


def chk_need(I, site, x):
    """Replayable form of a failed lattice construction."""
    try:
        need(site, getattr(I, site), x)
    except LibErr as e:
        return [('C14|%s|raises:%s|lattice-curve' % (site, type(e.exc).__name__), '%s at %r' % (e, x))]
    except Undefined as e:
        return [('C14|%s|undefined-inside-range|lattice-curve' % site,
                 '%s: the curve is needed there to build the region lattice' % e)]
    return []


def band(t, width=100.):
    k = int(math.floor(t / width))
    return 'T%d-%d' % (k * width, (k + 1) * width)


def fl(x):
    return None if x is None else float(x)


# ----------------------------------------------------------------------------------------------------------
# (1) chains
# ----------------------------------------------------------------------------------------------------------

def chain_tables(I):
    return dict((k, getattr(I, k)) for k in ('ir1', 'jr1', 'j0r2', 'ir2', 'jr2', 'ir3', 'jr3', 'ivs', 'jvs'))


def run_chain(I, cname, mode):
    """power_array on an exponent-tracking value.  mode 'symbolic': a Pow object in an object array (numpy.zeros
    swapped for the duration of the call); mode 'dyadic': the float 2.0 on the untouched routine.
    Returns (array, exponent-reader)."""
    comb = getattr(I, cname)
    if mode == 'dyadic':
        return I.power_array(2.0, comb), R.exponent_of_dyadic
    real = I.np
    I.np = R.ObjectZeros(real)
    try:
        return I.power_array(R.Pow(1), comb), R.exponent_of_symbolic
    finally:
        I.np = real


def chk_chain(I, routine, cname, idx, mode):
    site = '%s:%s' % (routine, cname)
    try:
        arr, reader = run_chain(I, cname, mode)
    except core.CaseTimeout:
        raise
    except Exception as e:
        return [('C14|%s|chain-run-raises:%s' % (site, type(e).__name__),
                 'power_array(<%s value>, %s) raised %r' % (mode, cname, e))], 'raised'
    try:
        v = arr[idx]
    except IndexError:
        return [('C14|%s|chain-index-out-of-range|%d' % (site, idx),
                 '%s reads %s[%d] but the array built from the chain table has only %d slots'
                 % (routine, cname, idx, len(arr)))], 'out-of-range'
    e = reader(v)
    if e is None:
        return [('C14|%s|chain-entry-never-computed|%d' % (site, idx),
                 '%s reads power %d of the %s array, which no chain entry computes (slot is zero)'
                 % (routine, idx, cname))], 'unset'
    if e != idx:
        return [('C14|%s|chain-wrong-exponent|%d' % (site, idx),
                 '%s reads slot %d of the %s array as x**%d but the chain stores x**%s there'
                 % (routine, idx, cname, idx, e))], 'wrong'
    return [], 'ok'


def unit_chains(I, rec):
    reads = R.chain_reads(chain_tables(I))
    nread = 0
    for routine, cname, idxs in reads:
        for idx in idxs:
            for mode in ('symbolic', 'dyadic'):
                viol, oc = chk_chain(I, routine, cname, idx, mode)
                if mode == 'symbolic' and viol and 'chain-run-raises' in viol[0][0]:
                    # the object-array substitution does not fit this power_array; the dyadic run decides
                    rec.count('symbolic_run_unavailable')
                    rec.case(('chain', cname, idx, mode), nontrivial=False, outcome='chain-symbolic-unavailable')
                    continue
                rec.case(('chain', cname, idx, mode), outcome='chain-' + oc)
                for sig, what in viol:
                    rec.violation(sig, what, {'clause': 'chain', 'routine': routine, 'chain': cname, 'index': idx,
                                              'mode': mode})
            nread += 1
        rec.count('chain_tables')
        rec.count('chain_entries', len(getattr(I, cname)))
    rec.count('chain_indices_read', nread)
    rec.sample({'clause': 'chain', 'example': 'cowat reads tc1 slots %s' % reads[1][2]})


# ----------------------------------------------------------------------------------------------------------
# (2) inverse pairs
# ----------------------------------------------------------------------------------------------------------

def end_class(x, lo, hi):
    if x <= R.up(lo):
        return 'lower-end-point'
    if x >= R.down(hi):
        return 'upper-end-point'
    return None


_DEGENERATE = {}


def degenerate_points():
    """Neighbourhoods of the zeros of the coefficients of the two region 4 quadratics (ref/thermo.py):
    {'t': [(t, name)], 'p': [(p, name)]}."""
    if not _DEGENERATE:
        ts, ps = [], []
        for i, x in R.sign_changes(R.sat_quadratic_coefficients, R.T_MIN, R.TCRIT97):
            ts += [(v, 'ABC'[i] + '=0') for v in R.neighbourhood(x) if R.T_MIN <= v <= R.TCRIT97]
        plo = 611.657       # sat(0.01 degC) to 4 digits: only the scan range
        for i, x in R.sign_changes(R.tsat_quadratic_coefficients, plo, R.PCRIT97):
            ps += [(v, 'EFG'[i] + '=0') for v in R.neighbourhood(x) if plo < v <= R.PCRIT97]
        _DEGENERATE['t'], _DEGENERATE['p'] = ts, ps
    return _DEGENERATE


def degenerate_class(x, which):
    for v, name in degenerate_points()[which]:
        if v == x:
            return 'quadratic-coefficient-' + name
    return None


def chk_satinv_t(I, t):
    """tsat(sat(t)) = t"""
    cls = end_class(t, R.T_MIN, R.TCRIT97) or degenerate_class(t, 't') or band(t)
    m = {}
    try:
        p = call('sat', I.sat, t)
        if p is None:
            return [('C14|sat|undefined-inside-range|' + cls,
                     'sat(%r) is None inside the closed saturation interval' % t)], m, 'sat-none'
        ts = call('tsat', I.tsat, p)
        if ts is None:
            return [('C14|tsat(sat(t))|undefined|' + cls,
                     'tsat(sat(%r)) is None: sat gives %r, which tsat refuses (pcritical = %r)'
                     % (t, fl(p), fl(I.pcritical)))], m, 'tsat-none'
    except LibErr as e:
        return [('C14|%s|raises:%s|%s' % (e.site, type(e.exc).__name__, cls), '%s at t = %r' % (e, t))], m, 'raised'
    err = abs(float(ts) - t)
    m['satinv_t'] = (err, 't=%r' % t)
    if not err <= tol('satinv_t'):
        return [('C14|tsat(sat(t))|not-inverse|' + cls,
                 'tsat(sat(%r)) = %r, off by %.3g degC (tolerance %.3g)' % (t, fl(ts), err, tol('satinv_t')))], \
            m, 'not-inverse'
    return [], m, 'ok'


def chk_satinv_p(I, p, cls):
    """sat(tsat(p)) = p"""
    m = {}
    try:
        t = call('tsat', I.tsat, p)
        if t is None:
            return [('C14|tsat|undefined-inside-range|' + cls,
                     'tsat(%r) is None inside [sat(0.01), pcritical]' % p)], m, 'tsat-none'
        p2 = call('sat', I.sat, t)
        if p2 is None:
            return [('C14|sat(tsat(p))|undefined|' + cls,
                     'sat(tsat(%r)) is None: tsat gives %r, which sat refuses' % (p, fl(t)))], m, 'sat-none'
    except LibErr as e:
        return [('C14|%s|raises:%s|%s' % (e.site, type(e.exc).__name__, cls), '%s at p = %r' % (e, p))], m, 'raised'
    err = abs(float(p2) - p) / p
    m['satinv_p'] = (err, 'p=%r' % p)
    if not err <= tol('satinv_p'):
        return [('C14|sat(tsat(p))|not-inverse|' + cls,
                 'sat(tsat(%r)) = %r, relative error %.3g (tolerance %.3g)' % (p, fl(p2), err, tol('satinv_p')))], \
            m, 'not-inverse'
    return [], m, 'ok'


def chk_b23inv_t(I, t):
    cls = end_class(t, R.T_13, R.T_23_END) or band(t)
    m = {}
    try:
        p = call('b23p', I.b23p, t)
        t2 = call('b23t', I.b23t, p)
    except LibErr as e:
        return [('C14|%s|raises:%s|%s' % (e.site, type(e.exc).__name__, cls), '%s at t = %r' % (e, t))], m, 'raised'
    if p is None or t2 is None:
        return [('C14|b23t(b23p(t))|undefined|' + cls, 'b23p/b23t undefined at t = %r' % t)], m, 'none'
    err = abs(float(t2) - t)
    m['b23inv_t'] = (err, 't=%r' % t)
    if not err <= tol('b23inv_t'):
        return [('C14|b23t(b23p(t))|not-inverse|' + cls,
                 'b23t(b23p(%r)) = %r, off by %.3g degC (tolerance %.3g)' % (t, fl(t2), err, tol('b23inv_t')))], \
            m, 'not-inverse'
    return [], m, 'ok'


def chk_b23inv_p(I, p, cls):
    m = {}
    try:
        t = call('b23t', I.b23t, p)
        p2 = call('b23p', I.b23p, t)
    except LibErr as e:
        return [('C14|%s|raises:%s|%s' % (e.site, type(e.exc).__name__, cls), '%s at p = %r' % (e, p))], m, 'raised'
    if t is None or p2 is None:
        return [('C14|b23p(b23t(p))|undefined|' + cls, 'b23t/b23p undefined at p = %r' % p)], m, 'none'
    err = abs(float(p2) - p) / p
    m['b23inv_p'] = (err, 'p=%r' % p)
    if not err <= tol('b23inv_p'):
        return [('C14|b23p(b23t(p))|not-inverse|' + cls,
                 'b23p(b23t(%r)) = %r, relative error %.3g (tolerance %.3g)' % (p, fl(p2), err, tol('b23inv_p')))], \
            m, 'not-inverse'
    return [], m, 'ok'


def sat_line_ts():
    """Every multiple of 0.01 degC inside [0.01, tcritical], the end points and their neighbours.
    Returns [(t, inside)]"""
    kmax = int(math.floor(R.TCRIT97 * 100. + 1e-9))
    inner = [t for t in R.hundredths(1, kmax) if R.T_MIN <= t <= R.TCRIT97]
    pts = dict((t, True) for t in inner)
    for x in R.around(R.T_MIN) + R.around(R.TCRIT97):
        pts[x] = (R.T_MIN <= x <= R.TCRIT97)
    for x, name in degenerate_points()['t']:
        pts[x] = True
    return sorted(pts.items())


def b23_ts():
    inner = [t for t in R.hundredths(35000, 59000)]
    pts = dict((t, True) for t in inner)
    for x in R.around(R.T_13) + R.around(R.T_23_END):
        pts[x] = (R.T_13 <= x <= R.T_23_END)
    return sorted(pts.items())


def rev_lattice(lo, hi, n, extra=()):
    """[(p, inside, class)] - log lattice on [lo, hi], end points with neighbours, plus the named extra points."""
    pts = {}
    named = {}
    for p in R.logspace(lo, hi, n):
        pts[p] = True
    for p, name in extra:
        if lo <= p <= hi:
            pts[p] = True
            named[p] = 'quadratic-coefficient-' + name
    for x in R.around(lo) + R.around(hi):
        pts[x] = (lo <= x <= hi)
    out = []
    for p in sorted(pts):
        cls = end_class(p, lo, hi) or named.get(p) or 'interior'
        out.append((p, pts[p], cls))
    return out


# ----------------------------------------------------------------------------------------------------------
# (3) + (4): region lattices
# ----------------------------------------------------------------------------------------------------------

def with_critical_t(ts, lo, hi):
    """The temperature lattice plus tcritical and its two neighbours (1/Tbar - 1 = 0 in the viscosity
    correlation) where they lie in [lo, hi]."""
    pts = set(ts)
    for x in R.around(R.TCRIT97):
        if lo <= x <= hi:
            pts.add(x)
    return sorted(pts)


def r2_ts(P):
    return with_critical_t(R.t_lattice(R.T_MAX, P['tstep']), R.T_MIN, R.T_MAX)


def r3_ts(P):
    return with_critical_t(R.t_lattice(R.T_23_END, P['tstep'], R.T_13), R.T_13, R.T_23_END)


def r3_densities(dstep):
    """The density lattice plus exactly the critical density (rhobar - 1 = 0 in the viscosity correlation).
    Its ulp neighbours are not added: pressures one ulp of density apart cannot be ordered reliably."""
    return sorted(set(R.density_lattice(dstep)) | set([R.DCRIT97]))


def singular_class(t, d=None):
    if d is not None and R.down(R.DCRIT97) <= d <= R.up(R.DCRIT97):
        return 'd~dcritical'
    if R.down(R.TCRIT97) <= t <= R.up(R.TCRIT97):
        return 'T~tcritical'
    return None


def r1_pressures(I, t, n):
    return R.logspace(need('sat', I.sat, t), R.P_MAX, n)


def r2_pmax(I, t):
    if t <= R.T_13:
        return need('sat', I.sat, t)
    if t <= R.T_23_END:
        return min(need('b23p', I.b23p, t), R.P_MAX)
    return R.P_MAX


def r2_pressures(I, t, n):
    return R.logspace(R.P_LATTICE_LO, r2_pmax(I, t), n)


def chk_state_tp(I, reg, t, p):
    """One (T, p) state of the region 1 or 2 lattice: routine accepts, density > 0, viscosity > 0, identity.
    Returns (viols, measures, outcome, density)."""
    name = 'cowat' if reg == 1 else 'supst'
    f = I.cowat if reg == 1 else I.supst
    b = singular_class(t) or band(t)
    m = {}
    viols = []
    try:
        r = call(name, f, t, p)
        if r is None:
            return [('C14|%s|refuses-own-region|%s' % (name, b),
                     '%s(%r, %r) is None inside region %d' % (name, t, p, reg))], m, 'none', None
        d, u = float(r[0]), float(r[1])
        if not (d > 0. and math.isfinite(d) and math.isfinite(u)):
            return [('C14|%s|density-not-positive|%s' % (name, b),
                     '%s(%r, %r) = (%r, %r)' % (name, t, p, d, u))], m, 'bad-density', None
        mu = float(call('visc', I.visc, d, t))
        if not (mu > 0. and math.isfinite(mu)):
            viols.append(('C14|visc|not-positive|region%d|%s' % (reg, b),
                          'visc(%r, %r) = %r for the region %d state p = %r' % (d, t, mu, reg, p)))
        hp = R.H_P_REL * p + (R.H_P_ABS if reg == 1 else 0.)
        t_hi = R.T_13 if reg == 1 else R.T_MAX
        res = R.identity_tp(lambda tt, pp: call(name, f, tt, pp), t, p, hp, t_hi)
    except LibErr as e:
        return [('C14|%s|raises:%s|region%d|%s' % (e.site, type(e.exc).__name__, reg, b),
                 '%s at (t, p) = (%r, %r)' % (e, t, p))], m, 'raised', None
    try:
        edge = R.identity_tp_edge(lambda tt, pp: call(name, f, tt, pp), t, p, hp, t_hi)
    except LibErr as e:
        return [('C14|%s|raises:%s|region%d|%s' % (e.site, type(e.exc).__name__, reg, b),
                 '%s near (t, p) = (%r, %r)' % (e, t, p))], m, 'raised', None
    if edge is None:
        viols.append(('C14|%s|refuses-own-region|edge-stencil|%s' % (name, b),
                      '%s refused a state of the one-sided difference stencil at (%r, %r)' % (name, t, p)))
    elif edge != 'interior':
        ekey = 'identity_r%d_edge' % reg
        m[ekey] = (edge, 't=%r p=%r' % (t, p))
        if not edge <= tol(ekey):
            viols.append(('C14|%s|single-potential-identity|at-range-limit|%s' % (name, b),
                          '(du/dp)_T + T (dv/dT)_p + p (dv/dp)_T is %.3g of the sum of its terms at the limit state '
                          '(t, p) = (%r, %r) (one-sided differences, tolerance %.3g): density and energy are not '
                          'derivatives of one potential' % (edge, t, p, tol(ekey))))
    if res is None:
        viols.append(('C14|%s|refuses-own-region|stencil|%s' % (name, b),
                      '%s refused a state of the difference stencil around (%r, %r)' % (name, t, p)))
        return viols, m, 'none', d
    key = 'identity_r%d' % reg
    m[key] = (res[0], 't=%r p=%r' % res[1])
    if not res[0] <= tol(key):
        viols.append(('C14|%s|single-potential-identity|%s' % (name, b),
                      '(du/dp)_T + T (dv/dT)_p + p (dv/dp)_T is %.3g of the sum of its terms at (t, p) = (%r, %r) '
                      '(tolerance %.3g): density and energy are not derivatives of one potential'
                      % (res[0], res[1][0], res[1][1], tol(key))))
    return viols, m, ('ok' if not viols else 'violates'), d


def chk_monotone_tp(I, reg, t, plist):
    """Density strictly increasing along the isotherm."""
    name = 'cowat' if reg == 1 else 'supst'
    f = I.cowat if reg == 1 else I.supst
    prev = None
    for p in plist:
        try:
            r = call(name, f, t, p)
        except LibErr:
            return [], 'skipped'        # reported by the state clause
        if r is None:
            return [], 'skipped'
        d = float(r[0])
        if prev is not None and not d > prev[1]:
            return [('C14|%s|density-not-increasing-with-pressure|%s' % (name, band(t)),
                     'at t = %r density falls from %r (p = %r) to %r (p = %r)' % (t, prev[1], prev[0], d, p))], \
                'not-monotone'
        prev = (p, d)
    return [], 'ok'


def r3_isotherm(I, t, dstep):
    """[(d, p, u, branch)] - region 3 states of the density lattice on isotherm t."""
    ds = r3_densities(dstep)
    pu = [call('super', I.super, d, t) for d in ds]
    ps = [float(x[0]) for x in pu]
    n = len(ds)
    stable = [None] * n
    # the equation is meaningless beyond 100 MPa: only the densities below the first one that exceeds it
    kmax = n
    for k in range(n):
        if ps[k] > R.P_MAX:
            kmax = k
            break
    if t < R.TCRIT97:
        psat = need('sat', I.sat, t)
        k = 0
        while k < kmax and ps[k] <= psat and (k == 0 or ps[k] > ps[k - 1]):
            stable[k] = 'vapour'
            k += 1
        k = kmax - 1
        while k >= 0 and ps[k] >= psat and (k == kmax - 1 or ps[k] < ps[k + 1]) and stable[k] is None:
            stable[k] = 'liquid'
            k -= 1
    else:
        for k in range(kmax):
            stable[k] = 'fluid'
    pb = need('b23p', I.b23p, t)
    out = []
    for d, p, x, s in zip(ds, ps, pu, stable):
        if s is not None and pb <= p <= R.P_MAX:
            out.append((d, p, float(x[1]), s))
    return out


def chk_state_dt(I, d, t):
    b = singular_class(t, d) or band(t, 50.)
    m = {}
    viols = []
    try:
        mu = float(call('visc', I.visc, d, t))
        if not (mu > 0. and math.isfinite(mu)):
            viols.append(('C14|visc|not-positive|region3|%s' % b, 'visc(%r, %r) = %r' % (d, t, mu)))
        res = R.identity_dt(lambda dd, tt: call('super', I.super, dd, tt), d, t)
    except LibErr as e:
        return [('C14|%s|raises:%s|region3|%s' % (e.site, type(e.exc).__name__, b),
                 '%s at (d, t) = (%r, %r)' % (e, d, t))], m, 'raised'
    m['identity_r3'] = (res, 'd=%r t=%r' % (d, t))
    if not res <= tol('identity_r3'):
        viols.append(('C14|super|single-potential-identity|%s' % b,
                      '(du/dv)_T - T (dp/dT)_v + p is %.3g of the sum of its terms at (d, t) = (%r, %r) '
                      '(tolerance %.3g): pressure and energy are not derivatives of one potential'
                      % (res, d, t, tol('identity_r3'))))
    return viols, m, ('ok' if not viols else 'violates')


def chk_monotone_dt(I, t, dstep):
    try:
        states = r3_isotherm(I, t, dstep)
    except LibErr as e:
        return [('C14|%s|raises:%s|region3|%s' % (e.site, type(e.exc).__name__, band(t, 50.)),
                 '%s on the region 3 isotherm t = %r' % (e, t))], 'raised'
    except Undefined as e:
        return chk_need(I, e.site, e.arg), 'undefined'
    prev = None
    for d, p, u, s in states:
        if prev is not None and prev[3] == s and not p > prev[1]:
            return [('C14|super|density-not-increasing-with-pressure|%s' % band(t, 50.),
                     'at t = %r pressure falls from %r (d = %r) to %r (d = %r) on the %s branch'
                     % (t, prev[1], prev[0], p, d, s))], 'not-monotone'
        prev = (d, p, u, s)
    return [], 'ok'


# ----------------------------------------------------------------------------------------------------------
# (5) boundaries
# ----------------------------------------------------------------------------------------------------------

def band_bad(name, value):
    """None when the value lies in its calibrated band, else the band."""
    if CAL:
        return None
    lo, hi = R.band_limits(name)
    return None if lo <= value <= hi else (lo, hi)


def pband(p):
    for hi in (25, 40, 60, 100):
        if p <= hi * 1.e6:
            return 'p<=%dMPa' % hi
    return 'p>100MPa'


def tband(t, edges):
    for lo, hi in zip(edges[:-1], edges[1:]):
        if t <= hi:
            return 'T%g-%g' % (lo, hi)
    return 'T>%g' % edges[-1]


X23_EDGES = (350, 390, 430, 470, 510, 550, 590)
X34_EDGES = (350, 360, 370, 373.5)
X12_EDGES = (0, 50, 100, 150, 200, 250, 300, 350)


def jump_viols(m, site, quantities, where, wtxt):
    """quantities: [(measure name, clause, value, unit text)]"""
    viols = []
    for name, clause, val, unit in quantities:
        m[name] = (val, where, 'signed')
        bad = band_bad(name, val)
        if bad:
            viols.append(('C14|%s|%s|%s' % (site, clause, name.split('@')[1]),
                          '%s: %s = %.6g %s, outside the calibrated band [%.4g, %.4g]'
                          % (wtxt, clause, val, unit, bad[0], bad[1])))
    return viols


def chk_x13(I, p):
    """regions 1|3 at 350 degC, pressure p: density and energy of cowat against the region 3 equation."""
    t = R.T_13
    m = {}
    try:
        r = call('cowat', I.cowat, t, p)
        if r is None:
            return [('C14|boundary-1|3|cowat-refuses', 'cowat(350, %r) is None' % p)], m, 'none'
        d1, u1 = float(r[0]), float(r[1])
        sup = lambda d, tt: call('super', I.super, d, tt)
        d3 = R.bisect_density(sup, t, p, 0.95 * d1, 1.05 * d1)
        if d3 is None:
            return [('C14|boundary-1|3|no-region3-state-near-region1-density',
                     'at 350 degC, p = %r the region 3 equation has no state within 5%% of the region 1 density %r'
                     % (p, d1))], m, 'no-root'
        u3 = float(sup(d3, t)[1])
    except LibErr as e:
        return [('C14|boundary-1|3|%s-raises:%s' % (e.site, type(e.exc).__name__), '%s at p = %r' % (e, p))], m, \
            'raised'
    b = pband(p)
    viols = jump_viols(m, 'boundary-1|3',
                       [('x13_density@' + b, 'density-jump', (d3 - d1) / d1, '(relative, region 3 - region 1)'),
                        ('x13_energy@' + b, 'energy-jump', u3 - u1, 'J/kg (region 3 - region 1)')],
                       'p=%r' % p, 'at 350 degC, p = %r (region 1: d = %r, u = %r; region 3: d = %r, u = %r)'
                       % (p, d1, u1, d3, u3))
    return viols, m, ('ok' if not viols else 'jump')


def chk_x23(I, t):
    """regions 2|3 on the b23 curve at temperature t."""
    m = {}
    try:
        p = min(float(call('b23p', I.b23p, t)), R.P_MAX)
        r = call('supst', I.supst, t, p)
        if r is None:
            return [('C14|boundary-2|3|supst-refuses', 'supst(%r, b23p) is None' % t)], m, 'none'
        d2, u2 = float(r[0]), float(r[1])
        sup = lambda d, tt: call('super', I.super, d, tt)
        d3 = R.bisect_density(sup, t, p, 0.9 * d2, 1.1 * d2)
        if d3 is None:
            return [('C14|boundary-2|3|no-region3-state-near-region2-density',
                     'at t = %r on b23 (p = %r) the region 3 equation has no state within 10%% of the region 2 '
                     'density %r' % (t, p, d2))], m, 'no-root'
        u3 = float(sup(d3, t)[1])
    except LibErr as e:
        return [('C14|boundary-2|3|%s-raises:%s' % (e.site, type(e.exc).__name__), '%s at t = %r' % (e, t))], m, \
            'raised'
    b = tband(t, X23_EDGES)
    viols = jump_viols(m, 'boundary-2|3',
                       [('x23_density@' + b, 'density-jump', (d3 - d2) / d2, '(relative, region 3 - region 2)'),
                        ('x23_energy@' + b, 'energy-jump', u3 - u2, 'J/kg (region 3 - region 2)')],
                       't=%r' % t, 'on b23 at t = %r, p = %r (region 2: d = %r, u = %r; region 3: d = %r, u = %r)'
                       % (t, p, d2, u2, d3, u3))
    return viols, m, ('ok' if not viols else 'jump')


def chk_x34(I, t):
    """regions 3|4: the equal-area pressure of the region 3 isotherm against sat(t), 350 <= t < tcritical."""
    m = {}
    try:
        ps = call('sat', I.sat, t)
        if ps is None:
            return [('C14|boundary-3|4|sat-undefined', 'sat(%r) is None' % t)], m, 'none'
        ps = float(ps)
        sup = lambda d, tt: call('super', I.super, d, tt)
        dd = R.saturated_densities(sup, t, ps)
        if dd is None:
            return [('C14|boundary-3|4|no-saturated-states',
                     'the region 3 isotherm t = %r does not cross sat(t) = %r on both outer branches' % (t, ps))], \
                m, 'no-root'
        pm = R.maxwell_pressure(sup, t, dd[0], dd[1])
    except LibErr as e:
        return [('C14|boundary-3|4|%s-raises:%s' % (e.site, type(e.exc).__name__), '%s at t = %r' % (e, t))], m, \
            'raised'
    b = tband(t, X34_EDGES)
    viols = jump_viols(m, 'boundary-3|4',
                       [('x34_pressure@' + b, 'saturation-pressure-jump', (pm - ps) / ps,
                         '(relative, equal-area pressure of region 3 - sat)')],
                       't=%r' % t, 'at t = %r sat(t) = %r, equal-area pressure of the region 3 isotherm between its '
                       'saturated densities %r and %r = %r' % (t, ps, dd[0], dd[1], pm))
    return viols, m, ('ok' if not viols else 'jump')


def chk_x12(I, t):
    """regions 1|2|4 on the saturation line, t <= 350: Clausius-Clapeyron dps/dT = (h''-h') / (T (v''-v'))."""
    m = {}
    try:
        tc = R.clamp_centre(t, R.H_T, R.T_MIN, R.T_13)
        s = [call('sat', I.sat, tc + k * R.H_T) for k in (-2, -1, 1, 2)]
        ps = call('sat', I.sat, tc)
        if ps is None or any(x is None for x in s):
            return [('C14|boundary-1|2|sat-undefined', 'sat is None near t = %r' % tc)], m, 'none'
        ps = float(ps)
        dpdt = R.d4(float(s[0]), float(s[1]), float(s[2]), float(s[3]), R.H_T)
        r1 = call('cowat', I.cowat, tc, ps)
        r2 = call('supst', I.supst, tc, ps)
        if r1 is None or r2 is None:
            return [('C14|boundary-1|2|routine-refuses-saturation-state',
                     'cowat/supst is None at (t, sat(t)), t = %r' % tc)], m, 'none'
    except LibErr as e:
        return [('C14|boundary-1|2|%s-raises:%s' % (e.site, type(e.exc).__name__), '%s at t = %r' % (e, t))], m, \
            'raised'
    v1, v2 = 1. / float(r1[0]), 1. / float(r2[0])
    h1, h2 = float(r1[1]) + ps * v1, float(r2[1]) + ps * v2
    lhs = dpdt * (tc + R.TC_K) * (v2 - v1)
    rhs = h2 - h1
    j = (lhs - rhs) / abs(rhs) if rhs != 0. else R.INF
    b = tband(tc, X12_EDGES)
    viols = jump_viols(m, 'boundary-1|2',
                       [('x12_clapeyron@' + b, 'clausius-clapeyron', j, "(relative, T (v''-v') dps/dT against h''-h')")],
                       't=%r' % tc, "at t = %r T (v''-v') dps/dT = %r, h''-h' = %r" % (tc, lhs, rhs))
    return viols, m, ('ok' if not viols else 'jump')


# ----------------------------------------------------------------------------------------------------------
# (6) classifier
# ----------------------------------------------------------------------------------------------------------

T_LIMITS = [('0.01', R.T_MIN), ('350', R.T_13), ('tcritical', R.TCRIT97), ('590', R.T_23_END), ('800', R.T_MAX)]


def limit_ts():
    out = []
    for name, v in T_LIMITS:
        for x in R.around(v):
            out.append((x, 'T~' + name))
    return out


def class_pressures(I, t, npres):
    """[(p, class)] for the classifier at temperature t."""
    pts = {}
    for p in R.logspace(R.P_LATTICE_LO, R.P_MAX, npres):
        pts[p] = 'p-lattice'
    pts[R.P_FLOOR] = 'p-lattice'
    for x in R.around(0.0):
        pts[x] = 'p~0'
    for x in R.around(R.P_MAX):
        pts[x] = 'p~100MPa'
    try:
        ps = I.sat(t)
    except Exception:
        ps = None
    if ps is not None:
        for x in R.around(float(ps)):
            pts[x] = 'p~sat'
    try:
        pb = I.b23p(t)
    except Exception:
        pb = None
    if pb is not None and R.T_13 - 1. <= t <= R.T_23_END + 1.:
        for x in R.around(float(pb)):
            pts.setdefault(x, 'p~b23p')
    return sorted(pts.items())


def region_class(tcls, pcls):
    """Input class of a classifier state: an edge of the pressure range dominates, then a temperature limit."""
    if pcls in ('p~0', 'p~100MPa'):
        return pcls
    if pcls == 'p-lattice':
        return tcls
    if tcls == 'T-lattice':
        return pcls
    return '%s|%s' % (tcls, pcls)


def chk_region(I, t, p, tcls, pcls):
    cls = region_class(tcls, pcls)
    try:
        ps = call('sat', I.sat, t) if t <= R.T_13 else None
        pb = call('b23p', I.b23p, t)
        got = call('region', I.region, t, p)
    except LibErr as e:
        return [('C14|%s|raises:%s|%s' % (e.site, type(e.exc).__name__, cls),
                 '%s at (t, p) = (%r, %r)' % (e, t, p))], 'raised'
    inrange = (R.T_MIN <= t <= R.T_MAX and 0. <= p <= R.P_MAX)
    if inrange and t <= R.T_13 and ps is None:
        return [('C14|sat|undefined-inside-range|' + tcls, 'sat(%r) is None' % t)], 'sat-none'
    want = R.region97_ref(t, p, fl(ps), fl(pb))
    if got not in want:
        return [('C14|region|wrong-region|expected=%s,got=%s|%s'
                 % ('/'.join(str(x) for x in sorted(want, key=str)), got, cls),
                 'region(%r, %r) = %r; the region definitions give %s (sat = %r, b23p = %r)'
                 % (t, p, got, sorted(want, key=str), fl(ps), fl(pb)))], 'wrong'
    if got is None:
        return [], 'outside'
    if 0. < p < R.P_FLOOR:
        return [], 'region%d-classified-only' % got
    # the named region's routine accepts the state
    try:
        if got in (1, 2):
            name, f = ('cowat', I.cowat) if got == 1 else ('supst', I.supst)
            r = call(name, f, t, p)
            if r is None:
                return [('C14|region->%s|routine-refuses|%s' % (name, cls),
                         'region(%r, %r) = %d but %s returns None there' % (t, p, got, name))], 'refused'
            d = float(r[0])
            if not (d > 0. and math.isfinite(d) and math.isfinite(float(r[1]))):
                return [('C14|region->%s|density-not-positive|%s' % (name, cls),
                         'region(%r, %r) = %d but %s gives %r' % (t, p, got, name, r))], 'bad-density'
        else:
            lo = hi = None
            for d in R.density_lattice(25., 25., 1200.):
                x = float(call('super', I.super, d, t)[0]) - p
                if x <= 0.:
                    lo = d
                if x >= 0.:
                    hi = d
                if lo is not None and hi is not None:
                    break
            if lo is None or hi is None:
                return [('C14|region->super|no-density-gives-the-pressure|%s' % cls,
                         'region(%r, %r) = 3 but super(d, t) never brackets that pressure for 25 <= d <= 1200'
                         % (t, p))], 'refused'
    except LibErr as e:
        return [('C14|region->%s|routine-raises:%s|%s' % (e.site, type(e.exc).__name__, cls),
                 'region(%r, %r) = %r but %s' % (t, p, got, e))], 'raised'
    return [], 'region%d' % got


# ----------------------------------------------------------------------------------------------------------
# (7) repeatability and order independence (WAVE3): a call's value may not depend on the calls before it
# ----------------------------------------------------------------------------------------------------------

HISTORY_D = 500.0       # density handed to super / visc in the history sequences
HISTORY_P = (1.0e5, 1.0e6, 2.3e7, 5.0e7)


def fresh_library():
    """Restore isolation: re-execute the module, as a new process would."""
    import importlib
    import IAPWS97
    importlib.reload(IAPWS97)


def history_states(I, tier):
    """[((t, p), class)]: every limit / ulp-neighbour state of the classifier clause, the end points of tsat, and a
    thinned (T, p) lattice."""
    pts = {}
    for t, tcls in limit_ts():
        for p, pcls in class_pressures(I, t, 4):
            pts[(t, p)] = region_class(tcls, pcls)
    try:
        plo = float(I.sat(R.T_MIN))
    except Exception:
        plo = 611.657
    for lim in (plo, R.PCRIT97):
        for p in R.around(lim):
            pts.setdefault((100., p), 'p~tsat-limit')
    for t in R.t_lattice(R.T_MAX, 50. if tier == 'quick' else 10.):
        for p in HISTORY_P:
            pts.setdefault((t, p), 'lattice')
    return sorted(pts.items())


def history_variants(I, t, p):
    v = [('cowat', lambda: I.cowat(t, p)), ('supst', lambda: I.supst(t, p)), ('region', lambda: I.region(t, p)),
         ('sat', lambda: I.sat(t)), ('b23p', lambda: I.b23p(t)), ('super', lambda: I.super(HISTORY_D, t)),
         ('visc', lambda: I.visc(HISTORY_D, t))]
    if p > 0.:
        v += [('tsat', lambda: I.tsat(p)), ('b23t', lambda: I.b23t(p))]
    return v


def chk_history(I, t, p, cls):
    n, bad = R.history_pass(fresh_library, history_variants(I, t, p), core.CaseTimeout)
    viols = []
    for name, prev, iso, got in bad:
        viols.append(('C14|%s|result-depends-on-earlier-calls|after=%s|%s' % (name, prev, cls),
                      'at (t, p, d) = (%r, %r, %r): %s gives %s as the first call after a fresh import but %s when '
                      'called after %s (hex floats; the routines are pure functions)'
                      % (t, p, HISTORY_D, name, iso, got, prev)))
    return viols, n


# ----------------------------------------------------------------------------------------------------------
# (8) order independence against NEIGHBOURING arguments (WAVE3 / seventh round): the value of a call at a
# lattice state may not depend on an earlier call whose arguments were close to (or far from) its own
# ----------------------------------------------------------------------------------------------------------

# the ladder of relative offsets between the primer's arguments and the state's (None = one floating-point
# neighbour); each rung in both directions.  An argument that is exactly 0 is offset absolutely.
PRIMER_LADDER = (('1ulp', None), ('1e-9', 1.e-9), ('1e-6', 1.e-6), ('1e-5', 1.e-5), ('1e-4', 1.e-4),
                 ('1e-3', 1.e-3))
PRIMER_AXES = ('T', 'X', 'TX')      # which arguments are offset: the temperature, the other one (p and d), all
PRIMER_D = {'quick': (HISTORY_D,), 'thorough': (R.DCRIT97, HISTORY_D)}


def shifted(x, off, sign):
    if off is None:
        return R.up(x) if sign > 0 else R.down(x)
    if x == 0.:
        return sign * off
    return x * (1. + sign * off)


def far_state(t, p, d):
    return (t + 400. if t <= 400. else t - 400., p * 100. if p < 1.e6 else p / 100.,
            d + 300. if d < 600. else d - 300.)


def primer_states(t, p, d):
    """[(rung label, (t', p', d'))]: for every axis every rung of the ladder in both directions, then the far
    state along that axis.  Rung label = axis ~ magnitude (the direction is not part of it)."""
    out = []
    ft, fp, fd = far_state(t, p, d)
    for axis in PRIMER_AXES:
        mt, mx = 'T' in axis, 'X' in axis
        for name, off in PRIMER_LADDER:
            for sign in (-1, 1):
                out.append(('%s~%s' % (axis, name),
                            (shifted(t, off, sign) if mt else t, shifted(p, off, sign) if mx else p,
                             shifted(d, off, sign) if mx else d)))
        out.append(('%s~far' % axis, (ft if mt else t, fp if mx else p, fd if mx else d)))
    return out


def variants_at(I, t, p, d):
    v = [('cowat', lambda: I.cowat(t, p)), ('supst', lambda: I.supst(t, p)), ('region', lambda: I.region(t, p)),
         ('sat', lambda: I.sat(t)), ('b23p', lambda: I.b23p(t)), ('super', lambda: I.super(d, t)),
         ('visc', lambda: I.visc(d, t))]
    if p > 0.:
        v += [('tsat', lambda: I.tsat(p)), ('b23t', lambda: I.b23t(p))]
    return v


def _run_canon(th):
    try:
        return R.canon(th())
    except core.CaseTimeout:
        raise
    except Exception as e:
        return 'raises:' + type(e).__name__


def primer_lattice(I, tier):
    """[((t, p, d), class)]: the states of the history clause x the densities of the tier."""
    return [((t, p, d), cls) for (t, p), cls in history_states(I, tier) for d in PRIMER_D[tier]]


_IMMUTABLE = (int, float, complex, str, bytes, bool, type(None), type, type(math), type(len))


def _deeply_immutable(v):
    import numpy
    if isinstance(v, numpy.generic) or isinstance(v, _IMMUTABLE):
        return True
    if isinstance(v, (tuple, frozenset)):
        return all(_deeply_immutable(x) for x in v)
    return False


class Snapshot(object):
    """What the module keeps between calls, as it is right after a (re-)import: every module global that is not
    deeply immutable (one deep copy of them all, so that sharing between them is kept), and the defaults and
    attributes of its functions.  restore() puts it back - much cheaper than re-executing the module, and used only
    BETWEEN re-imports to separate the histories of a pass; it can only make the explored histories longer than
    intended (never a false alarm: the oracle compares two values of one call at the same arguments)."""
    def __init__(self, I):
        import copy
        import types
        self.copy = copy
        self.names = set(vars(I))
        self.mutable = dict((k, v) for k, v in vars(I).items()
                            if not k.startswith('__') and not isinstance(v, types.FunctionType)
                            and not _deeply_immutable(v))
        self.keep = copy.deepcopy(self.mutable)
        self.funcs = [(f, copy.deepcopy(f.__defaults__), copy.deepcopy(f.__kwdefaults__), dict(f.__dict__))
                      for f in vars(I).values() if isinstance(f, types.FunctionType)]

    def restore(self, I):
        d = vars(I)
        for k in [k for k in d if k not in self.names]:
            del d[k]
        d.update(self.copy.deepcopy(self.keep))
        for f, dflt, kw, attrs in self.funcs:
            if dflt is not None:
                f.__defaults__ = self.copy.deepcopy(dflt)
            if kw is not None:
                f.__kwdefaults__ = self.copy.deepcopy(kw)
            if f.__dict__ or attrs:
                f.__dict__.clear()
                f.__dict__.update(self.copy.deepcopy(attrs))


def chk_primer(I, t, p, d, cls):
    """Isolated value of every routine at the state = its value as the first call after a fresh import.  Then for
    every primer state s' and every routine g, from the state of the module right after a fresh import (restored):
    g(s'), then for every routine f (g included): f(s), g(s').  Every f(s) must reproduce its isolated value bit for
    bit, every g(s') the first g(s') (repeatability - whichever of two different results of one call is wrong, one is).
    Returns (viols, evaluations, keys, number of primer states)."""
    V = variants_at(I, t, p, d)
    iso = {}
    for name, th in V:
        fresh_library()
        iso[name] = _run_canon(th)
    bad, rep = {}, {}
    n = 0
    keys = []
    prim = primer_states(t, p, d)
    fresh_library()
    snap = Snapshot(I)
    for label, s2 in prim:
        V2 = variants_at(I, *s2)
        for gname, gth in V2:
            snap.restore(I)
            f0 = _run_canon(gth)
            n += 1
            for fname, fth in V:
                r = _run_canon(fth)
                r2 = _run_canon(gth)
                n += 2
                keys.append(('primer', t, p, d, label, s2, gname, fname))
                if r != iso[fname] and fname not in bad:
                    bad[fname] = (gname, label, s2, r)
                if r2 != f0 and gname not in rep:
                    rep[gname] = (fname, label, s2, f0, r2)
    viols = []
    byname = dict(V)
    for fname in sorted(bad):
        gname, label, s2, got = bad[fname]
        # attribution: does the single primer call reproduce it from a fresh import?
        fresh_library()
        _run_canon(dict(variants_at(I, *s2))[gname])
        g2 = _run_canon(byname[fname])
        if g2 != iso[fname]:
            after, got = '%s@%s' % (gname, label), g2
        else:
            after = 'longer-history(last=%s@%s)' % (gname, label)
        viols.append(('C14|%s|result-depends-on-earlier-calls|after=%s|%s' % (fname, after, cls),
                      'at (t, p, d) = (%r, %r, %r): %s gives %s as the first call after a fresh import but %s when '
                      'called after %s at (t, p, d) = %r (hex floats; the routines are pure functions)'
                      % (t, p, d, fname, iso[fname], got, gname, s2)))
    for gname in sorted(rep):
        fname, label, s2, f0, got = rep[gname]
        viols.append(('C14|%s|not-repeatable|between=%s@%s|%s' % (gname, fname, label, cls),
                      '%s at (t, p, d) = %r gave %s and later, around a call of %s at (%r, %r, %r), %s in the same '
                      'process' % (gname, s2, f0, fname, t, p, d, got)))
    fresh_library()
    return viols, n, keys, len(prim)


# ----------------------------------------------------------------------------------------------------------
# units
# ----------------------------------------------------------------------------------------------------------

PRIMER_CHUNK = {'quick': 6, 'thorough': 8}


def t_chunks(ts, n):
    return core.chunks(ts, n)


def units(tier):
    P = PARAMS[tier]
    us = [('chains',)]
    n = len(sat_line_ts())
    for a in range(0, n, 5000):
        us.append(('satinv_t', a, min(n, a + 5000)))
    us.append(('satinv_p',))
    n = len(b23_ts())
    for a in range(0, n, 5000):
        us.append(('b23inv_t', a, min(n, a + 5000)))
    us.append(('b23inv_p',))
    t1 = R.t_lattice(R.T_13, P['tstep'])
    t2 = R.t_lattice(R.T_MAX, P['tstep'])
    t3 = r3_ts(P)
    for reg, ts, k in ((1, t1, P['tchunk']), (2, r2_ts(P), 2 * P['tchunk']), (3, t3, max(2, P['tchunk'] // 2))):
        for ch in t_chunks(ts, k):
            us.append(('lattice', reg, ch[0], ch[-1]))
    us.append(('x13',))
    for name, lo, hi, step, k in (('x23', R.T_13, R.T_23_END, P['b23step'], 4),
                                  ('x34', R.T_13, 373.5, P['mxstep'], 8),
                                  ('x12', R.T_MIN, R.T_13, P['ccstep'], 2)):
        ts = R.t_lattice(hi, step, lo)
        for ch in t_chunks(ts, k):
            us.append((name, ch[0], ch[-1]))
    for ch in t_chunks(t2, 2 * P['tchunk']):
        us.append(('class', ch[0], ch[-1]))
    us.append(('class-limits',))
    n = len(history_states(lib(), tier))
    step = 12 if tier == 'quick' else 40
    for a in range(0, n, step):
        us.append(('history', a, min(n, a + step)))
    n = len(primer_lattice(lib(), tier))
    step = PRIMER_CHUNK[tier]
    for a in range(0, n, step):
        us.append(('primer', a, min(n, a + step)))
    return us


def report(rec, key, viols, case, nontrivial=True, outcome=None):
    rec.case(key, nontrivial=nontrivial, outcome=outcome)
    for sig, what in viols:
        rec.violation(sig, what, case)


def sub(ts, lo, hi):
    return [t for t in ts if lo <= t <= hi]


def run_unit(unit, tier, rec):
    with core.timelimit(1500):
        _run_unit(unit, tier, rec)


def _run_unit(unit, tier, rec):
    I = lib()
    W = R.Worst()
    try:
        _explore(I, unit, tier, rec, W)
    except (LibErr, Undefined) as e:
        # a curve needed to build the unit's lattice failed: the rest of the unit cannot be built
        site, arg = (e.site, e.arg) if isinstance(e, Undefined) else (e.site, None)
        for sig, what in (chk_need(I, site, arg) if isinstance(e, Undefined) else
                          [('C14|%s|raises:%s|lattice-curve' % (e.site, type(e.exc).__name__), str(e))]):
            rec.violation(sig, what + ' (unit %r abandoned)' % (unit,), {'clause': 'need', 'site': site, 'x': arg})
        rec.case(('abandoned', unit), nontrivial=False, outcome='unit-abandoned')
    W.flush(rec)


def _explore(I, unit, tier, rec, W):
    P = PARAMS[tier]
    kind = unit[0]
    if kind == 'chains':
        unit_chains(I, rec)
    elif kind == 'satinv_t':
        pts = sat_line_ts()[unit[1]:unit[2]]
        for t, inside in pts:
            v, m, oc = chk_satinv_t(I, t)
            if not inside:
                v = []          # outside the closed interval nothing is required
            W.add(m)
            report(rec, ('satinv_t', t), v, {'clause': 'satinv_t', 't': t}, inside, 'satinv_t-' + oc)
        rec.sample({'clause': 'satinv_t', 't': pts[len(pts) // 2][0], 'points': len(pts)})
    elif kind == 'satinv_p':
        lo = need('sat', I.sat, R.T_MIN)
        for p, inside, cls in rev_lattice(lo, R.PCRIT97, P['nrev'], degenerate_points()['p']):
            v, m, oc = chk_satinv_p(I, p, cls)
            if not inside:
                v = []
            W.add(m)
            report(rec, ('satinv_p', p), v, {'clause': 'satinv_p', 'p': p, 'cls': cls}, inside, 'satinv_p-' + oc)
        rec.sample({'clause': 'satinv_p', 'from': lo, 'to': R.PCRIT97, 'points': P['nrev']})
    elif kind == 'b23inv_t':
        pts = b23_ts()[unit[1]:unit[2]]
        for t, inside in pts:
            v, m, oc = chk_b23inv_t(I, t)
            if not inside:
                v = []
            W.add(m)
            report(rec, ('b23inv_t', t), v, {'clause': 'b23inv_t', 't': t}, inside, 'b23inv_t-' + oc)
    elif kind == 'b23inv_p':
        lo = need('b23p', I.b23p, R.T_13)
        for p, inside, cls in rev_lattice(lo, R.P_MAX, P['nrev']):
            v, m, oc = chk_b23inv_p(I, p, cls)
            if not inside:
                v = []
            W.add(m)
            report(rec, ('b23inv_p', p), v, {'clause': 'b23inv_p', 'p': p, 'cls': cls}, inside, 'b23inv_p-' + oc)
    elif kind == 'lattice':
        reg, lo, hi = unit[1], unit[2], unit[3]
        if reg in (1, 2):
            ts = sub(R.t_lattice(R.T_13, P['tstep']) if reg == 1 else r2_ts(P), lo, hi)
            plist = []
            for t in ts:
                try:
                    plist = r1_pressures(I, t, P['npres']) if reg == 1 else r2_pressures(I, t, P['npres'])
                except (LibErr, Undefined) as e:
                    site = e.site
                    arg = e.arg if isinstance(e, Undefined) else t
                    report(rec, ('isotherm', reg, t), chk_need(I, site, arg), {'clause': 'need', 'site': site, 'x': arg},
                           True, 'r%d-isotherm-no-lattice' % reg)
                    continue
                for p in plist:
                    v, m, oc, d = chk_state_tp(I, reg, t, p)
                    W.add(m)
                    report(rec, ('state', reg, t, p), v, {'clause': 'state_tp', 'region': reg, 't': t, 'p': p},
                           True, 'r%d-state-%s' % (reg, oc))
                v, oc = chk_monotone_tp(I, reg, t, plist)
                report(rec, ('monotone', reg, t), v,
                       {'clause': 'monotone_tp', 'region': reg, 't': t, 'plist': plist}, True,
                       'r%d-isotherm-%s' % (reg, oc))
            rec.sample({'clause': 'lattice', 'region': reg, 't': ts[-1], 'pressures': plist[:1] + plist[-1:],
                        'isotherms': len(ts)})
        else:
            ts = sub(r3_ts(P), lo, hi)
            nst = 0
            for t in ts:
                try:
                    states = r3_isotherm(I, t, P['dstep'])
                except (LibErr, Undefined):
                    states = []         # reported by chk_monotone_dt below
                for d, p, u, s in states:
                    v, m, oc = chk_state_dt(I, d, t)
                    W.add(m)
                    report(rec, ('state', 3, t, d), v, {'clause': 'state_dt', 'd': d, 't': t}, True,
                           'r3-state-%s' % oc)
                    nst += 1
                v, oc = chk_monotone_dt(I, t, P['dstep'])
                report(rec, ('monotone', 3, t), v, {'clause': 'monotone_dt', 't': t, 'dstep': P['dstep']},
                       len(states) > 1, 'r3-isotherm-%s' % oc)
            rec.count('region3_lattice_states', nst)
            rec.sample({'clause': 'lattice', 'region': 3, 'isotherms': len(ts), 'states': nst})
    elif kind == 'x13':
        for p in R.logspace(need('sat', I.sat, R.T_13), R.P_MAX, P['n350']):
            v, m, oc = chk_x13(I, p)
            W.add(m)
            report(rec, ('x13', p), v, {'clause': 'x13', 'p': p}, True, 'x13-' + oc)
        rec.sample({'clause': 'x13', 't': 350., 'points': P['n350']})
    elif kind in ('x23', 'x34', 'x12'):
        lo_all, hi_all, step = {'x23': (R.T_13, R.T_23_END, P['b23step']), 'x34': (R.T_13, 373.5, P['mxstep']),
                                'x12': (R.T_MIN, R.T_13, P['ccstep'])}[kind]
        f = {'x23': chk_x23, 'x34': chk_x34, 'x12': chk_x12}[kind]
        for t in sub(R.t_lattice(hi_all, step, lo_all), unit[1], unit[2]):
            v, m, oc = f(I, t)
            W.add(m)
            report(rec, (kind, t), v, {'clause': kind, 't': t}, True, '%s-%s' % (kind, oc))
    elif kind == 'history':
        sts = history_states(I, tier)[unit[1]:unit[2]]
        for (t, p), cls in sts:
            v, n = chk_history(I, t, p, cls)
            rec.bulk(n, [('history', t, p, k) for k in range(n)],
                     outcome='history-' + ('ok' if not v else 'differs'))
            for sig, what in v:
                rec.violation(sig, what, {'clause': 'history', 't': t, 'p': p, 'cls': cls})
        rec.sample({'clause': 'history', 'states': len(sts), 'first': sts[0][0], 'calls_per_state': n})
    elif kind == 'primer':
        sts = primer_lattice(I, tier)[unit[1]:unit[2]]
        for (t, p, d), cls in sts:
            v, n, keys, nprim = chk_primer(I, t, p, d, cls)
            rec.bulk(n, keys, outcome='primer-' + ('ok' if not v else 'differs'))
            rec.count('primer_lattice_states')
            rec.count('primer_states', nprim)
            for sig, what in v:
                rec.violation(sig, what, {'clause': 'primer', 't': t, 'p': p, 'd': d, 'cls': cls})
        rec.sample({'clause': 'primer', 'states': len(sts), 'first': sts[0][0],
                    'primers_of_first': [list(x) for x in primer_states(*sts[0][0])[:4]]})
    elif kind in ('class', 'class-limits'):
        lim = limit_ts()
        if kind == 'class':
            skip = set(t for t, c in lim)       # explored by the class-limits unit
            ts = [(t, 'T-lattice') for t in sub(R.t_lattice(R.T_MAX, P['tstep']), unit[1], unit[2]) if t not in skip]
        else:
            ts = lim
        n = 0
        for t, tcls in ts:
            for p, pcls in class_pressures(I, t, P['npres']):
                v, oc = chk_region(I, t, p, tcls, pcls)
                nontrivial = not (tcls == 'T-lattice' and pcls == 'p-lattice') or oc != 'outside'
                report(rec, ('region', t, p), v, {'clause': 'region', 't': t, 'p': p, 'tcls': tcls, 'pcls': pcls},
                       nontrivial, 'class-' + oc)
                n += 1
        if kind == 'class-limits':
            rec.count('limit_temperatures', len(ts))
            rec.sample({'clause': 'region', 'limit_temperatures': [t for t, c in ts][:6],
                        'pressures_at_350': [p for p, c in class_pressures(I, 350., 4)]})
    else:
        raise core.HarnessError('unknown unit %r' % (unit,))


def finalize(rec, tier):
    u, sg, rest = R.collect(rec.notes)
    rec.notes[:] = rest
    if CAL:
        R.print_calibration(u, sg)
    return {'measured_against_tolerance': R.evidence_of(u, sg), 'calibration_mode': CAL}


# ----------------------------------------------------------------------------------------------------------
# replay
# ----------------------------------------------------------------------------------------------------------

def replay(case):
    I = lib()
    c = case['clause']
    if c == 'chain':
        return chk_chain(I, case['routine'], case['chain'], case['index'], case['mode'])[0]
    if c == 'satinv_t':
        return chk_satinv_t(I, case['t'])[0]
    if c == 'satinv_p':
        return chk_satinv_p(I, case['p'], case['cls'])[0]
    if c == 'b23inv_t':
        return chk_b23inv_t(I, case['t'])[0]
    if c == 'b23inv_p':
        return chk_b23inv_p(I, case['p'], case['cls'])[0]
    if c == 'state_tp':
        return chk_state_tp(I, case['region'], case['t'], case['p'])[0]
    if c == 'monotone_tp':
        return chk_monotone_tp(I, case['region'], case['t'], case['plist'])[0]
    if c == 'state_dt':
        return chk_state_dt(I, case['d'], case['t'])[0]
    if c == 'monotone_dt':
        return chk_monotone_dt(I, case['t'], case['dstep'])[0]
    if c == 'x13':
        return chk_x13(I, case['p'])[0]
    if c == 'x23':
        return chk_x23(I, case['t'])[0]
    if c == 'x34':
        return chk_x34(I, case['t'])[0]
    if c == 'x12':
        return chk_x12(I, case['t'])[0]
    if c == 'region':
        return chk_region(I, case['t'], case['p'], case['tcls'], case['pcls'])[0]
    if c == 'history':
        return chk_history(I, case['t'], case['p'], case['cls'])[0]
    if c == 'primer':
        return chk_primer(I, case['t'], case['p'], case['d'], case['cls'])[0]
    if c == 'need':
        return chk_need(I, case['site'], case['x']) if case.get('x') is not None else []
    raise core.HarnessError('unknown clause %r' % c)
