"""C03 - MULgraph geometry file write/read round trip.

Engine E2 (configuration enumeration).  A case is a small *spec* (a JSON-able dict) from which a geometry is
built through the library's own constructors and edits (rectangular(), reading a shipped file, refine, reduce,
rotate, translate, surface / well / centre / header-option assignments).  Each case is taken through

    g --write--> bytes1 --ref/fixedcol.read_mulgraph--> values          (write checked by the reference reader)
    bytes1 --mulgrid()--> g2 ; g2 == g to the format's digits ; name lists identical ; g2.write() == bytes1
    describe(g) --ref/fixedcol.write_mulgraph(style)--> bytes3 --mulgrid()--> g3 == g   (read checked on
                                                                  reference-written, Fortran-style bytes)

so a writer defect and a reader defect cannot cancel.  Nothing is sampled: every spec of the stated cross
products is evaluated.

When a re-read geometry does not have the unit type that was written (finding F8 of DESIGN.md section 2), that is
reported once per direction and the comparison goes on with a second read in which the unit type is preset on the
empty geometry (the work-round a user has), so that the unit scaling of every record kind is still explored.
"""
import contextlib
import io
import itertools
import json
import math
import os

from mc import core
from ref import fixedcol as fc
from ref import isolate

ID = 'C03'
LEVEL = 'exploration'
ENGINE = 'E2'
EXHAUSTIVE = True
RULE = ('every spec of: [opt] rectangular nx,ny in 1..3 x 3 spacing patterns x 4 conventions x 3 atmosphere types x '
        '{metres,feet} x block order {None, layer_column, dmplex, dmplex-then-None} x {angle 0 / 30.5} x {atmosphere '
        'sizes default / 1e20,1e-3}; [surf] every subset of the columns of a 3x2 (quick 2x2) geometry given a '
        'non-default surface x 5 elevation kinds (above top, on a layer boundary, mid-layer, 0.01 above a bottom, '
        'mixed) x conventions x atmosphere types x units; [wells] 0..3 wells x 2..6 track points each x units x '
        'conventions; [names] lower/upper case x blanks/no blanks x conventions on 6 and 30 columns, every single, '
        'pair and the full set of specified column centres; [limits] coordinates at 9999999.99 / -999999.99 (wells '
        '99999999.9 / -9999999.9) in metres and in feet; [shipped] g1..g7 as read x atmosphere types x units x '
        'block orders; [derived] 3x2 and g7 refined by each single column and by all, reduced to each half, rotated '
        '30 degrees, translated; [layers] stored layer centres that are not midpoints (a quarter up, exactly 0.0 in the '
        'first layer, 0.0 for the atmosphere layer) x surfaces of exactly 0.00 (none, two columns, all) on a geometry '
        'with its top at +15 x 2 conventions x 3 atmosphere types x units; [assign] naming convention (among 0, 2, 3) and atmosphere type reached by assignment on '
        'an existing geometry, every ordered pair, alone and combined in both orders; [route] unit type reached through the '
        'other unit type, with and without a write in between; [reader] one mulgrid object that has read a feet/dmplex/'
        'angle or a metres/layer_column file re-used through read() x 3 block orders x units x 2 conventions x 3 '
        'atmosphere types; [derived] also rename_column of each single column, subsets, all in reverse and in list '
        'order (one by one and as lists), name swaps, rename_layer, delete+add of a column; g7 with the surface of each single column, each pair of consecutive columns and all '
        'columns reset; [hist] the WRITTEN object reached through every sequence of length 1..2 '
        'over the library\'s own self-maintaining edit operations {rename_layer of each of the 4 layers incl. the atmosphere '
        'layer, rename_column first/last, atmosphere_type := 0/1/2, convention := 0/2/3 (not from convention 1), '
        'block_order := None/layer_column/dmplex, translate, rotate, refine of a column, reduce to a half, '
        'copy_layers_from, refine_layers} on a 3x2 geometry x 4 conventions x 3 atmosphere types x {no, two} '
        'non-default surfaces x {metres, feet}, written WITHOUT any refresh of the name lists by the harness.  Each spec: library write -> reference reader, library write -> library read -> '
        'compare + rewrite, reference writer (Fortran styles) -> library read.  A case is non-trivial when the '
        'geometry has at least one column and one layer; distinct = distinct spec.')
ASSUMPTIONS = [
    'reference column layout ref/layout/mulgraph.json frozen from doc/source/mulformat.rst (documentation erratum in '
    'the column-header table resolved by its own Length column and the MULgraph-written shipped files; see the notes '
    'in the layout file); reference number grammar ref/fortnum.py',
    'names are right-justified in their natural length (2 or 3 characters by convention) and well names fill their '
    'five columns: the format documentation warns that only right-justified names are safe, and a name shorter than '
    'its field cannot be told from its blank-extended form',
    'a coordinate that needs more than 10 columns at two decimals (one for wells) is compared to the decimals that '
    'fit in 10 columns (group over, and g1, g2, g3 in feet); a value whose integer part needs more than 10 columns '
    'is not enumerated; reference-written files exist only for values a Fortran F10.2 can print',
    'elevations are distinct by at least 0.01 file units or exactly equal, so rounding to two decimals cannot '
    'reorder a surface and a layer boundary (which would legitimately change the derived block list)',
    'dmplex block order only for geometries whose columns all have 3 or 4 vertices (documented precondition)',
    'tilt cosines gdcx/gdcy and the unsupported connection-type flag are not in the statement and are not asserted',
    'header option values are compared to the digits the layout guarantees: atmosphere sizes to three significant '
    'digits, angle and coordinates to two decimals, well coordinates to one',
    'block and connection name lists of the written geometry are fresh after the HARNESS\'s own attribute edits (it '
    'calls setup_block_name_index / setup_block_connection_name_index after them; staleness after edits is property '
    'C10); in the [hist] group nothing is refreshed after the edit operations of the library, which all rebuild both '
    'lists themselves (rename_column, rename_layer, the convention / atmosphere_type / block_order setters, refine, '
    'reduce, copy_layers_from, refine_layers) or change nothing the names depend on (translate, rotate): there the '
    'object as the library left it is compared with what is read back from its file',
    'a case whose edits leave a column surface and a layer boundary closer than 0.01 file units without being equal '
    '(an ulp apart after translate + refine_layers) is outside the elevation assumption above and is excluded']
BOUNDS = {
    'quick': {'opt': '4 shape/spacing bases x 96 header options x 2 angle/size settings', 'surf': '2x2, 16 subsets x 5 '
              'kinds x 4 conv x 3 atm x 2 units', 'wells': '0..2 wells x 2..6 points', 'shipped': 'g5, g7',
              'derived': '3x2 only', 'hist': 'edit sequences of length 1..2 over 22 operations (19 from convention 1) '
              'x 24 bases x 2 units = 20736', 'styles': '2 reference-writer styles (+16-style cross on the names group)'},
    'thorough': {'opt': '27 shape/spacing bases x 96 header options x 4 angle/size settings', 'surf': '3x2, 64 subsets x '
                 '5 kinds x 4 conv x 3 atm x 2 units', 'wells': '0..3 wells x 2..6 points', 'shipped': 'g1..g7',
                 'derived': '3x2 and g7 (each of its 108 columns; surface singles, consecutive pairs, all)',
                 'hist': 'edit sequences of length 1..2 over 22 operations (19 from convention 1) x 24 bases x 2 '
                 'units = 20736', 'styles': '4 reference-writer styles (+16-style '
                 'cross on the names group)'}}
TECHNIQUE = ('bounded exhaustive enumeration of geometry configurations on the real mulgrid.write / mulgrid.read, '
             'cross-checked in both directions by a reference fixed-column reader/writer frozen from the format '
             'documentation')
LEVEL_TEXT = ('Every configuration of the stated cross products is written by the library and read by the reference '
              'reader, read back by the library and rewritten, and rendered by the reference writer in Fortran styles '
              'and read by the library; nothing is sampled, every header option combination, every surface subset and '
              'every well/track count in the bounds is met.')
LEVEL_NOTE = ('Trusted: ref/fixedcol.py + ref/layout/mulgraph.json (documentation-derived), ref/fortnum.py. Not '
              'claimed: geometries outside the enumerated families, left-justified or embedded-blank names, '
              'coordinates beyond 10 columns, D-exponent reals.')

SHIPPED = '/repo/tests/mulgrid'   # data files; PYTOUGH_REPO moves the code, the data are read from the same tree
FEET = 0.3048
TIME_LIMIT = 120.0
MAX_TIMEOUTS_PER_UNIT = 2   # then the unit's remaining cases are skipped (counted as cap_hit: not exhaustive)

STYLES = {
    'E0-l-pad-long': fc.styled(real='E0', a_short='l', trim=False, keywords='long'),
    'E1-r-trim-short': fc.styled(real='E1', a_short='r', trim=True, keywords='short'),
    'E0-r-pad-short-crlf': fc.styled(real='E0', a_short='r', trim=False, keywords='short', eol='\r\n'),
    'E1-l-trim-long': fc.styled(real='E1', a_short='l', trim=True, keywords='long'),
}
for _r, _a, _t, _k in itertools.product(('E0', 'E1'), 'lr', (False, True), ('long', 'short')):
    STYLES['x-%s-%s-%s-%s' % (_r, _a, 'trim' if _t else 'pad', _k)] = fc.styled(real=_r, a_short=_a, trim=_t,
                                                                               keywords=_k)
CROSS_STYLES = sorted(k for k in STYLES if k.startswith('x-'))


def data_dir():
    d = os.path.join(core.REPO, 'tests', 'mulgrid')
    return d if os.path.isdir(d) else SHIPPED


# ------------------------------------------------------------------------------------------ spec enumeration

SPACING = {'uniform': [100., 100., 100.], 'increasing': [10., 20., 40.], 'mixed': [12.34, 0.57, 103.25]}
ZBLOCKS = [20., 5.25, 40.]      # with top at +10: first layer is (-10, 10) with centre exactly 0.0
ORDERS = ['none', 'layer_column', 'dmplex', 'dmplex>none']
ATMSIZES = {'default': None, 'alt': (1.e20, 1.e-3), 'odd': (1.235e22, 2.5e-4)}
WELLNAMES = ['WK  1', '   w2', 'AB 12']


def rect(nx, ny, sp='mixed', conv=0, atm=0, unit='m', order='none', angle=0.0, sizes='default', **kw):
    s = {'base': 'rect', 'nx': nx, 'ny': ny, 'sp': sp, 'conv': conv, 'atm': atm, 'unit': unit, 'order': order,
         'angle': angle, 'sizes': sizes}
    s.update(kw)
    return s


def specs_opt(tier):
    if tier == 'thorough':
        bases = [(nx, ny, sp) for nx in (1, 2, 3) for ny in (1, 2, 3) for sp in ('uniform', 'increasing', 'mixed')]
        extras = [(0.0, 'default'), (30.5, 'default'), (0.0, 'alt'), (30.5, 'odd')]
    else:
        bases = [(1, 1, 'uniform'), (2, 1, 'increasing'), (1, 3, 'mixed'), (3, 2, 'mixed')]
        extras = [(0.0, 'default'), (30.5, 'alt')]
    out = []
    for (nx, ny, sp) in bases:
        for conv in range(4):
            for atm in range(3):
                for unit in ('m', 'ft'):
                    for order in ORDERS:
                        for angle, sizes in extras:
                            out.append(rect(nx, ny, sp, conv, atm, unit, order, angle, sizes))
    return out


def specs_surf(tier):
    nx, ny = (3, 2) if tier == 'thorough' else (2, 2)
    n = nx * ny
    out = []
    for mask in range(1 << n):
        cols = [i for i in range(n) if mask >> i & 1]
        kinds = ['above', 'boundary', 'mid', 'lowedge', 'mixed'] if cols else ['none']
        for kind in kinds:
            for conv in range(4):
                for atm in range(3):
                    for unit in ('m', 'ft'):
                        out.append(rect(nx, ny, 'mixed', conv, atm, unit, surface={'cols': cols, 'kind': kind}))
    return out


def specs_wells(tier):
    maxw = 3 if tier == 'thorough' else 2
    out = []
    for nw in range(0, maxw + 1):
        for pts in itertools.product(range(2, 7), repeat=nw):
            for unit in ('m', 'ft'):
                for conv in ((0, 2) if tier == 'thorough' else (0,)):
                    out.append(rect(2, 2, 'mixed', conv, 1, unit, wells=list(pts)))
    return out


def specs_names(tier):
    out = []
    for (nx, ny) in ((3, 2), (6, 5)):
        for case in ('l', 'u'):
            for spaces in (True, False):
                for conv in range(4):
                    out.append(rect(nx, ny, 'increasing' if nx == 3 else 'uniform', conv, 1, 'm', case=case,
                                    spaces=spaces, styles='cross'))
    subsets = [[i] for i in range(6)] + [list(p) for p in itertools.combinations(range(6), 2)] + [list(range(6))]
    for cs in subsets:
        for unit in ('m', 'ft'):
            for conv in (0, 1):
                out.append(rect(3, 2, 'mixed', conv, 0, unit, centres=cs))
    return out


def specs_limits(tier):
    out = []
    for unit in ('m', 'ft'):
        for conv in (0, 2):
            for corner in ('hi', 'lo', 'both'):
                out.append(rect(2, 2, 'mixed', conv, 1, unit, limit=corner, wells=[2, 3]))
    return out


def specs_layers(tier):
    """Layer centres that are not midpoints (a quarter up; exactly 0.0 inside the first layer; 0.0 for the
    atmosphere layer) and surfaces of exactly 0.00, on a geometry whose top is at +15."""
    out = []
    for lc in (None, 'off', 'zero', 'zero-atm', 'off+zero'):
        for sf in (None, {'cols': [0, 4], 'kind': 'zero'}, {'cols': list(range(6)), 'kind': 'zero'}):
            for conv in (0, 1):
                for atm in range(3):
                    for unit in ('m', 'ft'):
                        kw = {'ztop': 15.0}
                        if lc:
                            kw['lc'] = lc
                        if sf:
                            kw['surface'] = sf
                        out.append(rect(3, 2, 'mixed', conv, atm, unit, **kw))
    return out


def specs_assign(tier):
    """Naming convention and atmosphere type reached by assignment on an existing geometry.  Conventions 0, 2 and 3
    have the same name lengths (3-character columns, 2-character layers), so a geometry named under one of them is
    a legal geometry under the others; convention 1 (2-character columns) is not interchangeable with them."""
    out = []
    for a, b in itertools.permutations((0, 2, 3), 2):
        for atm in range(3):
            for unit in ('m', 'ft'):
                out.append(rect(3, 2, 'mixed', a, atm, unit, conv_to=b, surface={'cols': [1, 4], 'kind': 'mixed'}))
            out.append(rect(2, 1, 'increasing', a, atm, 'm', 'dmplex', conv_to=b))
    for conv in range(4):
        for a, b in itertools.permutations(range(3), 2):
            out.append(rect(3, 2, 'mixed', conv, a, 'm', atm_to=b, surface={'cols': [1, 4], 'kind': 'mixed'}))
    for a, b in itertools.permutations((0, 2, 3), 2):
        for x, y in itertools.permutations(range(3), 2):
            for first in ('conv-first', 'atm-first'):
                out.append(rect(2, 2, 'mixed', a, x, 'm', conv_to=b, atm_to=y, assign_order=first))
    return out


def specs_route(tier):
    """The route by which the unit type was reached: through the other unit type, with and without a write of
    the geometry in between (the direct route is every other group)."""
    out = []
    for unit in ('m', 'ft'):
        for route in ('other', 'other+write'):
            for conv, atm in ((0, 1), (1, 0), (2, 2)):
                out.append(rect(3, 2, 'mixed', conv, atm, unit, route=route, wells=[2, 3], centres=[1],
                                surface={'cols': [0, 4], 'kind': 'mixed'}))
                out.append(rect(2, 1, 'increasing', conv, atm, unit, route=route))
    return out


PRIORS = {'feet,dmplex,angle': rect(2, 2, 'increasing', 2, 1, 'ft', 'dmplex', 45.5, 'alt', wells=[3],
                                    surface={'cols': [0, 3], 'kind': 'mixed'}, centres=[2]),
          'metres,layer_column': rect(3, 1, 'uniform', 0, 0, 'm', 'layer_column', 0.0, 'default')}


def specs_reader(tier):
    """History of the READER: one mulgrid object that has read another geometry file (other unit type, block
    order, angle, atmosphere sizes, convention, wells, surface) reads the case's files with read(); the result
    must be what a fresh object reads."""
    out = []
    for prior in sorted(PRIORS):
        for order in ('none', 'layer_column', 'dmplex'):
            for unit in ('m', 'ft'):
                for conv in (0, 1):
                    for atm in range(3):
                        out.append(rect(2, 2, 'mixed', conv, atm, unit, order, reader=prior))
        out.append(rect(3, 2, 'mixed', 0, 2, 'm', 'none', wells=[2], surface={'cols': [1], 'kind': 'mid'}, reader=prior))
    return out


def prior_file(kind):
    path = os.path.join(core.scratch(), 'c03_prior_%d.dat' % sorted(PRIORS).index(kind))
    if not os.path.exists(path):
        with quiet():
            g, _ = build(PRIORS[kind])
        with open(path, 'w', newline='') as fh:
            fh.write(fc.write_mulgraph(file_image(describe(g)), STYLES['E0-l-pad-long']))
    return path


# values that need more than 10 columns at two decimals: written with the decimals that fit (file units)
OVER = {'carry-at-2-decimals': 9999999.996, 'one-decimal': 12345678.25, 'carry-at-1-decimal': 99999999.96,
        'carry-at-1-decimal-b': 99999999.9901, 'no-decimal': 123456789.25, 'carry-at-0-decimals': 999999999.6,
        'ten-digits': 9999999999.4, 'neg-carry-at-2-decimals': -999999.996, 'neg-one-decimal': -1234567.25,
        'neg-carry-at-1-decimal': -9999999.96, 'neg-no-decimal': -12345678.25, 'neg-nine-digits': -999999999.4}


def specs_over(tier):
    out = []
    for k in sorted(OVER):
        for unit in ('m', 'ft'):
            out.append(rect(2, 2, 'mixed', 0, 1, unit, over=k, wells=[2], centres=[3]))
            out.append(rect(1, 1, 'uniform', 2, 0, unit, over=k))
    return out


def specs_shipped(tier):
    files = ['g1', 'g2', 'g3', 'g4', 'g5', 'g6', 'g7'] if tier == 'thorough' else ['g5', 'g7']
    out = []
    for f in files:
        out.append({'base': f, 'asis': True})
        for atm in range(3):
            for unit in ('m', 'ft'):
                for order in ('none', 'layer_column', 'dmplex'):
                    out.append({'base': f, 'atm': atm, 'unit': unit, 'order': order})
    return out


EDITS = ([['rename', [i]] for i in range(6)] +
         [['rename', [0, 2]], ['rename', [4, 1]], ['rename', [5, 4, 3, 2, 1, 0]], ['rename', [0, 1, 2, 3, 4, 5]],
          ['rename_list', [1, 3]], ['rename_list', [5, 4, 3, 2, 1, 0]], ['swapnames', 0, 5], ['swapnames', 2, 1],
          ['rename_layer', [1]], ['rename_layer', [3, 2, 1]], ['rename_layer', [2, 3]],
          ['deladd', 0], ['deladd', 2], ['deladd', 5]])


def specs_derived(tier):
    out = []
    # name and membership edits after which list order and dictionary order of the geometry may differ
    for which in ('higher', 'lower', 'same'):
        for unit in ('m', 'ft'):
            out.append(rect(3, 2, 'mixed', 0, 1, unit, derive=['copy_layers', which]))
            out.append(rect(3, 2, 'mixed', 0, 0, unit, derive=['copy_layers', which],
                            surface={'cols': [1, 4], 'kind': 'mixed'}))
    for d in EDITS:
        for unit in ('m', 'ft'):
            out.append(rect(3, 2, 'mixed', 0, 1, unit, derive=d, wells=[2], surface={'cols': [1, 4], 'kind': 'mixed'}))
        if d[0] in ('rename', 'rename_list', 'swapnames', 'deladd'):
            out.append(rect(3, 2, 'mixed', 1, 0, 'm', derive=d))
    for unit in ('m', 'ft'):
        for i in range(6):
            out.append(rect(3, 2, 'mixed', 0, 1, unit, derive=['refine', i]))
        for d in (['refine_all'], ['reduce', 0], ['reduce', 1], ['rotate', 30.0], ['translate', [12.34, -56.78, 9.87]],
                  ['translate', [1. / 3., -200. / 7., 0.125]], ['rotate', 30.0, 'wells']):
            out.append(rect(3, 2, 'mixed', 0, 1, unit, derive=d, wells=[2, 3],
                            surface={'cols': [0, 4], 'kind': 'mixed'}))
    if tier == 'thorough':
        for i in range(108):
            out.append({'base': 'g7', 'derive': ['refine', i]})
        for d in (['rename', [0]], ['rename', [57]], ['rename', [107, 3, 50]], ['rename', list(range(107, -1, -1))],
                  ['swapnames', 0, 107], ['deladd', 10]):
            out.append({'base': 'g7', 'derive': d})
        for d in (['refine_all'], ['reduce', 0], ['reduce', 1], ['rotate', 30.0], ['translate', [12.34, -56.78, 9.87]]):
            for unit in ('m', 'ft'):
                out.append({'base': 'g7', 'unit': unit, 'derive': d})
        # a larger irregular geometry: surface of every single column, every pair of consecutive columns, all
        for i in range(108):
            out.append({'base': 'g7', 'surface': {'cols': [i], 'kind': 'mixed'}})
        for i in range(107):
            out.append({'base': 'g7', 'surface': {'cols': [i, i + 1], 'kind': 'mixed'}})
        for kind in ('above', 'boundary', 'mid', 'lowedge', 'mixed'):
            for unit in ('m', 'ft'):
                out.append({'base': 'g7', 'unit': unit, 'surface': {'cols': list(range(108)), 'kind': kind}})
    return out


# edit operations of the library that keep the derived block / connection name lists up to date THEMSELVES (each
# ends with its own rebuild of both indexes, or does not touch anything the names depend on)
HIST_OPS = ([['rename_layer', i] for i in range(4)] + [['rename_column', 0], ['rename_column', -1]] +
            [['atm', t] for t in range(3)] + [['conv', c] for c in (0, 2, 3)] +
            [['order', o] for o in ('none', 'layer_column', 'dmplex')] +
            [['translate'], ['rotate'], ['refine', 0], ['reduce'], ['copy_layers', 'lower'], ['refine_layers', 1],
             ['relayer', 'higher'], ['relayer', 'lower']])
_HIST_CACHE = {}


def specs_hist(tier):
    """History of the WRITTEN object: a geometry reached through every sequence of length 1..2 of the
    library's own edit operations - rename_layer of each layer including the atmosphere layer, rename_column,
    assignment of atmosphere type / convention / block order, translate, rotate, refine, reduce, copy_layers_from,
    refine_layers - and written WITHOUT any refresh by the harness: the object as the library left it and the
    geometry read back from its file must agree in everything, the derived name lists included."""
    if tier in _HIST_CACHE:
        return _HIST_CACHE[tier]
    depth = 2    # (length 3 = 222426 specs, ~2400 CPU-s: enumerated by setting this to 3; not yet run to the end on /repo)
    out = []
    for conv in range(4):
        # conventions 0, 2, 3 are interchangeable by assignment (same name lengths); convention 1 is not
        ops = [o for o in HIST_OPS if o[0] != 'conv' or conv != 1]
        for atm in range(3):
            for sf in (None, {'cols': [1, 4], 'kind': 'mixed'}):
                for unit in ('m', 'ft'):
                    for n in range(1, (depth if unit == 'm' else 2) + 1):
                        for seq in itertools.product(ops, repeat=n):
                            kw = {'history': [list(o) for o in seq]}
                            if sf:
                                kw['surface'] = sf
                            out.append(rect(3, 2, 'mixed', conv, atm, unit, **kw))
    _HIST_CACHE[tier] = out
    return out


def apply_edit(g, op):
    """One edit of the geometry through the library's own operation; nothing else is touched."""
    import mulgrids
    k = op[0]
    if k == 'rename_layer':
        lay = g.layerlist[min(op[1], g.num_layers - 1)]
        new = next(nm for nm in (('%d' % n).rjust(g.layername_length) for n in range(90, 100)) if nm not in g.layer)
        if not g.rename_layer(lay.name, new):
            raise core.HarnessError('rename_layer(%r, %r) refused' % (lay.name, new))
    elif k == 'rename_column':
        new, _ = g.new_column_name()
        if not g.rename_column(g.columnlist[op[1]].name, new):
            raise core.HarnessError('rename_column(-> %r) refused' % new)
    elif k == 'atm':
        g.atmosphere_type = op[1]
    elif k == 'conv':
        g.convention = op[1]
    elif k == 'order':
        g.block_order = None if op[1] == 'none' else op[1]
    elif k == 'translate':
        g.translate([12.34, -56.78, 9.87], wells=True)
    elif k == 'rotate':
        g.rotate(30.0)
    elif k == 'refine':
        g.refine([g.columnlist[op[1]]])
    elif k == 'reduce':
        n = g.num_columns
        if n >= 2:
            g.reduce(list(g.columnlist[:n // 2]))
    elif k == 'copy_layers':
        top = g.layerlist[0].bottom + {'higher': 45.5, 'lower': -7.25, 'same': 0.0}[op[1]]
        # (the donor has the receiver's convention: its layer names must have the receiver's name length)
        other = mulgrids.mulgrid().rectangular([10.], [10.], [30., 12.75, 50.], origin=[0., 0., top],
                                               convention=g.convention)
        g.copy_layers_from(other)
    elif k == 'refine_layers':
        g.refine_layers([g.layerlist[min(op[1], g.num_layers - 1)]])
    elif k == 'relayer':
        # the layer structure replaced through add_layers(), which leaves the per-column layer counts and the name
        # lists to the caller: followed by the maintenance calls its users make (as rectangular() itself does)
        top = g.layerlist[0].bottom + {'higher': 45.5, 'lower': -7.25}[op[1]]
        g.add_layers([30., 12.75, 50.], top)
        for col in g.columnlist:
            g.set_column_num_layers(col)
        g.setup_block_name_index()
        g.setup_block_connection_name_index()
    else:
        raise core.HarnessError('unknown edit %r' % (op,))


GROUPS = [('opt', specs_opt, 48), ('surf', specs_surf, 32), ('wells', specs_wells, 8), ('names', specs_names, 8),
          ('limits', specs_limits, 2), ('layers', specs_layers, 4), ('route', specs_route, 2), ('assign', specs_assign, 4), ('over', specs_over, 2),
          ('reader', lambda tier: specs_reader(tier), 4), ('shipped', specs_shipped, 64),
          ('derived', specs_derived, 32), ('hist', specs_hist, 256), ('order', lambda tier: specs_order(tier), 4)]


def units(tier):
    us = []
    for name, fn, nchunks in GROUPS:
        n = len(fn(tier))
        k = max(1, min(nchunks, n))
        for i in range(k):
            us.append((name, i, k))
    return us


# ------------------------------------------------------------------------------------------ building a geometry

def quiet():
    return contextlib.redirect_stdout(io.StringIO())


def build(spec):
    """Library geometry of a spec; -> (g, reason_excluded or None)."""
    import numpy as np
    import mulgrids
    base = spec['base']
    if base == 'rect':
        conv = spec['conv']
        order = spec.get('order', 'none')
        bo = {'none': None, 'layer_column': 'layer_column', 'dmplex': 'dmplex', 'dmplex>none': 'dmplex'}[order]
        origin = [0., 0., float(spec.get('ztop', 10.))]
        if spec.get('limit'):
            origin = {'hi': [9999999.99 - 206.5, 9999999.99 - 206.5, 9999999.99],
                      'lo': [-999999.99, -999999.99, -999999.99 + 65.25],
                      'both': [-999999.99, 9999999.99 - 206.5, 10.]}[spec['limit']]
        sx = SPACING[spec['sp']][:spec['nx']]
        sy = SPACING[spec['sp']][::-1][:spec['ny']]
        if spec['nx'] > 3:
            sx = [25.] * spec['nx']
            sy = [40.] * spec['ny']
        if spec.get('limit'):
            sx, sy = [100., 106.5][:spec['nx']], [106.5, 100.][:spec['ny']]
        if spec.get('over'):
            V = OVER[spec['over']]
            if V > 0:       # the largest x, y and the top elevation are V
                origin = [V - sum(sx), V - sum(sy), V]
            else:           # the smallest x, y and the bottom elevation are V
                origin = [V, V, V + sum(ZBLOCKS)]
        kw = {}
        if spec.get('case'):
            kw['case'] = spec['case']
        if 'spaces' in spec:
            kw['spaces'] = spec['spaces']
        g = mulgrids.mulgrid().rectangular(sx, sy, ZBLOCKS, convention=conv, atmos_type=spec['atm'],
                                           origin=origin, block_order=bo, **kw)
        if order == 'dmplex>none':
            g.block_order = None
        # header options reached by ASSIGNMENT on the existing geometry (the constructor route is every other group)
        steps = []
        if 'conv_to' in spec:
            steps.append(('convention', spec['conv_to']))
        if 'atm_to' in spec:
            steps.append(('atmosphere_type', spec['atm_to']))
        if spec.get('assign_order') == 'atm-first':
            steps.reverse()
        for attr, val in steps:
            setattr(g, attr, val)
    else:
        g = mulgrids.mulgrid(os.path.join(data_dir(), base + '.dat'))
        if spec.get('asis'):
            return g, None
        if 'atm' in spec:
            g.atmosphere_type = spec['atm']
        order = spec.get('order', 'none')
        if order == 'dmplex' and any(c.num_nodes not in (3, 4) for c in g.columnlist):
            return None, 'dmplex-needs-3-or-4-vertices'
        if order != 'none':
            g.block_order = order
    scale = FEET if spec.get('unit') == 'ft' else 1.0
    if (spec.get('limit') or spec.get('over')) and scale != 1.0:
        # the limits are limits of the FILE: in feet the geometry in memory is the metre image of the same numbers
        for nd in g.nodelist:
            nd.pos = nd.pos * scale
        for c in g.columnlist:
            c.centre = c.centre * scale
            c.surface = c.surface * scale
            c.default_surface = True
        for lay in g.layerlist:
            lay.bottom *= scale
            lay.centre *= scale
            lay.top *= scale
    route = spec.get('route')
    if route:
        # the unit type is reached through the other one ('FEET then metres', 'metres then FEET'), with or
        # without a write in between; lengths in memory are metres throughout, only the file changes
        g.unit_type = '' if spec.get('unit') == 'ft' else 'FEET'
        if route == 'other+write':
            g.write(os.path.join(core.scratch(), 'c03_route.dat'))
        g.unit_type = 'FEET ' if spec.get('unit') == 'ft' else ''
    elif spec.get('unit') == 'ft':
        g.unit_type = 'FEET '
    if spec.get('angle'):
        g.permeability_angle = spec['angle']
    sizes = ATMSIZES[spec.get('sizes', 'default')]
    if sizes:
        g.atmosphere_volume, g.atmosphere_connection = sizes
    d = spec.get('derive')
    sf = spec.get('surface')
    if sf and sf['cols']:
        L = g.layerlist
        elev = {'above': L[0].bottom + 12.5, 'boundary': L[1].bottom, 'mid': L[2].centre, 'lowedge': L[2].bottom + 0.01,
                'zero': 0.0}
        kinds = ['above', 'boundary', 'mid', 'lowedge']
        for i in sf['cols']:
            col = g.columnlist[i]
            k = sf['kind'] if sf['kind'] != 'mixed' else kinds[i % 4]
            col.surface = elev[k]
            g.set_column_num_layers(col)
    lc = spec.get('lc')
    if lc:
        # stored layer centres need not be midpoints: the file carries them explicitly
        L = g.layerlist
        if lc == 'off':
            for lay in L[1:]:
                lay.centre = lay.bottom + 0.25 * (lay.top - lay.bottom)
        elif lc == 'zero':
            L[1].centre = 0.0
        elif lc == 'zero-atm':
            L[0].centre = 0.0
        elif lc == 'off+zero':
            for lay in L[2:]:
                lay.centre = lay.bottom + 0.25 * (lay.top - lay.bottom)
            L[1].centre = 0.0
    wl = spec.get('wells')
    if wl:
        b = g.bounds
        x0, y0 = float(b[0][0]), float(b[0][1])
        top = g.layerlist[0].bottom
        wlimit = spec.get('limit')
        for w, npts in enumerate(wl):
            track = []
            for k in range(npts):
                p = [x0 + 5.5 + 11.1 * w + 7.3 * k * (w % 2), y0 + 3.3 + 20.7 * w - 2.9 * k, top - 13.7 * k - 0.4 * w]
                if w == 0 and k == npts - 1:
                    p[2] = -abs(p[2]) - 1234.5
                track.append(np.array(p))
            if spec.get('over') and w == 0:
                V = OVER[spec['over']] * scale
                track[0] = np.array([V, V, V])
            if wlimit and w == 0:
                hi, lo = 99999999.9 * scale, -9999999.9 * scale
                track[0] = np.array([hi, lo, hi])
                track[-1] = np.array([lo, hi, lo])
            g.add_well(mulgrids.well(WELLNAMES[w], track))
    cs = spec.get('centres')
    if cs:
        for i in cs:
            col = g.columnlist[i]
            col.centre_specified = 1
            col.centre = np.array([col.centre[0] + 1.25 + i, col.centre[1] - 0.5 * i])
    if d:
        if d[0] == 'refine':
            g.refine([g.columnlist[d[1]]])
        elif d[0] == 'refine_all':
            g.refine()
        elif d[0] == 'reduce':
            n = g.num_columns
            cols = g.columnlist[:n // 2] if d[1] == 0 else g.columnlist[n // 2:]
            g.reduce(list(cols))
        elif d[0] == 'rotate':
            g.rotate(d[1], wells=len(d) > 2)
        elif d[0] == 'translate':
            g.translate(list(d[1]), wells=True)
        elif d[0] == 'rename':
            # rename_column of the columns with the given list positions, in the given order, to unused names
            for i in d[1]:
                new, _ = g.new_column_name()
                g.rename_column(g.columnlist[i].name, new)
        elif d[0] == 'rename_list':
            olds = [g.columnlist[i].name for i in d[1]]
            news = []
            taken = dict(g.column)
            for i in d[1]:
                new, _ = mulgrids.new_dict_key(taken, 0, str.rjust, g.colname_length)
                taken[new] = None
                news.append(new)
            g.rename_column(olds, news)
        elif d[0] == 'swapnames':
            a, b = g.columnlist[d[1]].name, g.columnlist[d[2]].name
            tmp, _ = g.new_column_name()
            g.rename_column(a, tmp)
            g.rename_column(b, a)
            g.rename_column(tmp, b)
        elif d[0] == 'rename_layer':
            for i in d[1]:
                g.rename_layer(g.layerlist[i].name, '%2d' % (90 + i))
        elif d[0] == 'copy_layers':
            # layer structure taken from another geometry whose top is higher / lower / the same
            top = g.layerlist[0].bottom + {'higher': 45.5, 'lower': -7.25, 'same': 0.0}[d[1]]
            other = mulgrids.mulgrid().rectangular([10.], [10.], [30., 12.75, 50.], origin=[0., 0., top])
            g.copy_layers_from(other)
        elif d[0] == 'deladd':
            col = g.columnlist[d[1]]
            cons = [con for con in g.connectionlist if col in con.column]
            g.delete_column(col.name)
            g.add_column(col)
            for con in cons:
                g.add_connection(con)
            g.identify_neighbours()
    g.setup_block_name_index()
    g.setup_block_connection_name_index()
    # from here on only the library's own edit operations, and no refresh by the harness after them
    for op in spec.get('history', ()):
        apply_edit(g, op)
    return g, None


def describe(g):
    """Plain-data image of a library geometry (lengths in metres, as in memory)."""
    def f(x):
        return None if x is None else float(x)
    h = {'type': g.type, 'convention': g.convention, 'atmosphere_type': g.atmosphere_type,
         'atmosphere_volume': f(g.atmosphere_volume), 'atmosphere_connection': f(g.atmosphere_connection),
         'unit_type': g.unit_type, 'permeability_angle': f(g.permeability_angle), 'block_order': g.block_order}
    return {'header': h,
            'nodes': [(n.name, f(n.pos[0]), f(n.pos[1])) for n in g.nodelist],
            'columns': [(c.name, 1 if c.centre_specified else 0, [n.name for n in c.node],
                         f(c.centre[0]) if c.centre_specified else None,
                         f(c.centre[1]) if c.centre_specified else None) for c in g.columnlist],
            'connections': [(c.column[0].name, c.column[1].name) for c in g.connectionlist],
            'layers': [(l.name, f(l.bottom), f(l.centre)) for l in g.layerlist],
            'surface': [(c.name, f(c.surface)) for c in g.columnlist if not c.default_surface],
            'all_surface': [(c.name, f(c.surface)) for c in g.columnlist],
            'wells': [(w.name, [(f(p[0]), f(p[1]), f(p[2])) for p in w.pos]) for w in g.welllist],
            'block_name_list': list(g.block_name_list),
            'block_connection_name_list': [tuple(c) for c in g.block_connection_name_list]}


def unit_scale(unit_type):
    u = (unit_type or '').strip()
    if u == '':
        return 1.0
    if u == 'FEET':
        return FEET
    raise ValueError('unit type %r' % unit_type)


def fit_precision(v, d, w=10):
    """Most decimals (<= d) with which v can be printed in w columns, None when not even its integer part fits.
    The format carries d decimals 'up to the 10-column limit'; a wider value keeps the decimals that fit."""
    for p in range(d, -1, -1):
        if len('%.*f' % (p, v)) <= w:
            return p
    return None


def ft(vfile, d):
    """Half a unit of the last decimal the field can carry for this value (file units)."""
    p = fit_precision(vfile, d)
    return 0.5 * 10.0 ** (-(d if p is None else p))


def fits_file(D, scale, strict=False):
    """Every length of the geometry can be printed in its 10 columns (with as many decimals as fit), in file
    units."""
    def ok(v, d):
        return v is None or (fit_precision(v / scale, d) == d if strict else fit_precision(v / scale, d) is not None)
    return (all(ok(x, 2) and ok(y, 2) for _, x, y in D['nodes'])
            and all(ok(c[3], 2) and ok(c[4], 2) for c in D['columns'])
            and all(ok(b, 2) and ok(c, 2) for _, b, c in D['layers'])
            and all(ok(e, 2) for _, e in D['surface'])
            and all(ok(v, 1) for _, tr in D['wells'] for p in tr for v in p))


def elevations_resolved(D, scale):
    """The stated assumption on elevations: a column surface and a layer boundary are exactly equal or at least 0.01
    file units apart (floating-point arithmetic in an edit - translate, then refine_layers - can leave them an ulp
    apart: a sliver block that two decimals cannot carry, so the derived block list legitimately changes)."""
    bounds = [b for _, b, _ in D['layers']]
    for _, e in D['all_surface']:
        if e is None:
            continue
        for b in bounds:
            if e != b and abs(e - b) < 0.01 * scale * (1 - 1e-9):
                return False
    return True


# ------------------------------------------------------------------------------------------ oracles

ORDER_INT = {None: None, 'layer_column': 0, 'dmplex': 1}


class Findings(object):
    def __init__(self, site, cls):
        self.site, self.cls, self.items, self.clauses = site, cls, [], set()

    def add(self, clause, what, cls=None):
        if clause in self.clauses:
            return
        self.clauses.add(clause)
        self.items.append(('C03|%s|%s|%s' % (self.site, clause, cls or self.cls), what))


def close(got, want, tol):
    if got is None or want is None:
        return got is None and want is None
    return abs(got - want) <= tol * (1 + 1e-9) + 1e-13 * abs(want)


def cmp_file(D, R, F):
    """What the reference reader found in the library-written bytes (file units) against the geometry in memory."""
    scale = unit_scale(D['header']['unit_type'])
    H, h = D['header'], R['header']
    if h['type'][0] != H['type']:
        F.add('header.type', 'file says %r, geometry is %r' % (h['type'][0], H['type']))
    for k in ('convention', 'atmosphere_type'):
        if h[k][0] != H[k]:
            F.add('header.' + k, 'file holds %r in the %s column, geometry has %r' % (h[k][2], k, H[k]),
                  '%s=%s' % (k, H[k]))
    for k in ('atmosphere_volume', 'atmosphere_connection'):
        if not close(h[k][0], H[k], fc.half_unit('E', 3, H[k])):
            F.add('header.' + k, 'file holds %r, geometry has %r' % (h[k][2], H[k]))
    want_unit = 'FEET' if scale != 1.0 else ''
    if R['unit'] != want_unit:
        F.add('header.unit_type', 'geometry has unit_type %r (coordinates are written divided by %s) but the length '
              'unit field, columns 28-32, holds %r' % (H['unit_type'], scale, h['unit'][0]),
              'feet-flag-not-written' if want_unit else 'flag-on-metres')
    a = h['permeability_angle'][0]
    if not close(0.0 if a is None else a, H['permeability_angle'], 0.005):
        F.add('header.permeability_angle', 'file holds %r, geometry has %r' % (h['permeability_angle'][2],
                                                                             H['permeability_angle']))
    if h['block_order'][0] != ORDER_INT[H['block_order']]:
        F.add('header.block_order', 'file holds %r in columns 64-65, geometry has block order %r'
              % (h['block_order'][2], H['block_order']), 'order=%s' % H['block_order'])
    # nodes
    if len(R['nodes']) != len(D['nodes']):
        F.add('node.count', '%d vertex records for %d nodes' % (len(R['nodes']), len(D['nodes'])))
    for (t, x, y), (name, mx, my) in zip(R['nodes'], D['nodes']):
        if not fc.name_matches(t, name, 3):
            F.add('node.name', 'node %r written as %r' % (name, t))
        for (v, u), m, ax in ((x, mx, 'x'), (y, my, 'y')):
            if not close(v, m / scale, ft(m / scale, 2)):
                F.add('node.xy', 'node %r %s = %r (%r in file units) written as %r' % (name, ax, m, m / scale, v))
    # columns
    if len(R['columns']) != len(D['columns']):
        F.add('column.count', '%d column records for %d columns' % (len(R['columns']), len(D['columns'])))
    for (t, cs, nodes, cx, cy), (name, mcs, mnodes, mx, my) in zip(R['columns'], D['columns']):
        if not fc.name_matches(t, name, 3):
            F.add('column.name', 'column %r written as %r' % (name, t))
        if bool(cs) != bool(mcs):
            F.add('column.centre_flag', 'column %r centre_specified %r written as %r' % (name, mcs, cs))
        if len(nodes) != len(mnodes) or not all(fc.name_matches(a_, b_, 3) for a_, b_ in zip(nodes, mnodes)):
            F.add('column.nodes', 'column %r nodes %r written as %r' % (name, mnodes, nodes))
        if mcs:
            for (v, u), m in ((cx, mx), (cy, my)):
                if not close(v, m / scale, ft(m / scale, 2)):
                    F.add('column.centre', 'column %r specified centre %r (%r in file units) written as %r'
                          % (name, m, m / scale, v))
    # connections
    if len(R['connections']) != len(D['connections']) or not all(
            fc.name_matches(a1, b1, 3) and fc.name_matches(a2, b2, 3)
            for (a1, a2), (b1, b2) in zip(R['connections'], D['connections'])):
        F.add('connection', 'connections %r... written as %r...' % (D['connections'][:4], R['connections'][:4]))
    # layers
    if len(R['layers']) != len(D['layers']):
        F.add('layer.count', '%d layer records for %d layers' % (len(R['layers']), len(D['layers'])))
    for (t, b, c), (name, mb, mc_) in zip(R['layers'], D['layers']):
        if not fc.name_matches(t, name, 3):
            F.add('layer.name', 'layer %r written as %r' % (name, t))
        if not close(b[0], mb / scale, ft(mb / scale, 2)):
            F.add('layer.bottom', 'layer %r bottom %r (%r in file units) written as %r' % (name, mb, mb / scale, b[0]))
        if not close(c[0], mc_ / scale, ft(mc_ / scale, 2)):
            F.add('layer.centre', 'layer %r centre %r (%r in file units) written as %r' % (name, mc_, mc_ / scale, c[0]))
    # surface
    if len(R['surface']) != len(D['surface']) or not all(fc.name_matches(t, n, 3)
                                                         for (t, e), (n, me) in zip(R['surface'], D['surface'])):
        F.add('surface.columns', 'columns with a non-default surface %r, surface section lists %r'
              % ([n for n, e in D['surface']][:8], [t for t, e in R['surface']][:8]))
    else:
        for (t, e), (n, me) in zip(R['surface'], D['surface']):
            if not close(e[0], me / scale, ft(me / scale, 2)):
                F.add('surface.elevation', 'column %r surface %r (%r in file units) written as %r'
                      % (n, me, me / scale, e[0]))
    # wells
    tracks = []
    for t, x, y, z in R['wells']:
        if tracks and tracks[-1][0] == t:
            tracks[-1][1].append((x[0], y[0], z[0]))
        else:
            tracks.append((t, [(x[0], y[0], z[0])]))
    if [(t, len(p)) for t, p in tracks] != [(n, len(p)) for n, p in D['wells']]:
        F.add('well.tracks', 'wells %r written as %r' % ([(n, len(p)) for n, p in D['wells']],
                                                        [(t, len(p)) for t, p in tracks]))
    else:
        for (t, ps), (n, mps) in zip(tracks, D['wells']):
            for p, mp in zip(ps, mps):
                for v, m in zip(p, mp):
                    if not close(v, m / scale, ft(m / scale, 1)):
                        F.add('well.xyz', 'well %r point %r (%r in file units) written as %r'
                              % (n, mp, tuple(q / scale for q in mp), p))
    want_order = ['node', 'column', 'connection', 'layer'] + (['surface'] if D['surface'] else []) + \
        (['well'] if D['wells'] else [])
    got = [s for s in R['order'] if not (s == 'surface' and not R['surface']) and not (s == 'well' and not R['wells'])]
    if got != want_order:
        F.add('sections', 'sections %r, expected %r' % (R['order'], want_order))


def cmp_mem(D, D2, F, coords=True):
    """A re-read geometry against the original, to the digits the format carries (metres)."""
    scale = unit_scale(D['header']['unit_type'])
    H, H2 = D['header'], D2['header']
    for k in ('type', 'convention', 'atmosphere_type', 'block_order'):
        if H[k] != H2[k]:
            F.add('header.' + k, '%s %r came back as %r' % (k, H[k], H2[k]), '%s=%s' % (k, H[k]))
    for k in ('atmosphere_volume', 'atmosphere_connection'):
        if not close(H2[k], H[k], fc.half_unit('E', 3, H[k])):
            F.add('header.' + k, '%s %r came back as %r' % (k, H[k], H2[k]))
    if not close(H2['permeability_angle'], H['permeability_angle'], 0.005):
        F.add('header.permeability_angle', 'angle %r came back as %r' % (H['permeability_angle'],
                                                                        H2['permeability_angle']))

    def T(m, d):
        return ft(m / scale, d) * scale
    if [n for n, x, y in D['nodes']] != [n for n, x, y in D2['nodes']]:
        F.add('node.name', 'node names %r... came back as %r...' % ([n for n, x, y in D['nodes']][:6],
                                                                   [n for n, x, y in D2['nodes']][:6]))
    elif coords:
        for (n, x, y), (n2, x2, y2) in zip(D['nodes'], D2['nodes']):
            if not (close(x2, x, T(x, 2)) and close(y2, y, T(y, 2))):
                F.add('node.xy', 'node %r at %r came back at %r' % (n, (x, y), (x2, y2)))
    if [c[0] for c in D['columns']] != [c[0] for c in D2['columns']]:
        F.add('column.name', 'column names %r... came back as %r...' % ([c[0] for c in D['columns']][:6],
                                                                       [c[0] for c in D2['columns']][:6]))
    else:
        for c, c2 in zip(D['columns'], D2['columns']):
            if c[2] != c2[2]:
                F.add('column.nodes', 'column %r nodes %r came back as %r' % (c[0], c[2], c2[2]))
            if c[1] != c2[1]:
                F.add('column.centre_flag', 'column %r centre_specified %r came back as %r' % (c[0], c[1], c2[1]))
            elif c[1] and coords and not (close(c2[3], c[3], T(c[3], 2)) and close(c2[4], c[4], T(c[4], 2))):
                F.add('column.centre', 'column %r specified centre %r came back as %r' % (c[0], c[3:5], c2[3:5]))
    if D['connections'] != D2['connections']:
        F.add('connection', 'connections %r... came back as %r...' % (D['connections'][:4], D2['connections'][:4]))
    if [l[0] for l in D['layers']] != [l[0] for l in D2['layers']]:
        F.add('layer.name', 'layer names %r came back as %r' % ([l[0] for l in D['layers']],
                                                               [l[0] for l in D2['layers']]))
    elif coords:
        for i, ((n, b, c), (n2, b2, c2)) in enumerate(zip(D['layers'], D2['layers'])):
            if not close(b2, b, T(b, 2)):
                F.add('layer.bottom', 'layer %r bottom %r came back as %r' % (n, b, b2))
            if not close(c2, c, T(c, 2)):
                cls = None
                if c == 0.0:
                    # a stored 0.00 is where a reader may confuse 'zero' with 'blank': say which 0.0 it was
                    if i == 0:
                        cls = 'stored-centre-0.0,first-layer,%s' % ('equals-bottom' if b == 0.0 else 'differs-from-bottom')
                    else:
                        mid = 0.5 * (b + D['layers'][i - 1][1])
                        cls = 'stored-centre-0.0,%s' % ('is-the-midpoint' if mid == 0.0 else 'not-the-midpoint')
                F.add('layer.centre', 'layer %r centre %r came back as %r' % (n, c, c2), cls)
    if [n for n, e in D['surface']] != [n for n, e in D2['surface']]:
        F.add('surface.columns', 'columns with non-default surface %r came back as %r'
              % ([n for n, e in D['surface']][:8], [n for n, e in D2['surface']][:8]))
    elif coords:
        for (n, e), (n2, e2) in zip(D['surface'], D2['surface']):
            if not close(e2, e, T(e, 2)):
                F.add('surface.elevation', 'column %r surface %r came back as %r' % (n, e, e2))
    if coords and 'surface.columns' not in F.clauses and 'surface.elevation' not in F.clauses and \
            [n for n, e in D['all_surface']] == [n for n, e in D2['all_surface']]:
        for (n, e), (n2, e2) in zip(D['all_surface'], D2['all_surface']):
            if not close(e2, e, None if e is None else T(e, 2)):
                F.add('column.surface', 'column %r (no surface record: default surface) has surface elevation %r, '
                      'comes back with %r' % (n, e, e2), 'default-surface-column')
                break
    if [(n, len(p)) for n, p in D['wells']] != [(n, len(p)) for n, p in D2['wells']]:
        F.add('well.tracks', 'wells %r came back as %r' % ([(n, len(p)) for n, p in D['wells']],
                                                          [(n, len(p)) for n, p in D2['wells']]))
    elif coords:
        for (n, ps), (n2, ps2) in zip(D['wells'], D2['wells']):
            for p, p2 in zip(ps, ps2):
                if not all(close(b_, a_, T(a_, 1)) for a_, b_ in zip(p, p2)):
                    F.add('well.xyz', 'well %r point %r came back as %r' % (n, p, p2))
    if 'column.surface' in F.clauses:
        return      # the block lists follow from the column surfaces: same finding
    if D['block_name_list'] != D2['block_name_list']:
        F.add('block_name_list', 'block name list differs: %d names %r... -> %d names %r...'
              % (len(D['block_name_list']), first_diff(D['block_name_list'], D2['block_name_list']),
                 len(D2['block_name_list']), first_diff(D2['block_name_list'], D['block_name_list'])))
    if D['block_connection_name_list'] != D2['block_connection_name_list']:
        F.add('block_connection_name_list', 'block connection name list differs: %d -> %d, first difference %r / %r'
              % (len(D['block_connection_name_list']), len(D2['block_connection_name_list']),
                 first_diff(D['block_connection_name_list'], D2['block_connection_name_list']),
                 first_diff(D2['block_connection_name_list'], D['block_connection_name_list'])))


def desc_diff(D1, D2):
    """First part of two descriptions that differs (exact comparison) -> (part, text) or None."""
    for k in ('header', 'nodes', 'columns', 'connections', 'layers', 'surface', 'all_surface', 'wells', 'block_name_list',
              'block_connection_name_list'):
        a, b = D1[k], D2[k]
        if a != b:
            if isinstance(a, dict):
                kk = [x for x in a if a[x] != b.get(x)]
                return 'header.' + kk[0], '%s %r -> %r' % (kk[0], a[kk[0]], b.get(kk[0]))
            i = next((i for i, (x, y) in enumerate(zip(a, b)) if x != y), min(len(a), len(b)))
            return k, '%s[%d] %r -> %r' % (k, i, a[i] if i < len(a) else None, b[i] if i < len(b) else None)
    return None


def line_diff(t1, t2):
    l1, l2 = t1.split('\n'), t2.split('\n')
    k = next((i for i, (a_, b_) in enumerate(zip(l1, l2)) if a_ != b_), min(len(l1), len(l2)))
    return 'line %d: %r -> %r' % (k + 1, l1[k] if k < len(l1) else None, l2[k] if k < len(l2) else None)


def first_diff(a, b):
    for i, x in enumerate(a):
        if i >= len(b) or b[i] != x:
            return a[i:i + 3]
    return a[len(a):len(a) + 3]


def file_image(D):
    """The geometry in file units and file vocabulary, for the reference writer."""
    scale = unit_scale(D['header']['unit_type'])
    H = D['header']
    hdr = {'type': H['type'], 'convention': H['convention'], 'atmosphere_type': H['atmosphere_type'],
           'atmosphere_volume': H['atmosphere_volume'], 'atmosphere_connection': H['atmosphere_connection'],
           'unit': 'FEET' if scale != 1.0 else None, 'permeability_angle': H['permeability_angle'],
           'block_order': ORDER_INT[H['block_order']]}

    def s(v):
        return None if v is None else v / scale
    return {'header': hdr,
            'nodes': [(n, s(x), s(y)) for n, x, y in D['nodes']],
            'columns': [(n, cs, nodes, s(cx), s(cy)) for n, cs, nodes, cx, cy in D['columns']],
            'connections': D['connections'],
            'layers': [(n, s(b), s(c)) for n, b, c in D['layers']],
            'surface': [(n, s(e)) for n, e in D['surface']],
            'wells': [(n, [tuple(s(v) for v in p) for p in tr]) for n, tr in D['wells']]}


def lib_read(path, want_unit, F, site_what, reader=None):
    """mulgrid(path), and when the unit type does not come back, the same read with the unit type preset (the
    work-round a user has), so that everything behind the unit flag is still compared.
    -> (geometry for rewriting or None, description to compare or None, coords_comparable)"""
    import mulgrids
    with quiet():
        if reader:
            g2 = mulgrids.mulgrid(prior_file(reader))
            g2.read(path)
        else:
            g2 = mulgrids.mulgrid(path)
    D2 = describe(g2)
    if D2['header']['unit_type'] == want_unit:
        return g2, D2, True
    F.add('header.unit_type', '%s: unit type %r expected, geometry has %r (unit_scale %r)'
          % (site_what, want_unit, D2['header']['unit_type'], getattr(g2, 'unit_scale', None)),
          'feet-flag-not-read' if want_unit.strip() else 'metres-read-as-feet')
    try:
        with quiet():
            g3 = mulgrids.mulgrid()
            g3.unit_type = want_unit
            g3.read(path)
        D3 = describe(g3)
        if D3['header']['unit_type'] == want_unit:
            return g2, D3, True
    except core.CaseTimeout:
        raise
    except Exception:
        pass
    return g2, D2, False


def evaluate(spec, tier='thorough'):
    """-> (violations [(sig, what)], outcome, stats dict)"""
    stats = {'round_trips': 0, 'ref_reads': 0, 'ref_written': 0}
    try:
        with quiet():
            g, excluded = build(spec)
    except core.CaseTimeout:
        raise
    except Exception as e:
        # an exception escaping the library while the geometry of the case is being made (reading a shipped
        # file, rectangular(), refine ...) is a failure of the case, not of the harness
        step = spec['base'] if spec['base'] != 'rect' else 'rectangular'
        if spec.get('derive'):
            step += '+' + spec['derive'][0]
        if spec.get('history'):
            step += '+edits'
        return [('C03|build(%s)|raises|%s' % (step, type(e).__name__),
                 'building the geometry of the case raised %s: %s' % (type(e).__name__, e))], 'build-raised', stats
    if excluded:
        return [], 'excluded:' + excluded, stats
    D = describe(g)
    scale = unit_scale(D['header']['unit_type'])
    if not fits_file(D, scale):
        return [], 'excluded:needs-more-than-10-columns', stats
    if spec.get('history') and not elevations_resolved(D, scale):
        return [], 'excluded:elevations-closer-than-0.01-but-not-equal', stats
    ucls = 'feet' if scale != 1.0 else 'metres'
    viol = []
    d = core.scratch()
    f1, f2, f3 = (os.path.join(d, 'c03_%s.dat' % k) for k in '123')
    for p in (f1, f2, f3):
        if os.path.exists(p):
            os.remove(p)
    hist = '[reader read a %s file before]' % spec['reader'] if spec.get('reader') else ''
    if spec.get('history'):
        hist = '[after edit operations of the library]'
    if spec.get('route'):
        ucls += ',unit-reached-via-%s' % ('metres' if scale != 1.0 else 'feet')
    # ---- 1. library writes, reference reads
    W = Findings('write', ucls)
    bytes1 = None
    try:
        with quiet():
            g.write(f1)
        with open(f1, newline='') as fh:
            bytes1 = fh.read()
    except core.CaseTimeout:
        raise
    except Exception as e:
        W.add('raises', 'mulgrid.write raised %s: %s' % (type(e).__name__, e), type(e).__name__)
    if bytes1 is not None:
        # write() is an observer: the geometry after it is the geometry before it, and a second write of the
        # same object gives the same bytes
        try:
            changed = desc_diff(D, describe(g))
            if changed:
                W.add('geometry-modified-by-write', 'write() changed the geometry it wrote: %s' % changed[1],
                      '%s,%s' % (changed[0], ucls))
            else:
                fb = os.path.join(d, 'c03_1b.dat')
                with quiet():
                    g.write(fb)
                with open(fb, newline='') as fh:
                    bytes1b = fh.read()
                os.remove(fb)
                if bytes1b != bytes1:
                    W.add('second-write-differs', 'writing the same object twice gives different files: %s'
                          % line_diff(bytes1, bytes1b), ucls + ',second-call')
        except core.CaseTimeout:
            raise
        except Exception as e:
            W.add('second-write-raises', 'second write of the same object raised %s: %s' % (type(e).__name__, e), ucls)
    flag_ok = True
    if bytes1 is not None:
        try:
            R = fc.read_mulgraph(bytes1)
            stats['ref_reads'] += 1
            cmp_file(D, R, W)
            flag_ok = 'header.unit_type' not in W.clauses
        except fc.RefFormatError as e:
            W.add('not-a-mulgraph-file', 'the written file is rejected by the reference reader: %s' % e)
    viol += W.items
    # ---- 2. library reads its own file, compare, rewrite
    if bytes1 is not None:
        B = Findings('write+read' + hist, ucls)
        try:
            g2, D2, comparable = lib_read(f1, D['header']['unit_type'], B, 'own file', spec.get('reader'))
            stats['round_trips'] += 1
            if not flag_ok:
                # the flag is not in the file: that the reader cannot find it is an echo of the write finding
                B.items = [it for it in B.items if '|header.unit_type|' not in it[0]]
            cmp_mem(D, D2, B, coords=comparable)
            reread_differs = bool(B.items)
            # what the reference reader already found wrong in the file comes back wrong: same finding
            B.items = [it for it in B.items if it[0].split('|')[2] not in W.clauses]
            try:
                with quiet():
                    g2.write(f2)
                with open(f2, newline='') as fh:
                    bytes2 = fh.read()
                if bytes2 != bytes1 and not reread_differs:
                    # (when the re-read geometry already differs, a different second file is the same finding)
                    l1, l2 = bytes1.split('\n'), bytes2.split('\n')
                    k = next((i for i, (a_, b_) in enumerate(zip(l1, l2)) if a_ != b_), min(len(l1), len(l2)))
                    B2 = Findings('rewrite' + hist, ucls)
                    B2.add('bytes-differ', 'second write differs from the first at line %d: %r -> %r'
                           % (k + 1, l1[k] if k < len(l1) else None, l2[k] if k < len(l2) else None))
                    viol += B2.items
            except core.CaseTimeout:
                raise
            except Exception as e:
                B.add('rewrite-raises', 'writing the re-read geometry raised %s: %s' % (type(e).__name__, e))
        except core.CaseTimeout:
            raise
        except Exception as e:
            B.add('raises', 'reading the library-written file raised %s: %s' % (type(e).__name__, e),
                  '%s,%s' % (ucls, type(e).__name__))
        viol += B.items
    # ---- 3. reference writes (Fortran styles), library reads
    if spec.get('styles') == 'cross':
        names = CROSS_STYLES
    else:
        names = list(STYLES)[:4 if tier == 'thorough' else 2]
    img = file_image(D)
    if not fits_file(D, scale, strict=True):
        names = []      # a Fortran program cannot print these values in F10.2: there is no reference-written file
    base_clauses = None
    for sname in names:
        Fs = Findings('read(ref-written)' + hist, ucls)
        try:
            text = fc.write_mulgraph(img, STYLES[sname])
        except fc.RefFormatError as e:
            raise core.HarnessError('reference writer cannot render spec %r: %s' % (spec, e))
        with open(f3, 'w', newline='') as fh:
            fh.write(text)
        stats['ref_written'] += 1
        try:
            g3, D3, comparable = lib_read(f3, D['header']['unit_type'], Fs, 'reference-written file',
                                          spec.get('reader'))
            cmp_mem(D, D3, Fs, coords=comparable)
        except core.CaseTimeout:
            raise
        except Exception as e:
            Fs.add('raises', 'reading the reference-written file raised %s: %s' % (type(e).__name__, e),
                   '%s,%s' % (ucls, type(e).__name__))
        if base_clauses is None:
            base_clauses = set(Fs.clauses)
            viol += Fs.items
        else:
            # a clause already failing in the base style is the same defect; style-specific failures are new
            for sig, what in Fs.items:
                clause = sig.split('|')[2]
                if clause not in base_clauses:
                    viol.append((sig + ',style=' + sname, 'style %s: %s' % (sname, what)))
    secs = 'VGCL' + ('S' if D['surface'] else '') + ('W' if D['wells'] else '')
    return viol, 'sections=%s,unit=%s' % (secs, ucls), stats


def as_is_check(spec):
    """A shipped, MULgraph-written file: the reference reader (lenient on characters beyond a record, as a Fortran
    read is) and the library must find the same geometry in it."""
    import mulgrids
    path = os.path.join(data_dir(), spec['base'] + '.dat')
    with open(path, newline='') as fh:
        text = fh.read()
    F = Findings('read(shipped)', spec['base'])
    stats = {'round_trips': 0, 'ref_reads': 1, 'ref_written': 0}
    R = fc.read_mulgraph(text, strict=False)
    try:
        with quiet():
            g = mulgrids.mulgrid(path)
    except core.CaseTimeout:
        raise
    except Exception as e:
        F.add('raises', 'reading the shipped file raised %s: %s' % (type(e).__name__, e))
        return F.items, 'shipped-as-is', stats
    D = describe(g)
    scale = R['unit_scale']
    lens = {0: (3, 2), 1: (2, 3), 2: (3, 2), 3: (3, 2)}[D['header']['convention']]

    def nm(t, n):
        return t.strip().rjust(n)
    if R['header']['convention'][0] != D['header']['convention'] or \
            R['header']['atmosphere_type'][0] != D['header']['atmosphere_type']:
        F.add('header', 'header flags %r / %r read as %r / %r' % (R['header']['convention'][2],
                                                                 R['header']['atmosphere_type'][2],
                                                                 D['header']['convention'],
                                                                 D['header']['atmosphere_type']))
    if unit_scale(D['header']['unit_type']) != scale:
        F.add('header.unit_type', 'unit field %r read as unit type %r' % (R['unit'], D['header']['unit_type']))
    want_nodes = [(nm(t, lens[0]), x[0] * scale, y[0] * scale) for t, x, y in R['nodes']]
    if [(n, x, y) for n, x, y in D['nodes']] != want_nodes:
        F.add('nodes', 'nodes differ from the file: %r / %r' % (first_diff(D['nodes'], want_nodes),
                                                               first_diff(want_nodes, D['nodes'])))
    want_cols = [(nm(t, lens[0]), 1 if cs else 0, [nm(k, lens[0]) for k in nodes]) for t, cs, nodes, cx, cy in R['columns']]
    got_cols = [(c[0], c[1], c[2]) for c in D['columns']]
    if got_cols != want_cols:
        # the library reverses clockwise columns on purpose; accept a reversed node list
        bad = [(a_, b_) for a_, b_ in zip(got_cols, want_cols)
               if a_[:2] != b_[:2] or (a_[2] != b_[2] and a_[2] != b_[2][::-1])]
        if bad or len(got_cols) != len(want_cols):
            F.add('columns', 'columns differ from the file: %r' % (bad[:2],))
    for c, (t, cs, nodes, cx, cy) in zip(D['columns'], R['columns']):
        if cs and c[1] and not (close(c[3], cx[0] * scale, 0) and close(c[4], cy[0] * scale, 0)):
            F.add('column.centre', 'column %r centre %r, file says %r' % (c[0], c[3:5], (cx[0], cy[0])))
    want_con = [(nm(a_, lens[0]), nm(b_, lens[0])) for a_, b_ in R['connections']]
    if D['connections'] != want_con:
        F.add('connections', 'connections differ from the file: %r / %r' % (first_diff(D['connections'], want_con),
                                                                           first_diff(want_con, D['connections'])))
    if [(n, b) for n, b, c in D['layers']] != [(nm(t, lens[1]), b[0] * scale) for t, b, c in R['layers']]:
        F.add('layers', 'layers differ from the file')
    for (n, b, c), (t, rb, rc) in zip(D['layers'], R['layers']):
        if rc[0] is not None and not close(c, rc[0] * scale, 0):
            F.add('layer.centre', 'layer %r centre %r, file says %r' % (n, c, rc[0]))
    want_surf = {}
    for t, e in R['surface']:
        want_surf[nm(t, lens[0])] = e[0] * scale
    if dict(D['surface']) != want_surf:
        F.add('surface', 'surface elevations differ from the file')
    tracks = {}
    order = []
    for t, x, y, z in R['wells']:
        if t not in tracks:
            tracks[t] = []
            order.append(t)
        tracks[t].append((x[0] * scale, y[0] * scale, z[0] * scale))
    if D['wells'] != [(t, tracks[t]) for t in order]:
        F.add('wells', 'well tracks differ from the file')
    return F.items, 'shipped-as-is', stats


# ------------------------------------------------------------------------------------------ order independence

def order_specs(tier):
    """The cases whose observation is repeated after other cases and after the primers."""
    out = specs_limits(tier) + specs_layers(tier)[::6] + specs_wells(tier)[::4] + specs_opt(tier)[::24] + \
        specs_surf(tier)[::48] + specs_names(tier)[::8] + [{'base': 'g7', 'unit': 'ft', 'atm': 1, 'order': 'none'}]
    return out if tier == 'thorough' else out[::2]


def specs_order(tier):
    n = 4 if tier == 'thorough' else 2
    return [{'order_pass': i, 'of': n} for i in range(n)]


def observe(spec, tag):
    """What one case shows: the bytes written and the canonical form of the geometry read back from them."""
    with quiet():
        g, excluded = build(spec)
        if excluded:
            return None
        p = os.path.join(core.scratch(), 'c03_o_%s.dat' % tag)
        g.write(p)
        with open(p, newline='') as fh:
            text = fh.read()
        import mulgrids
        D = describe(mulgrids.mulgrid(p))
    return text, D


def write_primers():
    """Legal cases that exercise the width guard of the writers: a geometry and a set of initial conditions whose
    values are over-wide for their fields and are, by design, written with reduced precision."""
    import numpy as np
    import mulgrids
    import t2incons
    d = core.scratch()
    with quiet():
        for unit in ('', 'FEET '):
            g = mulgrids.mulgrid().rectangular([100.25, 50.5], [75.75], [10.5, 20.25],
                                               origin=[12345600.25, -1234567.25, 12345678.25], atmos_type=1)
            g.add_well(mulgrids.well('PRIME', [np.array([123456789.25, -12345678.25, 12345678.25]),
                                               np.array([123456789.25, -12345678.25, -1234567.25])]))
            g.columnlist[0].surface = 12345670.25
            g.set_column_num_layers(g.columnlist[0])
            g.unit_type = unit
            g.write(os.path.join(d, 'c03_primer.dat'))
            mulgrids.mulgrid(os.path.join(d, 'c03_primer.dat'))
        inc = t2incons.t2incon()
        inc['prm 1'] = t2incons.t2blockincon([-1.2345678901234e-101, -2.5e+100, -3.25e5], 'prm 1', porosity=-0.123456789012)
        inc.timing = {'kcyc': 1, 'iter': 2, 'nm': 3, 'tstart': -1.23456789012e3, 'sumtim': -1.23456789012e-101}
        inc.write(os.path.join(d, 'c03_primer.incon'), reset=False)
        t2incons.t2incon(os.path.join(d, 'c03_primer.incon'))


def order_pass(spec, tier):
    """Runs in a forked child.  Pass 1: every case in order.  Pass 2: the same cases in reverse order (each now
    preceded by different cases), with the previous case's geometry still alive.  Then the primers.  Pass 3: the
    cases again.  What a case shows must be the same in all three."""
    cases = order_specs(tier)[spec['order_pass']::spec['of']]
    out = []
    with core.timelimit(TIME_LIMIT):
        first = [observe(c, 'a') for c in cases]
        second = [observe(c, 'b') for c in reversed(cases)][::-1]
        write_primers()
        third = [observe(c, 'c') for c in cases]
    for c, o1, o2, o3 in zip(cases, first, second, third):
        for o, after in ((o2, 'other-cases-in-reverse-order'), (o3, 'over-wide-primer')):
            if o1 is None or o is None:
                continue
            if o[0] != o1[0]:
                out.append((c, 'C03|write|bytes-depend-on-history|after=%s' % after,
                            'the file written for the same case differs from the first time: %s' % line_diff(o1[0], o[0])))
            elif o[1] != o1[1]:
                out.append((c, 'C03|read|geometry-depends-on-history|after=%s' % after,
                            'the same file is read differently from the first time: %s' % (desc_diff(o1[1], o[1]),)))
    return len(cases), out


def run_order_unit(spec, tier, rec):
    key = json.dumps(spec, sort_keys=True)
    try:
        ncases, found = isolate.isolated(order_pass, spec, tier)
    except isolate.ChildFailed as e:
        msg = str(e)
        if 'CaseTimeout' in msg:
            rec.violation('C03|order-pass|timeout|pass=%d' % spec['order_pass'], 'order-independence pass did not finish', {'spec': spec, 'tier': tier})
        else:
            rec.violation('C03|order-pass|raises|%s' % msg.strip().splitlines()[-1].split(':')[0],
                          'order-independence pass raised:\n%s' % msg[-1500:], {'spec': spec, 'tier': tier})
        rec.case(key, outcome='order-pass-failed')
        return
    rec.case(key, outcome='order-pass')
    rec.count('order_pass_cases', ncases)
    rec.count('order_pass_observations', 3 * ncases)
    for c, sig, what in found:
        rec.violation(sig, what, {'spec': c, 'tier': tier, 'order_spec': spec})


def run_case(spec, tier):
    with core.timelimit(TIME_LIMIT):
        if spec.get('asis'):
            return as_is_check(spec)
        return evaluate(spec, tier)


def run_unit(unit, tier, rec):
    gname, idx, k = unit
    fn = dict((n, f) for n, f, c in GROUPS)[gname]
    specs = fn(tier)[idx::k]
    timeouts = 0
    for spec in specs:
        key = json.dumps(spec, sort_keys=True)
        if 'order_pass' in spec:
            run_order_unit(spec, tier, rec)
            continue
        if timeouts >= MAX_TIMEOUTS_PER_UNIT:
            rec.case(key, nontrivial=False, outcome='skipped-after-%d-timeouts' % MAX_TIMEOUTS_PER_UNIT)
            rec.count('cap_hit', 1)
            continue
        try:
            viol, outcome, stats = run_case(spec, tier)
        except core.CaseTimeout:
            timeouts += 1
            viol, outcome, stats = [('C03|round-trip|timeout|%s' % gname, 'case did not finish in %d s' % TIME_LIMIT)], \
                'timeout', {}
        except core.HarnessError:
            raise
        except Exception as e:
            # whatever a changed library makes of a case, the case is reported and the unit goes on
            import traceback
            viol, outcome, stats = [('C03|round-trip|blow-up|%s,%s' % (gname, type(e).__name__),
                                     'evaluating the case raised:\n%s' % traceback.format_exc()[-1200:])], 'blow-up', {}
        rec.case(key, nontrivial=not outcome.startswith('excluded'), outcome=outcome)
        for name, n in stats.items():
            rec.count(name, n)
        rec.count('specs_' + gname, 1)
        for sig, what in viol:
            rec.violation(sig, what, {'spec': spec, 'tier': tier})
        if not viol and not outcome.startswith('excluded'):
            rec.sample({'spec': spec, 'outcome': outcome})


def replay(case):
    spec = case['spec']
    if 'order_spec' in case:
        ncases, found = isolate.isolated(order_pass, case['order_spec'], case.get('tier', 'thorough'))
        return [(sig, what) for c, sig, what in found if c == spec]
    viol, outcome, stats = run_case(spec, case.get('tier', 'thorough'))
    return viol
