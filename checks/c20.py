"""C20 - flavour conversion (convert_to_TOUGH2 / convert_to_AUTOUGH2 / the type setter) and Waiwera JSON
export keep the model and drop only what they say.

Engine E2: a base AUTOUGH2 model and a base TOUGH2 model are built in memory on a 2x1x2 rectangular
geometry (one atmosphere block); a configuration is the base plus a set of atomic deviations (section
present/absent, one more generator of some type, a MOP digit, MP, simulator string, SHORT subset, history
list representation, solver type, file name, built-in-memory vs read-from-file, method vs type setter).
The quick tier enumerates the base and every single deviation (plus the crossed blocks MOP(10) x MOP(23) x
simulator family, every MOP single x MP, every MOP single x no-SOLVR); the thorough tier every compatible pair
(MOP deviations in pairs only at the positions the converters treat).  The export part crosses rectangular
geometries x atmosphere types x block orders, every block position x boundary volumes, every EOS x
recognition route, and one generator of every type in every block.

Oracle: the property statement, clause by clause, evaluated on canonical (plain tuple) forms of the model
before the call, after the call, and after write -> read of the converted model (ref/convmodel.py holds
the type lists, option rules and the export partition model).
"""
import contextlib
import io
import itertools
import os
import traceback

from mc import core
from ref import convmodel as cm

ID = 'C20'
LEVEL = 'exploration'
ENGINE = 'E2'
EXHAUSTIVE = True
RULE = ('conversion: base model (AUTOUGH2 for ->TOUGH2, TOUGH2 for ->AUTOUGH2) plus every set of <= k compatible '
        'atomic deviations (k = 1 quick, 2 thorough), deviations = each section toggled, one more generator of each '
        'of the 36 types in 3 placements (new name / duplicate (block,name) after / before the original), every MOP '
        'position 1..24 x digit 0..9, MP, simulator family x EOS suffix, every SHORT subset x frequency, every '
        'read-from-file origin with 5 other legal section orders (MULTI/PARAM/START/RPCAP/TIMES/INCON/GENER/LINEQ/'
        'SOLVR ahead of ROCKS), LINEQ with a blank type, read-from-file origin with an extra-precision side file (all sections / echoed / '
        'ROCKS only / ROCKS+ELEME+CONNE), history representation (absent/objects/bare names)^3, 7 GOFT lists (block with three generators, block '
        'requested twice, requested blocks without generator, every block), solver types, file names, read-from-file origin, '
        'type-setter route; in pairs a MOP deviation is taken only from the positions the converters treat '
        '(10,12,14,16,17,20,21,22,23,24), the other 14 positions are singles and crossed with MP; export: 27 rectangular '
        'geometries x 3 atmosphere types x 3 block orders x 2 grid orders, every block position x boundary volumes, '
        '6 EOS x recognition routes x 5 simulator names, every generator type x every block; the geometry family is '
        'exported by 4 model origins (built from the geometry / written and re-read / converted, written and re-read '
        '/ ... and converted back).  Two-model dimension: every conversion case is followed by a re-observation of '
        'the previous case\'s still-alive converted model (canonical form and re-written file against the snapshot '
        'taken after its own conversion), and is repeated after two primer conversions with the other solver class, '
        'other MOP digits, MP and the opposite direction, whose results are then edited in place (all cases in quick; '
        'singles and every 8th pair in thorough) - the repeat must show the same canonical form, file and verdict.  '
        'History dimension (one object): from each of 6 base models (AUTOUGH2 with / without EOS name in MULTI / '
        'without MULTI / read from file, TOUGH2 with / without MULTI) every legal sequence of <= d operations '
        '(d = 4 quick, 5 thorough) from write, write + read back into the same object, json export, convert_to_TOUGH2, '
        'convert_to_AUTOUGH2 (default / simulator AUTOUGH2 + EWC; thorough also MP for both), simulator string := '
        'AUTOUGH2.2EWC / AUTOUGH2.2W, MULTI EOS name := EWAV / removed, MOP(11), MOP(21) edited in place; whenever '
        'the last operation is an observation (file written, JSON exported, model after a conversion or read-back) '
        'and an earlier one is a write or export, it is compared (exactly) with the same observation made by a '
        'freshly built object that went through the conversions, read-backs and edits only.  '
        'A case is non-trivial '
        'when the call under test ran on a model that differs from every other case (key = direction + atom set, or '
        'the export configuration); distinct = distinct keys')
ASSUMPTIONS = [
    'reference lists of TOUGH2 / convertible / AUTOUGH2-only generator types, the option (MOP) rules and the Waiwera '
    'EOS / unsupported-generator tables are those of ref/convmodel.py (TOUGH2 user guide record types; the '
    'rules the converters announce in their own warnings)',
    'a file round trip of the converted model is compared field by field; a difference in a field is reported only '
    'when the same field of the UNconverted model survives its own round trip (defects of plain write/read belong '
    'to C01; on the current tree this excuses only INCON without a grid)',
    'history lists holding bare names while the grid holds those blocks are outside the documented contract '
    '(history_block documentation): the conversion may keep or discard them, it must not fail',
    'a SHORT section in a TOUGH2 model and bare-name SHORT items are not generated (the reader cannot produce them)',
    'MOP(21) after conversion to TOUGH2 may be any value TOUGH2 defines (0..6); after conversion to AUTOUGH2 it is '
    'unused and not compared; the solver class must survive there-and-back (LINEQ 1/2 <-> MOP(21) 4/5)',
    'export: geometry block order (mulgrid.block_name_list) is trusted as the definition of the cell index; a '
    'block of exactly atmos_volume is a boundary block (default atmosphere volume = default limit); json() '
    'refusing a model loudly because of a generator type in the unsupported table is allowed',
    'interference between models is judged only by what a model shows (canonical form, written file, verdict), never '
    'by the existence of shared state; edits made in place to a primer model are ordinary attribute/dict/list edits '
    'of that model',
    'a GOFT request left for the block of a just-deleted (AUTOUGH2-only) generator is accepted either way',
    'history dimension: write() and json() are observers - by the statement (export / file round trip keep the model) '
    'nothing they did earlier, including an export that refused the model, may show in a later file, export or '
    'converted model; what read() does to an object that already holds a model is not fixed by the statement and is '
    'the same call in both chains; the reference object is never written or exported before its one observation',
    'values are chosen exactly printable in their fields (<= 4 significant digits), so round-trip comparison uses '
    'relative tolerance 1e-6',
]
BOUNDS = {'quick': {'history_depth': 4, 'history_bases': 6, 'history_alphabet': 11, 'second_object': 'every consecutive pair of cases of a unit', 'repeat_after_primers': 'every case',
                    'export_origins': 4,
                    'deviations': 'k <= 1 (+ MOP10 x MOP23 x simulator family block, + MP x every MOP single, '
                                  '+ no-SOLVR x every MOP single for ->AUTOUGH2)',
                    'export_boundary_geometries': 4, 'export_generator_pairs': 'none'},
          'thorough': {'history_depth': 5, 'history_bases': 6, 'history_alphabet': 13, 'second_object': 'every consecutive pair of cases of a unit',
                       'repeat_after_primers': 'k<=1 cases and every 8th pair', 'export_origins': 4,
                       'deviations': 'k <= 2 (in pairs, MOP deviations only at converter positions '
                                     '10,12,14,16,17,20,21,22,23,24), plus the quick crossed blocks',
                       'export_boundary_geometries': 27, 'export_generator_pairs': 'all ordered type pairs, 2 placements'}}
TECHNIQUE = ('deviation-bounded exhaustive enumeration of model configurations on the real converters and exporter, '
             'against a clause-by-clause reference model; write -> read of every converted model')
LEVEL_TEXT = ('Every configuration within the stated deviation bound is built, converted by the real code, written, '
              're-read and compared clause by clause with the reference; nothing is sampled.')
LEVEL_NOTE = ('Trusted: ref/convmodel.py tables, mulgrid block order. Not claimed: deviations beyond pairs, non-'
              'rectangular geometries, mesh_coords other than xyz, numeric content of sources beyond cell index.')

CASE_SECONDS = 30

# =========================================================================================================
# small helpers

_quiet = io.StringIO()


@contextlib.contextmanager
def quiet():
    _quiet.seek(0)
    _quiet.truncate()
    with contextlib.redirect_stdout(_quiet):
        yield


def num(x):
    if x is None or isinstance(x, (bool, str)):
        return x
    if hasattr(x, 'item'):
        try:
            return x.item()
        except Exception:
            return repr(x)
    return x


def cval(v):
    if isinstance(v, dict):
        return cdict(v)
    if isinstance(v, (list, tuple)) or type(v).__name__ == 'ndarray':
        return tuple(cval(x) for x in trim_list(v))
    return num(v)


def trim_list(v):
    v = list(v)
    while v and v[-1] is None:
        v.pop()
    return v


def cdict(d):
    return dict((str(k), cval(v)) for k, v in d.items())


def close(a, b, tol):
    """Structural equality with relative tolerance on floats."""
    if isinstance(a, float) or isinstance(b, float):
        if a is None or b is None or isinstance(a, str) or isinstance(b, str):
            return False
        if a == b:
            return True
        try:
            return abs(a - b) <= tol * max(abs(a), abs(b))
        except TypeError:
            return False
    if isinstance(a, (tuple, list)) and isinstance(b, (tuple, list)):
        return len(a) == len(b) and all(close(x, y, tol) for x, y in zip(a, b))
    if isinstance(a, dict) and isinstance(b, dict):
        return set(a) == set(b) and all(close(a[k], b[k], tol) for k in a)
    return a == b


def nonone(d):
    return dict((k, v) for k, v in d.items() if v is not None)


# =========================================================================================================
# canonical form of a t2data object

def canon_gen(g):
    return (g.block, g.name, num(g.nseq), num(g.nadd), num(g.nads), g.type, num(g.ltab) or 0,
            (g.itab or '').strip(), num(g.gx), num(g.ex), num(g.hg), num(g.fg),
            tuple(num(x) for x in g.time), tuple(num(x) for x in g.rate), tuple(num(x) for x in g.enthalpy))


G_BLOCK, G_NAME, G_TYPE = 0, 1, 5


def canon(dat):
    from t2grids import t2block, t2connection
    from t2data import t2generator
    g = dat.grid
    c = {}
    c['type'] = dat.type
    c['simulator'] = dat.simulator
    c['filename'] = dat.filename
    c['title'] = dat.title.strip()
    c['multi'] = cdict(dat.multi)
    c['lineq'] = cdict(dat.lineq)
    c['solver'] = cdict(dat.solver)
    p = dat.parameter
    c['option'] = tuple(int(x) for x in p['option'])
    c['param'] = dict((k, cval(v)) for k, v in p.items() if k not in ('option', '_option_str'))
    c['more_option'] = tuple(int(x) for x in dat.more_option)
    c['start'] = bool(dat.start)
    c['noversion'] = bool(dat.noversion)
    c['rpcap'] = (cdict(dat.relative_permeability), cdict(dat.capillarity))
    c['times'] = cdict(dat.output_times)
    c['selection'] = cdict(dat.selection)
    c['diffusion'] = cval(dat.diffusion)
    c['meshmaker'] = cval(dat.meshmaker)
    c['incon'] = dict((k, (num(v[0]), cval(v[1]))) for k, v in dat.incon.items())
    c['indom'] = dict((k, cval(v)) for k, v in dat.indom.items())
    c['rocks'] = tuple((rt.name, num(rt.nad), num(rt.density), num(rt.porosity),
                        tuple(num(x) for x in rt.permeability), num(rt.conductivity), num(rt.specific_heat),
                        num(rt.compressibility), num(rt.expansivity), num(rt.dry_conductivity),
                        num(rt.tortuosity), cdict(rt.relative_permeability), cdict(rt.capillarity))
                       for rt in g.rocktypelist)
    c['rocknames'] = tuple(sorted(g.rocktype))
    c['blocks'] = tuple((b.name, num(b.volume), b.rocktype.name,
                         None if b.centre is None else tuple(num(x) for x in b.centre),
                         num(b.ahtx), num(b.pmx), num(b.nseq), num(b.nadd)) for b in g.blocklist)
    c['blocknames'] = tuple(sorted(g.block))
    c['connections'] = tuple((tuple(b.name for b in k.block), num(k.direction), tuple(num(x) for x in k.distance),
                              num(k.area), num(k.dircos), num(k.sigma), num(k.nseq), num(k.nad1), num(k.nad2))
                             for k in g.connectionlist)
    c['gens'] = tuple(canon_gen(x) for x in dat.generatorlist)
    ids = [id(x) for x in dat.generatorlist]
    look = []
    for key in sorted(dat.generator):
        v = dat.generator[key]
        look.append((tuple(key), ids.index(id(v)) if id(v) in ids else -1, (v.block, v.name, v.type)))
    c['lookup'] = tuple(look)
    so = dat.short_output
    sh = {}
    if so:
        if 'frequency' in so:
            sh['frequency'] = num(so['frequency'])
        if 'block' in so:
            sh['block'] = tuple(b.name for b in so['block'])
        if 'connection' in so:
            sh['connection'] = tuple(tuple(b.name for b in k.block) for k in so['connection'])
        if 'generator' in so:
            sh['generator'] = tuple((x.block, x.name, x.type, ids.index(id(x)) if id(x) in ids else -1)
                                    for x in so['generator'])
    c['short'] = sh

    def hitem(x):
        if isinstance(x, str):
            return ('name', x)
        if isinstance(x, t2block):
            return ('obj', x.name)
        if isinstance(x, t2generator):
            return ('gen', x.block)
        return ('other', repr(x))

    def hcon(x):
        if isinstance(x, tuple):
            return ('name', tuple(x))
        if isinstance(x, t2connection):
            return ('obj', tuple(b.name for b in x.block))
        return ('other', repr(x))
    c['hist_block'] = tuple(hitem(x) for x in dat.history_block)
    c['hist_conn'] = tuple(hcon(x) for x in dat.history_connection)
    c['hist_gen'] = tuple(hitem(x) for x in dat.history_generator)
    return c


RT_FIELDS = ['type', 'simulator', 'title', 'multi', 'lineq', 'solver', 'option', 'param', 'more_option', 'start',
             'noversion', 'rpcap', 'times', 'selection', 'diffusion', 'meshmaker', 'incon', 'indom', 'rocks',
             'blocks', 'connections', 'gens', 'lookupkeys', 'short', 'hist_block', 'hist_conn', 'hist_gen']


def rtview(c):
    """What a data file can carry of a canonical form."""
    v = {}
    for k in ('type', 'title', 'option', 'more_option', 'start', 'noversion', 'rpcap', 'times', 'selection',
              'diffusion', 'meshmaker', 'incon', 'indom', 'rocks', 'blocks', 'connections', 'gens'):
        v[k] = c[k]
    v['simulator'] = c['simulator'].strip()
    for k in ('multi', 'lineq', 'solver'):
        v[k] = nonone(c[k])
    prm = nonone(c['param'])
    cts = prm.get('const_timestep')
    if cts is None or cts >= 0:
        prm.pop('timestep', None)
    if not prm.get('default_incons'):
        prm.pop('default_incons', None)
    v['param'] = prm
    v['lookupkeys'] = tuple(k for k, i, d in c['lookup'])
    sh = nonone(c['short'])
    if 'generator' in sh:
        sh['generator'] = tuple((b, n) for b, n, t, i in sh['generator'])
    v['short'] = sh
    v['hist_block'] = tuple(n for k, n in c['hist_block'])
    v['hist_conn'] = tuple(n for k, n in c['hist_conn'])
    v['hist_gen'] = tuple(n for k, n in c['hist_gen'])
    return v


# =========================================================================================================
# base models

_GEO = {}


def small_geo():
    if 'g' not in _GEO:
        from mulgrids import mulgrid
        with quiet():
            _GEO['g'] = mulgrid().rectangular([10., 10.], [10.], [5., 5.], atmos_type=0)
    return _GEO['g']


BLK = {'atm': 'ATM 0', 'a1': '  a 1', 'b1': '  b 1', 'a2': '  a 2', 'b2': '  b 2'}
LINEQ = {'type': 2, 'epsilon': 1.e-11, 'max_iterations': 999, 'gauss': 1, 'num_orthog': 100}
SOLVER = {'type': 5, 'z_precond': 'Z1', 'o_precond': 'O0', 'relative_max_iterations': 0.1, 'closure': 1.e-6}


def base_model(flavour):
    from t2data import t2data, t2generator
    from t2grids import t2grid, rocktype
    dat = t2data()
    dat.title = 'c20 base model ' + flavour
    with quiet():
        g = t2grid().fromgeo(small_geo())
    g.rocktypelist[0].conductivity = 2.5          # porosity 0.1
    r2 = rocktype('rock2', 0, 2500., 0.25, [2.e-15, 2.e-15, 1.e-15], 2.0, 1000.)
    g.add_rocktype(r2)
    g.block[BLK['b1']].rocktype = r2
    g.block[BLK['b2']].rocktype = r2
    dat.grid = g
    p = dat.parameter
    p.update(max_iterations=8, print_level=2, max_timesteps=100, print_interval=10, tstop=1.e9,
             const_timestep=1.e5, max_timestep=1.e8, gravity=9.81, relative_error=1.e-5)
    p['default_incons'] = [1.e5, 20.]
    p['option'][16] = 5
    dat.multi = {'num_components': 1, 'num_equations': 2, 'num_phases': 2, 'num_secondary_parameters': 6}
    dat.start = True
    dat.relative_permeability = {'type': 1, 'parameters': [0.3, 0.1, 0.9, 0.7]}
    dat.capillarity = {'type': 1, 'parameters': [0., 0., 1.]}
    dat.output_times = {'num_times_specified': 2, 'num_times': 2, 'time': [1.e6, 2.e6]}
    dat.incon = {BLK['a2']: [None, [2.e5, 30.]]}
    dat.add_generator(t2generator(name='inj 1', block=BLK['b2'], type='MASS', gx=1.5, ex=1.e5))
    dat.add_generator(t2generator(name='hea 1', block=BLK['a2'], type='HEAT', gx=1000.))
    dat.add_generator(t2generator(name='tab 1', block=BLK['a2'], type='MASS', ltab=2,
                                  time=[0., 1.e6], rate=[-1., -2.]))
    if flavour == 'A':
        dat.simulator = 'AUTOUGH2.2EW'
        dat.multi['eos'] = 'EW'
        dat.lineq = dict(LINEQ)
        dat.add_generator(t2generator(name='wel 1', block=BLK['a1'], type='DELG', gx=1.e-11, ex=2.e5))
        dat.add_generator(t2generator(name='cdx 1', block=BLK['b1'], type='CO2 ', gx=0.1))
        dat.short_output = {'frequency': 1,
                            'block': [g.block[BLK['a1']], g.block[BLK['b2']]],
                            'connection': [g.connectionlist[0]],
                            'generator': [dat.generatorlist[0], dat.generatorlist[3], dat.generatorlist[4]]}
    else:
        dat.solver = dict(SOLVER)
        dat.add_generator(t2generator(name='cdx 1', block=BLK['b1'], type='COM2', gx=0.1))
        dat.history_block = [g.block[BLK['a1']], g.block[BLK['b2']]]
        dat.history_connection = [g.connectionlist[0]]
        dat.history_generator = [g.block[BLK['b2']], g.block[BLK['a2']]]
    return dat


SEC_ON = {'A': ['MOMOP', 'NOVER', 'SOLVR', 'SELEC', 'DIFFU', 'MESHM', 'FOFT', 'COFT', 'GOFT', 'INDOM'],
          'T': ['MOMOP', 'NOVER', 'LINEQ', 'SELEC', 'DIFFU', 'MESHM', 'INDOM']}
SEC_OFF = {'A': ['ROCKS', 'START', 'RPCAP', 'LINEQ', 'MULTI', 'TIMES', 'ELEME', 'CONNE', 'GENER', 'SHORT', 'INCON'],
           'T': ['ROCKS', 'START', 'RPCAP', 'SOLVR', 'MULTI', 'TIMES', 'ELEME', 'CONNE', 'GENER', 'FOFT', 'COFT',
                 'GOFT', 'INCON']}


def names_of_history(dat):
    """Turn history objects into bare names (what the reader stores when there is no grid)."""
    dat.history_block = [b if isinstance(b, str) else b.name for b in dat.history_block]
    dat.history_connection = [k if isinstance(k, tuple) else tuple(b.name for b in k.block)
                              for k in dat.history_connection]
    dat.history_generator = [b if isinstance(b, str) else b.name for b in dat.history_generator]


def drop_grid_refs(dat, blocks=True, connections=True):
    so = dat.short_output
    if blocks:
        so.pop('block', None)
    if connections:
        so.pop('connection', None)


def toggle_section(dat, flavour, sec):
    from t2grids import t2grid
    g = dat.grid
    if sec in SEC_OFF[flavour]:
        if sec == 'ROCKS' or sec == 'ELEME':
            rts = list(g.rocktypelist)
            names_of_history(dat)
            drop_grid_refs(dat)
            ng = t2grid()
            if sec == 'ELEME':
                for rt in rts:
                    ng.add_rocktype(rt)
            dat.grid = ng
        elif sec == 'CONNE':
            for k in list(g.connection):
                g.delete_connection(k)
            drop_grid_refs(dat, blocks=False)
            dat.history_connection = []
        elif sec == 'GENER':
            dat.clear_generators()
            dat.short_output.pop('generator', None)
        elif sec == 'SHORT':
            dat.short_output = {}
        elif sec == 'LINEQ':
            dat.lineq = {}
        elif sec == 'SOLVR':
            dat.solver = {}
        elif sec == 'MULTI':
            dat.multi = {}
        elif sec == 'TIMES':
            dat.output_times = {}
        elif sec == 'START':
            dat.start = False
        elif sec == 'RPCAP':
            dat.relative_permeability, dat.capillarity = {}, {}
        elif sec == 'INCON':
            dat.incon = {}
        elif sec == 'FOFT':
            dat.history_block = []
        elif sec == 'COFT':
            dat.history_connection = []
        elif sec == 'GOFT':
            dat.history_generator = []
    else:
        if sec == 'MOMOP':
            dat.more_option[2] = 1
        elif sec == 'NOVER':
            dat.noversion = True
        elif sec == 'SOLVR':
            dat.solver = dict(SOLVER)
        elif sec == 'LINEQ':
            dat.lineq = dict(LINEQ)
        elif sec == 'SELEC':
            dat.selection = {'integer': [1] + [0] * 15, 'float': [0.5] * 8}
        elif sec == 'DIFFU':
            dat.diffusion = [[1.e-6, 2.e-6]]
        elif sec == 'MESHM':
            dat.meshmaker = [('xyz', [0., {'ntype': 'NX', 'no': 2, 'del': 10.}])]
        elif sec == 'INDOM':
            dat.indom = {'rock2': [3.e5, 40.]}
        elif sec == 'FOFT':
            dat.history_block = [g.block.get(BLK['b1'], BLK['b1'])]
        elif sec == 'COFT':
            dat.history_connection = [g.connectionlist[1] if g.num_connections > 1 else (BLK['b1'], BLK['atm'])]
        elif sec == 'GOFT':
            dat.history_generator = [g.block.get(BLK['a2'], BLK['a2'])]


GOFT_VARIANTS = ['three', 'twice', 'twice-multi', 'nogen', 'only-nogen', 'atm', 'all']


def apply_goft(dat, variant):
    """Other GOFT lists for the TOUGH2 base (which already requests b2 with one generator and a2 with two):
    a block with three generators of different names and types, a block requested twice, requested blocks
    that hold no generator, every block."""
    from t2data import t2generator
    g = dat.grid

    def blk(key):
        return g.block.get(BLK[key], BLK[key])
    if variant == 'three':
        dat.add_generator(t2generator(name='wel 2', block=BLK['b1'], type='MASS', gx=-2., ex=0.))
        dat.add_generator(t2generator(name='hea 2', block=BLK['b1'], type='HEAT', gx=500.))
        dat.history_generator = [blk('b1'), blk('b2')]
    elif variant == 'twice':
        dat.history_generator = [blk('b2'), blk('a2'), blk('b2')]
    elif variant == 'twice-multi':
        dat.history_generator = [blk('a2'), blk('a2')]
    elif variant == 'nogen':
        dat.history_generator = [blk('a1'), blk('b2'), blk('a2')]
    elif variant == 'only-nogen':
        dat.history_generator = [blk('a1')]
    elif variant == 'atm':
        dat.history_generator = [blk('atm'), blk('a2')]
    elif variant == 'all':
        dat.history_generator = [blk(k) for k in ('atm', 'a1', 'b1', 'a2', 'b2')]


SHORT_PARTS = {'b': 'block', 'c': 'connection', 'g': 'generator'}

# order in which atoms are applied; only one atom of an exclusive kind per configuration
KIND_ORDER = ['sec', 'gen', 'mop', 'lineq', 'solver', 'sim', 'simarg', 'short', 'goft', 'hist', 'fname', 'mp', 'route',
              'origin']
EXCLUSIVE = {'goft', 'lineq', 'solver', 'sim', 'simarg', 'short', 'hist', 'fname', 'mp', 'route', 'origin'}


def atom_sort_key(a):
    return (KIND_ORDER.index(a[0]),) + tuple(str(x) for x in a[1:])


def build(direction, atoms):
    """-> (t2data, meta).  Deterministic in (direction, atoms)."""
    from t2data import t2data, t2generator
    flavour = 'A' if direction == 'A2T' else 'T'
    dat = base_model(flavour)
    meta = {'MP': False, 'route': 'method', 'origin': 'mem', 'simarg': None, 'flavour': flavour}
    ngen = 0
    for a in sorted(atoms, key=atom_sort_key):
        kind = a[0]
        if kind == 'sec':
            toggle_section(dat, flavour, a[1])
        elif kind == 'gen':
            typ, variant = a[1], a[2]
            ngen += 1
            f = cm.gen_fields(typ)
            if variant == 'new':
                gen = t2generator(name='new %d' % ngen, block=BLK['b1'], type=typ, **f)
                dat.add_generator(gen)
            else:
                gen = t2generator(name='inj 1', block=BLK['b2'], type=typ, **f)
                if variant == 'dupA':
                    dat.add_generator(gen)
                else:   # 'dupB': ahead of the original in the list, lookup (as after a read) -> the later one
                    dat.generatorlist.insert(0, gen)
                    dat.generator.clear()
                    for x in dat.generatorlist:
                        dat.generator[(x.block, x.name)] = x
        elif kind == 'mop':
            dat.parameter['option'][a[1]] = a[2]
        elif kind == 'lineq':
            if dat.lineq:
                if a[1] is None:
                    dat.lineq.pop('type', None)
                else:
                    dat.lineq['type'] = a[1]
        elif kind == 'solver':
            if dat.solver:
                dat.solver['type'] = a[1]
        elif kind == 'sim':
            dat.simulator = a[1].ljust(10) + a[2]
            if dat.multi:
                dat.multi['eos'] = a[2]
        elif kind == 'simarg':
            meta['simarg'] = (a[1], a[2])
        elif kind == 'short':
            old = dat.short_output
            new = {}
            if a[2] is not None:
                new['frequency'] = a[2]
            for ch in a[1]:
                part = SHORT_PARTS[ch]
                if part in old:
                    new[part] = old[part]
            dat.short_output = new
        elif kind == 'goft':
            apply_goft(dat, a[1])
        elif kind == 'hist':
            for rep, attr in zip(a[1], ('history_block', 'history_connection', 'history_generator')):
                lst = getattr(dat, attr)
                if rep == 'a':
                    setattr(dat, attr, [])
                elif rep == 'n':
                    if attr == 'history_connection':
                        setattr(dat, attr, [k if isinstance(k, tuple) else tuple(b.name for b in k.block)
                                            for k in lst])
                    else:
                        setattr(dat, attr, [b if isinstance(b, str) else b.name for b in lst])
        elif kind == 'fname':
            dat.filename = a[1]
        elif kind == 'mp':
            meta['MP'] = True
        elif kind == 'route':
            meta['route'] = a[1]
        elif kind == 'origin':
            meta['origin'] = a[1]
    if meta['origin'] != 'mem':
        fn = dat.filename
        path = os.path.join(core.scratch(), 'c20o.dat')
        for stale in (path, os.path.splitext(path)[0] + '.pdat'):
            if os.path.exists(stale):
                os.remove(stale)
        with quiet():
            if meta['origin'] == 'file':
                dat.write(path)
            elif meta['origin'] in ORDER_ORIGINS:
                # a data file whose sections are in another (legal) order than the writer's
                dat.write(path)
                with open(path) as f:
                    text = f.read()
                text2 = cm.lift_sections(text, ORDER_ORIGINS[meta['origin']])
                if sorted(text2.split('\n')) != sorted(text.split('\n')):
                    raise core.HarnessError('section reordering lost or invented lines')
                with open(path, 'w') as f:
                    f.write(text2)
            else:
                # AUTOUGH2 extra-precision side file (.pdat), sections echoed in the main file or not
                xp, echo = XP_ORIGINS[meta['origin']]
                dat.write(path, extra_precision=xp, echo_extra_precision=echo)
            dat = t2data(path)
        dat.filename = fn
    return dat, meta


ORDER_ORIGINS = {'file-order-multi-param-start': ['MULTI', 'PARAM', 'START'],
                 'file-order-param': ['PARAM'],
                 'file-order-rpcap-start-param-multi': ['RPCAP', 'START', 'PARAM', 'MULTI'],
                 'file-order-times-incon-gener': ['TIMES', 'INCON', 'GENER'],
                 'file-order-lineq-solvr-multi': ['LINEQ', 'SOLVR', 'MULTI']}
XP_ORIGINS = {'file-xp': (True, False), 'file-xp-echo': (True, True), 'file-xp-rocks': (['ROCKS'], False),
              'file-xp-mesh': (['ROCKS', 'ELEME', 'CONNE'], False)}


def compatible(direction, atoms):
    kinds = [a[0] for a in atoms]
    for k in EXCLUSIVE:
        if kinds.count(k) > 1:
            return False
    mops = [a[1] for a in atoms if a[0] == 'mop']
    if len(mops) != len(set(mops)):
        return False
    secs = [a[1] for a in atoms if a[0] == 'sec']
    if len(secs) != len(set(secs)):
        return False
    route_setter = ('route', 'setter') in atoms
    if route_setter and ('mp' in kinds or 'simarg' in kinds):
        return False
    if 'LINEQ' in secs and 'lineq' in kinds and direction == 'A2T':
        return False
    if 'SOLVR' in secs and 'solver' in kinds and direction == 'T2A':
        return False
    if 'SHORT' in secs and 'short' in kinds:
        return False
    return True


# =========================================================================================================
# atom alphabets and configurations

EOS_SUFFIXES = ['W', 'EW', 'EWC', 'EWA', 'EWAV', 'EWT', 'EWTD']
FNAMES = ['model', 'MODEL', 'Model.DAT', 'model.dat', 'INFILE']


def atoms_for(direction):
    flavour = 'A' if direction == 'A2T' else 'T'
    out = []
    for s in SEC_OFF[flavour] + SEC_ON[flavour]:
        out.append(('sec', s))
    for t in cm.ALL_TYPES:
        for variant in ('new', 'dupA', 'dupB'):
            out.append(('gen', t, variant))
    for pos in range(1, cm.NUM_MOP + 1):
        for d in range(10):
            if not (d == 0 and pos != 16) and not (pos == 16 and d == 5):
                out.append(('mop', pos, d))
    if direction == 'A2T':
        for t in (None, 0, 1, 3):      # None: LINEQ record with a blank type (the reader stores no 'type')
            out.append(('lineq', t))
        for o in sorted(XP_ORIGINS):
            out.append(('origin', o))
        for pre in cm.SIM_PREFIXES:
            for e in EOS_SUFFIXES:
                if (pre, e) != ('AUTOUGH2.2', 'EW'):
                    out.append(('sim', pre, e))
        for r in range(0, 4):
            for sub in itertools.combinations('bcg', r):
                for fr in (None, 1):
                    if not (sub == () and fr is None) and not (len(sub) == 3 and fr == 1):
                        out.append(('short', ''.join(sub), fr))
    else:
        for t in (0, 1, 2, 3, 4, 6):
            out.append(('solver', t))
        for pre in cm.SIM_PREFIXES:
            for e in EOS_SUFFIXES:
                if (pre, e) != ('AUTOUGH2.2', 'EW'):
                    out.append(('simarg', pre, e))
        for rep in itertools.product('aon', repeat=3):
            if rep != ('o', 'o', 'o'):
                out.append(('hist', ''.join(rep)))
        for v in GOFT_VARIANTS:
            out.append(('goft', v))
    for f in FNAMES:
        out.append(('fname', f))
    out.append(('mp',))
    out.append(('route', 'setter'))
    out.append(('origin', 'file'))
    for o in sorted(ORDER_ORIGINS):
        out.append(('origin', o))
    return out


def is_conv_mop(a):
    return a[0] == 'mop' and a[1] in cm.CONVERTER_POSITIONS


def configs(direction, tier):
    """Deterministic list of atom tuples (each sorted)."""
    atoms = atoms_for(direction)
    out = [()]
    seen = set(out)

    def add(cfg):
        cfg = tuple(sorted(cfg, key=atom_sort_key))
        if cfg not in seen and compatible(direction, cfg):
            seen.add(cfg)
            out.append(cfg)
    for a in atoms:
        add((a,))
    # crossed blocks present in both tiers
    for a in atoms:
        if a[0] == 'mop':
            add((a, ('mp',)))
            if direction == 'T2A':
                add((a, ('sec', 'SOLVR')))      # without SOLVR the solver choice is MOP(21)
    if direction == 'A2T':
        for pre in cm.SIM_PREFIXES:
            for d10 in range(10):
                for d23 in range(10):
                    cfg = [('sim', pre, 'EW')] if pre != 'AUTOUGH2.2' else []
                    if d10:
                        cfg.append(('mop', 10, d10))
                    if d23:
                        cfg.append(('mop', 23, d23))
                    add(cfg)
    if tier == 'thorough':
        pa = [a for a in atoms if a[0] != 'mop' or is_conv_mop(a)]
        for i, a in enumerate(pa):
            for b in pa[i + 1:]:
                add((a, b))
    return out


NCHUNK = {'quick': 48, 'thorough': 192}


# =========================================================================================================
# the conversion case

def lib_site(exc):
    """Innermost library function on the traceback."""
    fn = '?'
    for fs in traceback.extract_tb(exc.__traceback__):
        if os.path.dirname(os.path.realpath(fs.filename)) == os.path.realpath(core.REPO):
            fn = fs.name
    return fn


def run_conversion(dat, meta, direction):
    with quiet():
        if direction == 'A2T':
            if meta['route'] == 'setter':
                dat.type = 'TOUGH2'
            else:
                dat.convert_to_TOUGH2(MP=meta['MP'])
        else:
            if meta['route'] == 'setter':
                dat.type = 'AUTOUGH2'
            elif meta['simarg']:
                dat.convert_to_AUTOUGH2(MP=meta['MP'], simulator=meta['simarg'][0], eos=meta['simarg'][1])
            else:
                dat.convert_to_AUTOUGH2(MP=meta['MP'])


def site_name(direction, meta):
    # the type setter only dispatches to the converter with default arguments: same call site, so that one
    # defect has one signature; the route is recorded in the case and in the text
    return 'convert_to_TOUGH2' if direction == 'A2T' else 'convert_to_AUTOUGH2'


def write_read(dat, fname):
    """-> (text, reread model).  Raises what the library raises."""
    from t2data import t2data
    path = os.path.join(core.scratch(), fname)
    for stale in (path, os.path.splitext(path)[0] + '.pdat'):
        if os.path.exists(stale):
            os.remove(stale)
    with quiet():
        dat.write(path)
        with open(path) as f:
            text = f.read()
        back = t2data(path)
    return text, back


def gen_dup_class(g, pre_gens):
    n = sum(1 for x in pre_gens if (x[G_BLOCK], x[G_NAME]) == (g[G_BLOCK], g[G_NAME]))
    return 'duplicated-name' if n > 1 else 'unique-name'


def check_lookup(post, V, what_for):
    """List and lookup agree: same keys, every value an element of the list carrying that key."""
    keys_list = set((g[G_BLOCK], g[G_NAME]) for g in post['gens'])
    keys_look = set(k for k, i, d in post['lookup'])
    dup = len(keys_list) < len(post['gens'])
    cls = 'duplicated-name' if dup else 'unique-name'
    if keys_list - keys_look:
        V('lookup-misses-listed-generator', cls,
          'generator(s) %r are in generatorlist but not in the generator lookup %s' % (sorted(keys_list - keys_look),
                                                                                     what_for))
    if keys_look - keys_list:
        V('lookup-has-unlisted-generator', cls,
          'lookup key(s) %r have no generator in generatorlist %s' % (sorted(keys_look - keys_list), what_for))
    for k, i, d in post['lookup']:
        if i < 0 and k in keys_list:
            V('lookup-value-not-in-list', cls, 'lookup[%r] is an object that is not in generatorlist' % (k,))
            break
        if (d[0], d[1]) != k:
            V('lookup-key-mismatch', cls, 'lookup[%r] is generator %r' % (k, d))
            break


def unchanged(pre, post, fields, V, clause):
    for f in fields:
        if pre[f] != post[f]:
            V(clause, f, '%s changed: %r -> %r' % (f, brief(pre[f]), brief(post[f])))


def brief(x, n=300):
    s = repr(x)
    return s if len(s) <= n else s[:n] + '...'


OTHER_FIELDS = ['title', 'param', 'more_option', 'start', 'noversion', 'rpcap', 'times', 'selection', 'diffusion',
                'meshmaker', 'incon', 'indom']
GRID_FIELDS = ['blocks', 'blocknames', 'connections', 'rocknames']


def clauses_A2T(pre, post, meta, V):
    MP = meta['MP']
    if post['type'] != 'TOUGH2' or post['simulator'] != '':
        V('declares-TOUGH2', 'any', 'after conversion type=%r simulator=%r' % (post['type'], post['simulator']))
    if post['lineq']:
        V('lineq-remains', 'any', 'lineq is still %r' % (post['lineq'],))
    if post['short']:
        V('short-output-remains', 'any', 'short_output is still %r' % (post['short'],))
    if post['multi'].get('eos'):
        V('eos-name-remains', 'any', 'multi still has eos=%r' % post['multi'].get('eos'))
    m0 = nonone(dict((k, v) for k, v in pre['multi'].items() if k != 'eos'))
    m1 = nonone(dict((k, v) for k, v in post['multi'].items() if k != 'eos'))
    if m0 != m1:
        V('multi-changed', 'any', 'MULTI numbers changed: %r -> %r' % (m0, m1))
    # ---- generators
    exp = []
    for g in pre['gens']:
        k = cm.gen_class(g[G_TYPE])
        if k == 'tough2':
            exp.append(g)
        elif k == 'convertible':
            exp.append(g[:G_TYPE] + (cm.CONVERTIBLE[g[G_TYPE]],) + g[G_TYPE + 1:])
    bad = [g for g in post['gens'] if not cm.is_tough2_type(g[G_TYPE])]
    for g in bad:
        if g[G_TYPE] in cm.CONVERTIBLE:
            V('generator-not-converted', 'convertible-type', 'generator %r still has type %r' % (g[:2], g[G_TYPE]))
        else:
            V('unsupported-generator-in-list', gen_dup_class(g, pre['gens']),
              'generator %r of type %r (not a TOUGH2 type) is still in generatorlist' % (g[:2], g[G_TYPE]))
    for k, i, d in post['lookup']:
        if not cm.is_tough2_type(d[2]) and d[2] not in cm.CONVERTIBLE:
            V('unsupported-generator-in-lookup', 'any',
              'lookup[%r] is still a generator of type %r (not a TOUGH2 type)' % (k, d[2]))
    kept = tuple(g for g in post['gens'] if cm.is_tough2_type(g[G_TYPE]))
    if kept != tuple(exp):
        dup = len(set((g[0], g[1]) for g in pre['gens'])) < len(pre['gens'])
        V('remaining-generators-changed', 'duplicated-name' if dup else 'unique-name',
          'TOUGH2-type generators after conversion %r, expected %r' % (brief([g[:2] + (g[G_TYPE],) for g in kept]),
                                                                       brief([g[:2] + (g[G_TYPE],) for g in exp])))
    check_lookup(post, V, 'after conversion')
    # ---- grid and rocks
    unchanged(pre, post, GRID_FIELDS, V, 'grid-changed')
    exp_opt, reasons = cm.options_to_tough2(pre['option'], pre['simulator'], MP)
    if len(pre['rocks']) != len(post['rocks']):
        V('rocktypes-changed', 'count', 'number of rock types %d -> %d' % (len(pre['rocks']), len(post['rocks'])))
    else:
        for r0, r1 in zip(pre['rocks'], post['rocks']):
            if r0[:5] + r0[6:] != r1[:5] + r1[6:]:
                V('rocktypes-changed', 'other-than-conductivity', 'rock type %r -> %r' % (r0, r1))
                break
            c0, phi, c1 = r0[5], r0[3], r1[5]
            want = c0 * (1. - phi) if reasons else c0
            if not close(c1, want, 1e-12):
                if len(reasons) == 2 and close(c1, c0 * (1. - phi) * (1. - phi), 1e-12):
                    V('conductivity-rescaled-twice', 'mop10=2+mop23=1',
                      'rock %s conductivity %r -> %r = k(1-phi)^2 when MOP(10)=2 and MOP(23)=1 both ask for the one '
                      'MULKOM rescaling k(1-phi) = %r' % (r0[0], c0, c1, want))
                else:
                    V('conductivity-wrong', '+'.join(reasons) or 'no-mulkom-option',
                      'rock %s conductivity %r -> %r, expected %r (porosity %r, options MOP10=%d MOP23=%d, '
                      'simulator %r)' % (r0[0], c0, c1, want, phi, pre['option'][10], pre['option'][23],
                                         pre['simulator']))
                break
    # ---- history requests
    sh = pre['short']
    # FOFT/COFT/GOFT lists an AUTOUGH2 model happens to hold are TOUGH2-only data (history_block documentation):
    # they are no requests of the AUTOUGH2 model, and whether they are replaced by or merged with the SHORT items
    # is not fixed by the statement
    for part, hist in (('block', 'hist_block'), ('connection', 'hist_conn')):
        got = tuple(n for k, n in post[hist])
        old = [n for k, n in pre[hist]]
        if part in sh:
            ok = cm.is_subsequence(list(sh[part]), got) and cm.multiset_leq(got, list(sh[part]) + old)
        else:
            ok = got == tuple(old)
        if not ok:
            V('history-requests-changed', part, 'history %s requests %r, SHORT items before %r, history before %r'
              % (part, got, sh.get(part), old))
    got = tuple(n for k, n in post['hist_gen'])
    if 'generator' in sh:
        required = [b for b, n, t, i in sh['generator'] if cm.gen_class(t) != 'autough2-only']
        allowed = [b for b, n, t, i in sh['generator']] + [n for k, n in pre['hist_gen']]
        if not (cm.is_subsequence(required, got) and cm.multiset_leq(got, allowed)):
            V('history-requests-changed', 'generator',
              'history generator requests (blocks) %r, SHORT generators before %r' % (got, sh['generator']))
    elif got != tuple(n for k, n in pre['hist_gen']):
        V('history-requests-changed', 'generator', 'history generator requests %r, before %r'
          % (got, pre['hist_gen']))
    # ---- options and everything else
    for k in range(1, cm.NUM_MOP + 1):
        if exp_opt[k] is None:
            if post['option'][k] not in cm.TOUGH2_SOLVER_TYPES:
                V('option-wrong', 'mop%d' % k, 'MOP(%d) = %d is not a TOUGH2 solver choice' % (k, post['option'][k]))
        elif post['option'][k] != exp_opt[k]:
            V('option-wrong', 'mop%d' % k, 'MOP(%d): %d -> %d, expected %d (MP=%s)'
              % (k, pre['option'][k], post['option'][k], exp_opt[k], MP))
    unchanged(pre, post, OTHER_FIELDS + ['solver'], V, 'model-changed')
    want = 'INFILE' if MP else pre['filename']
    if post['filename'] != want:
        V('filename', 'MP' if MP else 'not-MP', 'filename %r -> %r, expected %r' % (pre['filename'], post['filename'],
                                                                                   want))


def clauses_T2A(pre, post, meta, V):
    MP = meta['MP']
    simname, eos = meta['simarg'] or ('AUTOUGH2.2', 'EW')
    s = post['simulator']
    if post['type'] != 'AUTOUGH2' or not s.strip().startswith(simname) or not s.endswith(eos) \
            or cm.sim_family(s) != cm.sim_family(simname):
        V('declares-AUTOUGH2', 'any', 'after conversion type=%r simulator=%r, asked for %r + %r'
          % (post['type'], s, simname, eos))
    if post['solver']:
        V('solver-remains', 'any', 'solver is still %r' % (post['solver'],))
    if post['hist_block'] or post['hist_conn'] or post['hist_gen']:
        V('history-remains', 'any', 'history lists still %r %r %r' % (post['hist_block'], post['hist_conn'],
                                                                     post['hist_gen']))
    if post['lineq'].get('type') not in cm.AUTOUGH2_LINEQ_TYPES:
        V('lineq-missing', 'any', 'lineq after conversion is %r' % (post['lineq'],))
    if pre['multi']:
        if post['multi'].get('eos') != eos:
            V('eos-name-missing', 'any', 'multi eos is %r, expected %r' % (post['multi'].get('eos'), eos))
    m0 = nonone(dict((k, v) for k, v in pre['multi'].items() if k != 'eos'))
    m1 = nonone(dict((k, v) for k, v in post['multi'].items() if k != 'eos'))
    if m0 != m1:
        V('multi-changed', 'any', 'MULTI numbers changed: %r -> %r' % (m0, m1))
    if post['gens'] != pre['gens']:
        V('generators-changed', 'any', 'generator list changed: %r -> %r' % (brief(pre['gens']), brief(post['gens'])))
    if post['lookup'] != pre['lookup']:
        V('generators-changed', 'lookup', 'generator lookup changed')
    unchanged(pre, post, GRID_FIELDS + ['rocks'], V, 'grid-changed')
    # ---- history -> short
    sh = post['short']
    blocknames = set(pre['blocknames'])
    for part, hist in (('block', 'hist_block'), ('connection', 'hist_conn')):
        if part == 'block':
            ingrid = lambda n: n in blocknames
        else:
            cons = set(k[0] for k in pre['connections'])
            ingrid = lambda n: n in cons
        required = [n for k, n in pre[hist] if k == 'obj' and ingrid(n)]
        optional = [n for k, n in pre[hist] if k == 'name' and ingrid(n)]
        got = list(sh.get(part, ()))
        if not (cm.is_subsequence(required, got) and cm.multiset_leq(got, required + optional)):
            V('short-items-wrong', part, 'SHORT %s items %r, history requests before %r' % (part, got, pre[hist]))
    # a GOFT request names a block: it asks for every generator of that block.  SHORT lists generators, so the
    # mirror image is every generator whose block is a requested block, each once (a block requested twice or
    # holding no generator adds nothing); the order of the items is not fixed by the statement
    reqblocks = set(n for k, n in pre['hist_gen'] if k == 'obj' and n in blocknames)
    optblocks = set(n for k, n in pre['hist_gen'] if k == 'name')
    required = [j for j, g in enumerate(post['gens']) if g[G_BLOCK] in reqblocks]
    got = list(sh.get('generator', ()))
    gotidx = [i for b, n, t, i in got]
    perblock = {}
    for g in post['gens']:
        perblock[g[G_BLOCK]] = perblock.get(g[G_BLOCK], 0) + 1
    requested = [n for k, n in pre['hist_gen']]
    missing = [j for j in required if j not in gotidx]
    if missing:
        several = any(perblock[post['gens'][j][G_BLOCK]] > 1 for j in missing)
        V('short-generators-lost', 'several-generators-in-history-block' if several else 'history-by-block-object',
          'history generator requests for blocks %r: generators %r of those blocks are not among the SHORT generator '
          'items %r' % (requested, [post['gens'][j][:2] + (post['gens'][j][G_TYPE],) for j in missing],
                        [(b, n) for b, n, t, i in got]))
    twice = sorted(set(i for i in gotidx if i >= 0 and gotidx.count(i) > 1))
    if twice:
        V('short-generator-listed-twice', 'block-requested-twice' if len(requested) > len(set(requested)) else 'other',
          'SHORT generator items %r list generator(s) %r more than once (history requests %r)'
          % ([(b, n) for b, n, t, i in got], [post['gens'][i][:2] for i in twice], requested))
    extra = [(b, n) for b, n, t, i in got if b not in reqblocks and b not in optblocks]
    if extra:
        V('short-items-wrong', 'generator', 'SHORT generator items %r were never requested (requests %r)'
          % (extra, pre['hist_gen']))
    if any(i < 0 for b, n, t, i in got):
        V('short-items-wrong', 'generator-not-in-list', 'SHORT generator item is not an element of generatorlist')
    # ---- options and everything else
    exp_opt = cm.options_to_autough2(pre['option'], MP)
    for k in range(1, cm.NUM_MOP + 1):
        if exp_opt[k] is not None and post['option'][k] != exp_opt[k]:
            V('option-wrong', 'mop%d' % k, 'MOP(%d): %d -> %d, expected %d (MP=%s)'
              % (k, pre['option'][k], post['option'][k], exp_opt[k], MP))
    unchanged(pre, post, OTHER_FIELDS, V, 'model-changed')
    fn = pre['filename']
    want = fn
    if fn and not fn.lower().endswith('.dat'):
        want = fn + ('.DAT' if fn[0].isupper() else '.dat')
    if post['filename'] != want:
        V('filename', 'needs-extension' if want != fn else 'has-extension',
          'filename %r -> %r, expected %r' % (fn, post['filename'], want))


def file_clauses(direction, text, post, meta, V):
    secs = cm.file_sections(text)
    if direction == 'A2T':
        for s in cm.AUTOUGH2_ONLY_SECTIONS:
            if s in secs:
                V('file-has-%s' % s, 'any', 'written TOUGH2 file still has a %s section (sections %r)' % (s, secs))
        if 'MULTI' in secs:
            rec = cm.file_record_after(text, 'MULTI') or ''
            tail = rec[20:25].strip()
            if tail and not tail.lstrip('-').isdigit():
                V('file-eos-name', 'any', 'MULTI record of the TOUGH2 file carries %r' % rec)
    else:
        for s in cm.TOUGH2_ONLY_SECTIONS:
            if s in secs:
                V('file-has-%s' % s, 'any', 'written AUTOUGH2 file still has a %s section (sections %r)' % (s, secs))
        if not secs or secs[0] != 'SIMUL':
            V('file-no-SIMUL', 'any', 'written AUTOUGH2 file does not start with SIMUL (sections %r)' % (secs,))
        else:
            rec = cm.file_record_after(text, 'SIMUL') or ''
            if rec.strip() != post['simulator'].strip():
                V('file-no-SIMUL', 'record', 'SIMUL record %r, simulator %r' % (rec, post['simulator']))
        if 'MULTI' in secs and post['multi'].get('eos'):
            rec = cm.file_record_after(text, 'MULTI') or ''
            if rec[20:24].strip() != post['multi']['eos']:
                V('file-eos-name', 'any', 'MULTI record %r does not carry EOS name %r' % (rec, post['multi']['eos']))


def exc_class(direction, atoms, site, etype, fn):
    """Smallest sub-configuration (base, then single atoms) that raises the same thing."""
    def raises(sub):
        try:        # runs under the caller's time limit (limits do not nest)
            dat, meta = build(direction, sub)
            run_conversion(dat, meta, direction)
        except core.CaseTimeout:
            raise
        except Exception as e:
            return type(e).__name__ == etype and lib_site(e) == fn
        return False
    if len(atoms) > 1:
        if raises(()):
            return 'base'
        for a in atoms:
            if raises((a,)):
                return atom_label(a)
    return '+'.join(atom_label(a) for a in atoms) or 'base'


def atom_label(a):
    if a[0] == 'mop':
        return 'mop%d' % a[1]
    if a[0] == 'gen':
        return 'gen-%s-%s' % (cm.gen_class(a[1]), a[2])
    if a[0] in ('sim', 'simarg'):
        return '%s-%s' % (a[0], a[1])
    if a[0] == 'sec':
        return 'sec-%s' % a[1]
    if a[0] == 'fname':
        return 'fname'
    return '-'.join(str(x) for x in a)


def conv_case(direction, atoms, keep=None):
    """One configuration.  -> (violations [(sig, what)], outcome, counters dict).  When keep is a dict the
    converted model, its canonical form after its own write and the written text are left in it."""
    atoms = tuple(tuple(a) for a in atoms)
    out = []
    counters = {}
    dat, meta = build(direction, atoms)
    site = site_name(direction, meta)

    osfx = '|origin=extra-precision-files' if meta['origin'] in XP_ORIGINS else \
        '|origin=file-with-sections-reordered' if meta['origin'] in ORDER_ORIGINS else ''

    def V(clause, cls, what):
        # an exception is attributed to the smallest deviation that raises it (exc_class), not to the origin
        sfx = '' if clause.startswith('raises:') and not cls.startswith('origin') else osfx
        sig = 'C20|%s|%s|%s%s' % (site, clause, cls, sfx)
        if sig not in [s for s, w in out]:
            out.append((sig, what + (' [via the type setter]' if meta['route'] == 'setter' else '')
                        + (' [model read from files written with extra_precision=%r, echo_extra_precision=%r]'
                           % XP_ORIGINS[meta['origin']] if meta['origin'] in XP_ORIGINS else '')
                        + (' [model read from a file with sections %r ahead of ROCKS]'
                           % (ORDER_ORIGINS[meta['origin']],) if meta['origin'] in ORDER_ORIGINS else '')))
    pre = canon(dat)
    memo = {}

    def guard():
        """What of the UNconverted model survives its own round trip (field -> bool), None when that round
        trip raises.  Computed only when the converted model shows a round-trip difference."""
        if 'g' not in memo:
            ok = {}
            try:
                dat0, _m = build(direction, atoms)
                _t, back0 = write_read(dat0, 'c20a.dat')
                v0, v1 = rtview(canon(dat0)), rtview(canon(back0))
                for f in RT_FIELDS:
                    ok[f] = close(v0[f], v1[f], 1e-6)
            except core.CaseTimeout:
                raise
            except Exception:
                ok = None
            memo['g'] = ok
        return memo['g']
    try:
        run_conversion(dat, meta, direction)
    except core.CaseTimeout:
        raise
    except Exception as e:
        fn = lib_site(e)
        cls = exc_class(direction, atoms, site, type(e).__name__, fn)
        V('raises:%s@%s' % (type(e).__name__, fn), cls, 'conversion raised %r' % (e,))
        return out, 'raised', counters
    post = canon(dat)
    if direction == 'A2T':
        clauses_A2T(pre, post, meta, V)
    else:
        clauses_T2A(pre, post, meta, V)
    # ---- file round trip of the converted model
    outcome = 'converted'
    try:
        text, back = write_read(dat, 'c20b.dat')
    except core.CaseTimeout:
        raise
    except Exception as e:
        if guard() is None:
            counters['rt_skipped_base_does_not_roundtrip'] = 1
            return out, 'converted-no-roundtrip-guard', counters
        V('roundtrip-raises:%s@%s' % (type(e).__name__, lib_site(e)), 'any',
          'write/read of the converted model raised %r' % (e,))
        return out, 'roundtrip-raised', counters
    file_clauses(direction, text, post, meta, V)
    after = canon(dat)          # write() may touch the object (sections, option string)
    if keep is not None:
        keep.update(dat=dat, after=after, text=text, site=site, direction=direction, atoms=atoms)
    v0, v1 = rtview(after), rtview(canon(back))
    ncmp = 0
    for f in RT_FIELDS:
        if close(v0[f], v1[f], 1e-6):
            ncmp += 1
            continue
        g = guard()
        if g is None:
            counters['rt_skipped_base_does_not_roundtrip'] = 1
            outcome = 'converted-no-roundtrip-guard'
            break
        if not g[f]:
            counters['rt_field_skipped_%s' % f] = counters.get('rt_field_skipped_%s' % f, 0) + 1
            continue
        ncmp += 1
        if meta['origin'] in XP_ORIGINS and f in ('rocks', 'blocks', 'connections', 'rpcap', 'gens', 'lookupkeys'):
            V('roundtrip', 'extra-precision-sections', 'converted model does not survive write -> read in %s (a section '
              'that came from the extra-precision file): written from %s, read back %s' % (f, brief(v0[f]), brief(v1[f])))
            continue
        V('roundtrip', f, 'converted model does not survive write -> read in %s: written from %s, read back %s'
          % (f, brief(v0[f]), brief(v1[f])))
    counters['rt_fields_compared'] = ncmp
    # ---- there and back: the solver class survives
    solver_atoms = [a for a in atoms if a[0] in ('lineq', 'solver') or (a[0] == 'mop' and a[1] == 21)
                    or (a[0] == 'sec' and a[1] in ('LINEQ', 'SOLVR'))]
    if not meta['MP'] and (len(atoms) <= 1 or solver_atoms):
        try:
            d3, m3 = build(direction, atoms)
            c3 = canon(d3)
            with quiet():
                if direction == 'A2T':
                    t0 = c3['lineq'].get('type')
                    if t0 in cm.AUTOUGH2_LINEQ_TYPES and not c3['solver']:
                        d3.convert_to_TOUGH2(warn=False)
                        d3.convert_to_AUTOUGH2(warn=False)
                        t1 = d3.lineq.get('type')
                        if t1 != t0:
                            V('solver-class-lost', 'there-and-back', 'LINEQ type %r -> MOP(21) -> LINEQ type %r'
                              % (t0, t1))
                else:
                    t0 = c3['solver'].get('type', c3['option'][21])
                    if t0 in (4, 5):
                        d3.convert_to_AUTOUGH2(warn=False)
                        d3.convert_to_TOUGH2(warn=False)
                        t1 = int(d3.parameter['option'][21])
                        if t1 != t0:
                            V('solver-class-lost', 'there-and-back', 'solver %r -> LINEQ -> MOP(21) %r' % (t0, t1))
        except core.CaseTimeout:
            raise
        except Exception:
            pass        # a raising conversion is reported by the main path
    return out, outcome, counters


# =========================================================================================================
# export

EXPORT_EOS = ['W', 'EW', 'EWC', 'EWAV', 'EWT', 'EWTD']
GEO_SIZES = [(nx, ny, nz) for nx in (1, 2, 3) for ny in (1, 2, 3) for nz in (1, 2, 3)]
QUICK_BGEO = [(1, 1, 1), (2, 1, 2), (2, 2, 2), (3, 2, 2)]
ORDERS = [None, 'layer_column', 'dmplex']
_EGEO = {}


def export_geo(nx, ny, nz, at, order):
    k = (nx, ny, nz, at, order)
    if k not in _EGEO:
        from mulgrids import mulgrid
        with quiet():
            _EGEO[k] = mulgrid().rectangular([10.] * nx, [20.] * ny, [5.] * nz, atmos_type=at, block_order=order)
    return _EGEO[k]


def export_model(cfg):
    """cfg: dict with geo=(nx,ny,nz,at,order), gridrev, bvol=[(pos, vol)...], atmos_volume, side=(vol) or None,
    route=(kind, eos, prefix), gens=[(type, pos, variant)...] or 'perblock'."""
    from t2data import t2data, t2generator
    from t2grids import t2grid, rocktype, t2block, t2connection
    import numpy as np
    geo = export_geo(*cfg['geo'])
    dat = t2data()
    dat.title = 'c20 export'
    dat.filename = 'c20x.dat'
    with quiet():
        g = t2grid().fromgeo(geo)
    r2 = rocktype('rock2', 0, 2500., 0.25, [2.e-15, 2.e-15, 1.e-15], 2.0, 1000.)
    r3 = rocktype('rock3', 0, 2400., 0.3, [3.e-15, 3.e-15, 1.e-15], 2.2, 1000.)
    g.add_rocktype(r2)
    g.add_rocktype(r3)
    natm = geo.num_atmosphere_blocks
    for i, b in enumerate(g.blocklist[natm:]):
        if (i * 7 + i // 2) % 3 == 1:
            b.rocktype = r2
    dat.grid = g
    names = [b.name for b in g.blocklist]
    for pos, vol in cfg.get('bvol', ()):
        g.blocklist[pos].volume = vol
    if cfg.get('side') is not None:
        inner = g.blocklist[natm]
        sb = t2block('bdy 1', cfg['side'], g.rocktypelist[0], centre=np.array(inner.centre) - np.array([10., 0., 0.]))
        g.add_block(sb)
        g.add_connection(t2connection([inner, sb], 1, [5., 1.e-6], 100., 0.0))
    if cfg.get('gridrev'):
        g.blocklist.reverse()
    dat.parameter['default_incons'] = [1.e5, 20., 0., 0.]
    dat.parameter['gravity'] = 9.81
    dat.diffusion = [[-1.e-6, -1.e-6], [-1.e-6, -1.e-6]]
    kind, eos, prefix = cfg['route']
    arg = None
    if kind == 'explicit':
        arg = eos
    elif kind == 'index':
        arg = eos           # an integer here
    elif kind == 'multi':
        dat.multi = {'num_components': 1, 'num_equations': 2, 'num_phases': 2, 'num_secondary_parameters': 6,
                     'eos': eos}
        if prefix:
            dat.simulator = prefix.ljust(10) + eos
    elif kind == 'simulator':
        dat.simulator = prefix.ljust(10) + eos
    elif kind == 'simulator-compact':
        dat.simulator = prefix + eos
    elif kind == 'simulator+multi-without-eos':
        dat.simulator = prefix.ljust(10) + eos
        dat.multi = {'num_components': 1, 'num_equations': 2, 'num_phases': 2, 'num_secondary_parameters': 6}
    elif kind == 'simulator+multi-blank-eos':
        dat.simulator = prefix.ljust(10) + eos
        dat.multi = {'num_components': 1, 'num_equations': 2, 'num_phases': 2, 'num_secondary_parameters': 6,
                     'eos': ''}
    elif kind in ('converted', 'converted-no-multi'):
        if kind == 'converted':
            dat.multi = {'num_components': 1, 'num_equations': 2, 'num_phases': 2, 'num_secondary_parameters': 6}
        with quiet():
            dat.convert_to_AUTOUGH2(warn=False, simulator=prefix, eos=eos)
    gens = cfg.get('gens', ())
    if gens == 'perblock':
        gens = [('MASS', i, 'new') for i in range(len(names))]
    for n, (typ, pos, variant) in enumerate(gens):
        f = cm.gen_fields(typ)
        if variant == 'new':
            nm = 'g%3d' % n
        elif variant == 'samename':
            nm = 'same1'
        if variant == 'table':
            nm = 'g%3d' % n
            f.update(ltab=2, time=[0., 1.e6], rate=[1., 2.])
        dat.add_generator(t2generator(name=nm, block=names[pos], type=typ, **f))
    origin = cfg.get('origin', 'geo')
    if origin != 'geo':
        # the same model by another route: through a data file, and through a conversion and a data file
        # (a grid that was read knows nothing the file does not carry)
        from t2data import t2data as _t2data
        path = os.path.join(core.scratch(), 'c20x.dat')
        for stale in (path, os.path.splitext(path)[0] + '.pdat'):
            if os.path.exists(stale):
                os.remove(stale)
        with quiet():
            if not dat.simulator:
                dat.simulator = 'AUTOUGH2.2' + eos
            if origin in ('conv-file', 'conv-file-back'):
                dat.convert_to_TOUGH2(warn=False)
                arg = eos
            dat.write(path)
            dat = _t2data(path)
            if origin == 'conv-file-back':
                dat.convert_to_AUTOUGH2(warn=False, eos=eos)
                arg = None
        dat.filename = 'c20x.dat'
    return geo, dat, arg


def bdy_without_interior(dat, atmos_volume):
    g = dat.grid
    for b in g.blocklist:
        if cm.is_boundary_volume(b.volume, atmos_volume):
            nb = [n for k in b.connection_name for n in k if n != b.name]
            if not any(not cm.is_boundary_volume(g.block[n].volume, atmos_volume) for n in nb):
                return True
    return False


def export_case(cfg):
    """-> (violations, outcome)."""
    out = []

    osfx = '' if cfg.get('origin', 'geo') == 'geo' else '|origin=' + cfg['origin']

    def V(site, clause, cls, what):
        sig = 'C20|%s|%s|%s%s' % (site, clause, cls, osfx)
        if sig not in [s for s, w in out]:
            out.append((sig, what + (' [model %s]' % ORIGIN_TEXT[cfg['origin']] if osfx else '')))
    try:
        geo, dat, arg = export_model(cfg)
    except core.CaseTimeout:
        raise
    except Exception as e:
        if not osfx:
            raise
        V('json-model', 'raises:%s@%s' % (type(e).__name__, lib_site(e)), 'any',
          'writing / converting / re-reading the model to export raised %r' % (e,))
        return out, 'origin-raised'
    av = cfg.get('atmos_volume')
    kw = {} if av is None else {'atmos_volume': av}
    avol = 1.e25 if av is None else av
    kind, eos, prefix = cfg['route']
    eosname = cm.EOS_FROM_INDEX.get(eos) if kind == 'index' else eos
    want_eos = cm.WAIWERA_EOS[eosname]
    gtypes = [g.type for g in dat.generatorlist]
    refusable = any(t in cm.WAIWERA_UNSUPPORTED for t in gtypes)
    j = None
    outcome = 'exported'
    try:
        with quiet():
            j = dat.json(geo, 'c20x.exo', eos=arg, **kw)
    except core.CaseTimeout:
        raise
    except Exception as e:
        fn = lib_site(e)
        msg = str(e)
        if fn == 'generators_json' and 'not supported' in msg and refusable:
            outcome = 'refused-unsupported-generator'
        elif fn == 'eos_json' and 'EOS not detected' in msg:
            V('json', 'eos-not-recognised', 'simulator-string-only' if not dat.multi else 'simulator-string+MULTI-without-EOS-name',
              'EOS %r given by route %s (simulator %r, multi %r) was not recognised: %r'
              % (eos, kind, dat.simulator, dat.multi, e))
            outcome = 'eos-not-detected'
        else:
            if fn == 'boundaries_json' and bdy_without_interior(dat, avol):
                cls = 'boundary-block-without-interior-neighbour'
            elif fn == 'generators_json':
                cls = 'types=' + '+'.join(sorted(set(cm.gen_class(t) for t in gtypes)))
            else:
                cls = 'route=%s' % kind
            V('json', 'raises:%s@%s' % (type(e).__name__, fn), cls, 'json() raised %r' % (e,))
            outcome = 'raised'
    # components are evaluated directly when json() did not deliver, so one defect does not hide the rest
    parts = {}
    if j is not None:
        parts = j
        got = j.get('eos', {}).get('name')
        if got != want_eos:
            V('json', 'eos-wrong', 'route=%s' % kind, 'EOS %r by route %s exported as %r, expected %r'
              % (eos, kind, got, want_eos))
    else:
        try:
            with quiet():
                parts = dict(dat.rocks_json(geo, avol, 'xyz'))
                if not refusable:
                    parts.update(dat.generators_json(geo, want_eos, None))
        except core.CaseTimeout:
            raise
        except Exception as e:
            V('json-parts', 'raises:%s@%s' % (type(e).__name__, lib_site(e)), 'fallback',
              'rocks_json/generators_json raised %r' % (e,))
            return out, outcome
    # ---- rock cells partition the non-boundary blocks
    natm = geo.num_atmosphere_blocks
    vol = dict((b.name, num(b.volume)) for b in dat.grid.blocklist)
    rock = dict((b.name, b.rocktype.name) for b in dat.grid.blocklist)
    rnames = [rt.name for rt in dat.grid.rocktypelist]
    want = cm.expected_partition(list(geo.block_name_list), natm, vol, rock, rnames, avol)
    types = parts.get('rock', {}).get('types', [])
    got = {}
    for t in types:
        got.setdefault(t.get('name'), []).extend(t.get('cells', []))
    bcls = boundary_class(cfg)
    allcells = [c for r in got for c in got[r]]
    allwant = sorted(c for r in want for c in want[r])
    if len(allcells) != len(set(allcells)):
        V('json', 'rock-cells-not-disjoint', bcls, 'a cell is listed twice: %r' % (got,))
    elif sorted(allcells) != allwant:
        extra = sorted(set(allcells) - set(allwant))
        miss = sorted(set(allwant) - set(allcells))
        ncell = len(geo.block_name_list) - natm
        bad = [c for c in extra if not (isinstance(c, int) and 0 <= c < ncell)]
        if bad:
            V('json', 'rock-cells-bad-index', bcls, 'cells %r are not cell indices of the geometry (0..%d): %r'
              % (bad, ncell - 1, got))
        elif extra:
            V('json', 'rock-cells-include-boundary-block', bcls,
              'cells %r are boundary blocks (volume 0 or >= %g) but are in rock cell lists %r' % (extra, avol, got))
        if miss:
            V('json', 'rock-cells-miss-block', bcls, 'non-boundary cells %r are in no rock cell list %r' % (miss, got))
    else:
        for r in rnames:
            if sorted(got.get(r, [])) != sorted(want[r]):
                V('json', 'rock-cells-wrong-rocktype', bcls, 'rock %s has cells %r, expected %r'
                  % (r, got.get(r), want[r]))
                break
    # ---- sources
    if j is not None or not refusable:
        srcs = parts.get('source', [])
        nongroup = [g for g in dat.generatorlist if g.type not in cm.GROUP_TYPES]
        gcls = 'types=' + '+'.join(sorted(set(cm.gen_class(t) for t in gtypes))) if gtypes else 'none'
        if len(srcs) != len(nongroup):
            V('json', 'source-count', gcls, '%d sources for %d non-group generators (types %r)'
              % (len(srcs), len(nongroup), gtypes))
        else:
            for s, g in zip(srcs, nongroup):
                idx = geo.block_name_index.get(g.block)
                if idx is None or idx < natm:
                    continue            # generator in an atmosphere block / outside the geometry: don't care
                if s.get('cell') != idx - natm:
                    V('json', 'source-cell', 'atmosphere-type-%d' % geo.atmosphere_type,
                      'source for generator %r in block %r (geometry index %d, %d atmosphere blocks) has cell %r, '
                      'expected %d' % (g.name, g.block, idx, natm, s.get('cell'), idx - natm))
                    break
    return out, outcome


def boundary_class(cfg):
    vols = [v for p, v in cfg.get('bvol', ())]
    if cfg.get('side') is not None:
        vols.append(cfg['side'])
    if not vols:
        return 'no-boundary-deviation'
    av = cfg.get('atmos_volume') or 1.e25
    ks = set()
    for v in vols:
        if v == 0:
            ks.add('zero-volume')
        elif v == av:
            ks.add('volume=limit')
        elif v > av:
            ks.add('huge-volume')
        else:
            ks.add('interior-volume')
    return '+'.join(sorted(ks))


def nblocks(nx, ny, nz, at):
    return nx * ny * nz + (1 if at == 0 else nx * ny if at == 1 else 0)


def export_configs(tier):
    """-> list of (family, cfg)."""
    out = []
    ew = ('multi', 'EW', None)
    # E1 geometry x atmosphere x block order x grid order, one generator in every block
    for (nx, ny, nz) in GEO_SIZES:
        for at in (0, 1, 2):
            for order in ORDERS:
                for rev in (False, True):
                    for origin in EXPORT_ORIGINS:
                        cfg = {'geo': (nx, ny, nz, at, order), 'gridrev': rev, 'route': ew, 'gens': 'perblock'}
                        if origin != 'geo':
                            cfg['origin'] = origin
                        out.append(('geo' if origin == 'geo' else 'geo-' + origin, cfg))
    # E2 boundary volumes in every position
    sizes = GEO_SIZES if tier == 'thorough' else QUICK_BGEO
    for (nx, ny, nz) in sizes:
        for at in (0, 1, 2):
            nb = nblocks(nx, ny, nz, at)
            for av, vols in ((None, (0.0, 1.e25, 1.e30, 5.e24, 1.e-30)), (1.e20, (0.0, 1.e20, 2.e20, 5.e19))):
                if av is not None and tier != 'thorough' and (nx, ny, nz) != (2, 1, 2):
                    continue
                for p in range(nb):
                    for v in vols:
                        out.append(('bvol', {'geo': (nx, ny, nz, at, None), 'route': ew, 'bvol': [(p, v)],
                                             'atmos_volume': av, 'gens': 'perblock'}))
                for v in vols:
                    out.append(('bvol', {'geo': (nx, ny, nz, at, None), 'route': ew, 'side': v,
                                         'atmos_volume': av, 'gens': 'perblock'}))
            if tier == 'thorough' and nb <= 9:
                for p in range(nb):
                    for q in range(p + 1, nb):
                        for v in (0.0, 1.e30):
                            for w in (0.0, 1.e30):
                                out.append(('bvol2', {'geo': (nx, ny, nz, at, None), 'route': ew,
                                                      'bvol': [(p, v), (q, w)], 'gens': 'perblock'}))
    # E3 EOS x route
    for at in (0, 2):
        g = (2, 1, 2, at, None)
        for e in EXPORT_EOS:
            out.append(('eos', {'geo': g, 'route': ('explicit', e, None)}))
            out.append(('eos', {'geo': g, 'route': ('multi', e, None)}))
            for pre in cm.SIM_PREFIXES:
                out.append(('eos', {'geo': g, 'route': ('multi', e, pre)}))
                for kind in ('simulator', 'simulator-compact', 'simulator+multi-without-eos',
                             'simulator+multi-blank-eos', 'converted', 'converted-no-multi'):
                    out.append(('eos', {'geo': g, 'route': (kind, e, pre)}))
        for i in sorted(cm.EOS_FROM_INDEX):
            out.append(('eos', {'geo': g, 'route': ('index', i, None)}))
    # E4 generator sets
    for at in (0, 1):
        g = (2, 2, 2, at, None)
        nb = nblocks(2, 2, 2, at)
        for t in cm.ALL_TYPES:
            for p in range(nb):
                out.append(('gens', {'geo': g, 'route': ew, 'gens': [(t, p, 'new')]}))
            if t != 'DELV':      # for DELV ltab counts layers, and more than one is refused by design
                out.append(('gens', {'geo': g, 'route': ew, 'gens': [(t, nb - 1, 'table')]}))
            # duplicated names: same name in another block, same (block, name)
            out.append(('gens', {'geo': g, 'route': ew, 'gens': [('MASS', nb - 2, 'samename'), (t, nb - 1, 'samename')]}))
            out.append(('gens', {'geo': g, 'route': ew, 'gens': [('MASS', nb - 1, 'samename'), (t, nb - 1, 'samename')]}))
            out.append(('gens', {'geo': g, 'route': ew, 'gens': [(t, nb - 1, 'samename'), ('MASS', nb - 1, 'samename')]}))
        if tier == 'thorough':
            for t in cm.ALL_TYPES:
                for u in cm.ALL_TYPES:
                    out.append(('gens2', {'geo': g, 'route': ew, 'gens': [(t, nb - 1, 'new'), (u, nb - 2, 'new')]}))
                    out.append(('gens2', {'geo': g, 'route': ew, 'gens': [(t, nb - 1, 'samename'),
                                                                         (u, nb - 1, 'samename')]}))
    uniq, seen = [], set()
    for fam, cfg in out:
        k = repr(sorted(cfg.items()))
        if k not in seen:
            seen.add(k)
            uniq.append((fam, cfg))
    return uniq


ORIGIN_TEXT = {'file': 'written as AUTOUGH2 and read back', 'conv-file': 'converted to TOUGH2, written and read back',
               'conv-file-back': 'converted to TOUGH2, written, read back and converted to AUTOUGH2'}
EXPORT_ORIGINS = ['geo', 'file', 'conv-file', 'conv-file-back']
NCHUNK_EXPORT = {'quick': 16, 'thorough': 32}


# =========================================================================================================
# two models in one process: no interference, order independence (judged by observable effect only)

def norm(x):
    if isinstance(x, dict):
        return tuple(sorted((str(k), norm(v)) for k, v in x.items()))
    if isinstance(x, (list, tuple)):
        return tuple(norm(v) for v in x)
    return x


def reobserve(prev, later_site):
    """prev: what conv_case left of an EARLIER case (model still alive).  Another model has been built, converted
    and written since.  The earlier model must still show what it showed right after its own conversion, in
    memory and when written again.  -> [(sig, what)]"""
    out = []
    now = canon(prev['dat'])
    for f in sorted(now):
        if norm(now[f]) != norm(prev['after'][f]):
            out.append(('C20|%s|changes-earlier-model:%s|second-object' % (later_site, f),
                        'a model converted earlier in the process (%s %r) showed %s = %s right after its own '
                        'conversion and shows %s after another model was converted'
                        % (prev['direction'], prev['atoms'], f, brief(prev['after'][f]), brief(now[f]))))
    if not out:
        path = os.path.join(core.scratch(), 'c20b.dat')
        try:
            with quiet():
                prev['dat'].write(path)
            with open(path) as fh:
                text = fh.read()
        except core.CaseTimeout:
            raise
        except Exception as e:
            out.append(('C20|%s|changes-earlier-model:write-raises|second-object' % later_site,
                        'writing the earlier model again raised %r' % (e,)))
            return out
        if text != prev['text']:
            a, b = prev['text'].split('\n'), text.split('\n')
            d = [(x, y) for x, y in zip(a, b) if x != y][:2] or [(len(a), len(b))]
            out.append(('C20|%s|changes-earlier-model:file|second-object' % later_site,
                        'the earlier model (%s %r) is written differently after another model was converted: %r'
                        % (prev['direction'], prev['atoms'], d)))
    return out


def edit_in_place(p):
    """Legal edits of one's own model; no other model may notice them."""
    if p.lineq:
        p.lineq['epsilon'] = 1.e-8
        p.lineq['max_iterations'] = 77
    if p.solver:
        p.solver['closure'] = 1.e-3
    if p.multi:
        p.multi['num_secondary_parameters'] = 8
    p.parameter['option'][5] = 7
    p.parameter['max_iterations'] = 99
    p.parameter['default_incons'].append(0.5)
    p.more_option[3] = 1
    if p.short_output:
        p.short_output['frequency'] = 5
        for k in ('block', 'connection', 'generator'):
            if p.short_output.get(k):
                p.short_output[k].pop()
    for lst in (p.history_block, p.history_connection, p.history_generator):
        if lst:
            lst.pop()
    if p.generatorlist:
        p.generatorlist[0].gx = 123.
        p.generatorlist[0].time.append(5.)
    if p.grid.rocktypelist:
        p.grid.rocktypelist[0].conductivity = 9.5
        p.grid.rocktypelist[0].permeability[0] = 5.e-13
    if p.output_times.get('time'):
        p.output_times['time'].append(3.e6)
    for v in p.incon.values():
        v[1].append(1.)


def primers(direction, first):
    """Other models doing something different, converted (and then edited) just before the case is repeated:
    the same direction with the other solver class, other MOP digits and MP, then the opposite direction."""
    other = 'T2A' if direction == 'A2T' else 'A2T'
    own = first['after']['lineq'].get('type') if direction == 'T2A' else None
    alive = []
    if direction == 'T2A':
        a1 = (('solver', 5 if own == 1 else 4), ('mop', 12, 2), ('mop', 22, 3), ('mp',))
        a2 = (('lineq', 1), ('mop', 10, 2), ('mop', 23, 1))
    else:
        a1 = (('lineq', 1), ('mop', 10, 2), ('mop', 23, 1), ('mp',))
        a2 = (('solver', 4), ('mop', 12, 2), ('mop', 22, 3))
    for d, a in ((direction, a1), (other, a2)):
        dat, meta = build(d, a)
        run_conversion(dat, meta, d)
        edit_in_place(dat)
        alive.append(dat)
    return alive


def order_case(direction, atoms, first, first_viol):
    """Repeat a case after the primers; it must show exactly what it showed the first time.  -> [(sig, what)]"""
    alive = primers(direction, first)
    keep = {}
    viol, outcome, counters = conv_case(direction, atoms, keep)
    out = []
    site = first['site']
    tag = 'after=other-conversions'
    if 'after' not in keep:
        out.append(('C20|%s|order-dependent:outcome|%s' % (site, tag),
                    'the case converted and round-tripped the first time and ended as %r when repeated after other '
                    'conversions' % outcome))
        return out
    for f in sorted(first['after']):
        if norm(first['after'][f]) != norm(keep['after'][f]):
            out.append(('C20|%s|order-dependent:%s|%s' % (site, f, tag),
                        '%s after conversion is %s when the case runs first and %s when it runs after two other models '
                        'were converted and edited' % (f, brief(first['after'][f]), brief(keep['after'][f]))))
    if not out and first['text'] != keep['text']:
        out.append(('C20|%s|order-dependent:file|%s' % (site, tag), 'the written file differs when the case is repeated '
                    'after other conversions'))
    if sorted(s_ for s_, w in viol) != sorted(s_ for s_, w in first_viol):
        out.append(('C20|%s|order-dependent:verdict|%s' % (site, tag),
                    'clauses violated the first time %r, when repeated after other conversions %r'
                    % (sorted(s_ for s_, w in first_viol), sorted(s_ for s_, w in viol))))
    del alive
    return out


def second_pass(tier, index, atoms):
    return tier == 'quick' or len(atoms) <= 1 or index % 8 == 0


# =========================================================================================================
# histories on ONE model object: (write | read back | convert | export | edit) sequences to a stated depth.
# Every observation (file written, JSON exported, model after a conversion / read-back / edit) is compared with
# the same observation on a history-free reference: a freshly built object that went through the state-changing
# operations only (conversions, edits, reading back its own file), never through an earlier write or export.
# Writing and exporting are observers: by the statement they keep the model, so what they did earlier (also when
# the export refused the model) must not show in anything observed later.  What reading a file into an object
# that already holds a model does is not fixed by the statement: it is the same call in both chains.

HIST_BASES = ['A', 'A-multi-without-eos', 'A-no-multi', 'T', 'T-no-multi', 'A-multi-without-eos-file']
HIST_OPS = {'quick': ['W', 'R', 'J', 'T', 'A', 'A:EWC', 'S:EWC', 'S:W', 'E:EWAV', 'E:-', 'O'],
            'thorough': ['W', 'R', 'J', 'T', 'A', 'A:EWC', 'S:EWC', 'S:W', 'E:EWAV', 'E:-', 'O', 'T:MP', 'A:MP']}
HIST_DEPTH = {'quick': 4, 'thorough': 5}
HIST_PREFIX = {'quick': 1, 'thorough': 2}          # length of the sequence prefix that makes a work unit
OBSERVERS = ('W', 'J')
HIST_EDITS = ('S', 'E', 'O')
OP_SITE = {'W': 'write', 'R': 'read', 'J': 'json', 'T': 'convert_to_TOUGH2', 'A': 'convert_to_AUTOUGH2',
           'S': 'simulator-edit', 'E': 'eos-edit', 'O': 'option-edit'}


def hist_base(name):
    """A model for the history part: the conversion base models without the generator Waiwera has no counterpart
    for (so that an export gets to its end), with / without the EOS name in MULTI, built in memory or read."""
    from t2data import t2data
    fromfile = name.endswith('-file')
    core_name = name[:-5] if fromfile else name
    flavour = core_name[0]
    dat = base_model(flavour)
    key = (BLK['b1'], 'cdx 1')
    gen = dat.generator[key]
    if 'generator' in dat.short_output:
        dat.short_output['generator'] = [x for x in dat.short_output['generator'] if x is not gen]
    dat.delete_generator(key)
    dat.parameter['default_incons'] = [1.e5, 20., 0., 0.]      # enough primary variables for every EOS exported
    dat.incon = {BLK['a2']: [None, [2.e5, 30., 0., 0.]]}
    if core_name.endswith('-multi-without-eos'):
        dat.multi.pop('eos', None)
    elif core_name.endswith('-no-multi'):
        dat.multi = {}
    dat.filename = 'c20h.dat'
    if fromfile:
        path = os.path.join(core.scratch(), 'c20hb.dat')
        with quiet():
            dat.write(path)
            dat = t2data(path)
        dat.filename = 'c20h.dat'
    return dat


def hist_legal(op, state):
    """state: (type, multi non-empty, multi has an EOS name) of the reference model before the operation."""
    typ, has_multi, has_eos = state
    k = op.split(':')[0]
    if k == 'T' or k == 'S':
        return typ == 'AUTOUGH2'
    if k == 'A':
        return typ == 'TOUGH2'
    if op == 'E:-':
        return typ == 'AUTOUGH2' and has_eos
    if k == 'E':
        return typ == 'AUTOUGH2' and has_multi
    return True


def hist_state(dat):
    return (dat.type, bool(dat.multi), bool(dat.multi.get('eos')))


def hist_apply(dat, op):
    """Apply one operation to the model; -> (model, observation)."""
    k, _, arg = op.partition(':')
    path = os.path.join(core.scratch(), 'c20h.dat')
    try:
        with quiet():
            if k == 'W' or k == 'R':
                fn = dat.filename
                for stale in (path, os.path.splitext(path)[0] + '.pdat'):
                    if os.path.exists(stale):
                        os.remove(stale)
                dat.write(path)
                dat.filename = fn
                if k == 'W':
                    with open(path) as f:
                        return dat, ('file', f.read())
                dat.read(path)
                dat.filename = fn
            elif k == 'J':
                j = dat.json(small_geo(), 'c20h.exo')
                return dat, ('json', norm(cval(j)))
            elif k == 'T':
                dat.convert_to_TOUGH2(warn=False, MP=(arg == 'MP'))
            elif k == 'A':
                if arg == 'MP':
                    dat.convert_to_AUTOUGH2(warn=False, MP=True)
                elif arg:
                    dat.convert_to_AUTOUGH2(warn=False, simulator='AUTOUGH2', eos=arg)
                else:
                    dat.convert_to_AUTOUGH2(warn=False)
            elif k == 'S':
                dat.simulator = 'AUTOUGH2.2' + arg
            elif k == 'E':
                if arg == '-':
                    dat.multi.pop('eos', None)
                else:
                    dat.multi['eos'] = arg
            elif k == 'O':
                dat.parameter['option'][11] = (int(dat.parameter['option'][11]) + 1) % 10
                dat.parameter['option'][21] = (int(dat.parameter['option'][21]) + 3) % 7
    except core.CaseTimeout:
        raise
    except Exception as e:
        return dat, ('raises', type(e).__name__, lib_site(e), str(e)[:200])
    return dat, ('model', norm(canon(dat)))


def hist_reduced(seq):
    """The state-changing operations of a history (observers dropped)."""
    return tuple(op for op in seq if op not in OBSERVERS)


_HREF = {}


def hist_reference(base, seq):
    """History-free model after the state-changing operations of seq.  -> (model, state, dead)"""
    dat = hist_base(base)
    dead = False
    for op in hist_reduced(seq):
        dat, obs = hist_apply(dat, op)
        if obs[0] == 'raises':
            dead = True
            break
    return dat, hist_state(dat), dead


def hist_ref_observation(base, seq, op):
    """Observation of op made by a history-free model that is in the state seq leads to (memoised per worker:
    the reference depends on the state-changing operations only)."""
    k = (base, hist_reduced(seq), op)
    if k not in _HREF:
        dat, state, dead = hist_reference(base, seq)
        _HREF[k] = hist_apply(dat, op)[1]
    return _HREF[k]


_HSTATE = {}


def hist_state_after(base, seq):
    k = (base, hist_reduced(seq))
    if k not in _HSTATE:
        dat, state, dead = hist_reference(base, seq)
        _HSTATE[k] = (state, dead)
    return _HSTATE[k]


def hist_observe(base, seq, op):
    """The same observation by ONE object that lived through all of seq."""
    dat = hist_base(base)
    for o in seq:
        dat, obs = hist_apply(dat, o)
        if obs[0] == 'raises' and o not in OBSERVERS:
            return ('raises-earlier',) + obs[1:]
    return hist_apply(dat, op)[1]


def hist_diff(a, b):
    """Names of what differs between two observations of the same kind."""
    if a[0] != b[0]:
        return ['outcome']
    if a[0] == 'file':
        return ['file']
    if a[0] == 'raises':
        return ['raises:%s@%s' % (a[1], a[2])]
    da, db = dict(a[1]), dict(b[1])
    out = sorted(k for k in set(da) | set(db) if da.get(k) != db.get(k))
    return [('%s:%s' % (a[0], k)) for k in out] or [a[0]]


def hist_describe(a, b, fields):
    if a[0] == 'file' and b[0] == 'file':
        x, y = a[1].split('\n'), b[1].split('\n')
        d = [(p, q) for p, q in zip(x, y) if p != q][:2] or [('%d lines' % len(x), '%d lines' % len(y))]
        return 'lines (with history, history-free): %r' % (d,)
    if a[0] == b[0] and a[0] in ('json', 'model'):
        da, db = dict(a[1]), dict(b[1])
        k = fields[0].split(':', 1)[1] if ':' in fields[0] else None
        return '%s with history %s, history-free %s' % (k, brief(da.get(k)), brief(db.get(k)))
    return 'with history %s, history-free %s' % (brief(a), brief(b))


def hist_compare(base, seq, op):
    """-> (fields that differ, observation with history, reference observation)"""
    ref = hist_ref_observation(base, seq, op)
    got = hist_observe(base, seq, op)
    if got == ref:
        return [], got, ref
    return hist_diff(got, ref), got, ref


def hist_legal_seq(base, seq):
    for i, op in enumerate(seq):
        state, dead = hist_state_after(base, seq[:i])
        if dead or not hist_legal(op, state):
            return False
    return True


def hist_minimise(base, seq, op, fields):
    """Drop earlier operations one at a time while the same difference stays (names the history that matters)."""
    seq = list(seq)
    changed = True
    while changed:
        changed = False
        for i in range(len(seq)):
            sub = tuple(seq[:i] + seq[i + 1:])
            if not hist_legal_seq(base, sub + (op,)):
                continue
            f2, _g, _r = hist_compare(base, sub, op)
            if f2 and f2[0] == fields[0]:
                seq = list(sub)
                changed = True
                break
    return tuple(seq)


def hist_case(base, seq, op):
    """-> [(sig, what)] for one history seq + (op)."""
    fields, got, ref = hist_compare(base, seq, op)
    if not fields:
        return []
    small = hist_minimise(base, seq, op, fields)
    site = OP_SITE[op.split(':')[0]]
    after = '>'.join(OP_SITE[o.split(':')[0]] for o in small) or 'nothing'
    out = []
    for f in fields[:3]:
        out.append(('C20|%s|history-dependent:%s|after=%s' % (site, f, after),
                    'base model %s: one object that went through %r and then %r shows something else than a fresh '
                    'object brought to the same state by %r alone (smallest history that matters: %r): %s'
                    % (base, list(seq), op, list(hist_reduced(seq)), list(small), hist_describe(got, ref, [f]))))
    return out


def hist_explore(base, seq, depth, rec, tier):
    """seq (legal, already evaluated as a whole) -> evaluate every legal extension up to depth."""
    if len(seq) >= depth:
        return
    state, dead = hist_state_after(base, seq)
    if dead:
        return
    for op in HIST_OPS[tier]:
        if hist_legal(op, state):
            hist_eval(base, seq, op, rec)
            hist_explore(base, seq + (op,), depth, rec, tier)


def hist_has_history(seq):
    """Without an observer among the earlier operations the object IS the reference: nothing to compare."""
    return any(o in OBSERVERS for o in seq)


def hist_eval(base, seq, op, rec):
    case = {'part': 'hist', 'base': base, 'seq': list(seq), 'op': op}
    if op.split(':')[0] in HIST_EDITS:
        return          # an edit by the harness is no observation
    if not hist_has_history(seq):
        rec.count('hist_sequences_without_observer_not_compared')
        return
    try:
        with core.timelimit(3 * CASE_SECONDS):
            viol = hist_case(base, seq, op)
    except core.CaseTimeout:
        viol = [('C20|%s|timeout|history' % OP_SITE[op.split(':')[0]], 'history %r + %r did not finish'
                 % (list(seq), op))]
    rec.case(('hist', base, seq, op), nontrivial=True,
             outcome='history:%s:%s' % (OP_SITE[op.split(':')[0]], 'differs' if viol else 'same'))
    rec.count('hist_sequences_len%d' % (len(seq) + 1))
    for sig, what in viol:
        rec.violation(sig, what, case)


def hist_units(tier):
    us = []
    ops = HIST_OPS[tier]
    P = HIST_PREFIX[tier]
    for b in HIST_BASES:
        for n in range(1, P + 1):
            for pre in itertools.product(ops, repeat=n):
                us.append(('hist', b, list(pre)))
    return us


def run_hist_unit(unit, tier, rec):
    _p, base, pre = unit
    pre = tuple(pre)
    _HREF.clear()
    _HSTATE.clear()
    if not hist_legal_seq(base, pre):
        return
    hist_eval(base, pre[:-1], pre[-1], rec)
    if len(pre) == HIST_PREFIX[tier]:
        hist_explore(base, pre, HIST_DEPTH[tier], rec, tier)
    rec.sample({'history-base': base, 'prefix': list(pre)})


# =========================================================================================================
# framework interface

def units(tier):
    us = []
    for d in ('A2T', 'T2A'):
        for i in range(NCHUNK[tier]):
            us.append(('conv', d, i))
    for i in range(NCHUNK_EXPORT[tier]):
        us.append(('export', '', i))
    us.extend(hist_units(tier))
    return us


_CFG = {}


def cfg_list(part, direction, tier):
    k = (part, direction, tier)
    if k not in _CFG:
        _CFG[k] = configs(direction, tier) if part == 'conv' else export_configs(tier)
    return _CFG[k]


def jsonable_atoms(atoms):
    return [list(a) for a in atoms]


def run_unit(unit, tier, rec):
    if unit[0] == 'hist':
        return run_hist_unit(unit, tier, rec)
    part, direction, i = unit
    allcfg = cfg_list(part, direction, tier)
    n = NCHUNK[tier] if part == 'conv' else NCHUNK_EXPORT[tier]
    mine = allcfg[i::n]
    if part == 'conv':
        prev = None
        for idx, atoms in enumerate(mine):
            case = {'part': 'conv', 'direction': direction, 'atoms': jsonable_atoms(atoms)}
            keep = {}
            try:
                with core.timelimit(CASE_SECONDS):
                    viol, outcome, counters = conv_case(direction, atoms, keep)
            except core.CaseTimeout:
                viol, outcome, counters = [('C20|%s|timeout|%s' % (direction, '+'.join(atom_label(a) for a in atoms)),
                                            'case did not finish in %d s' % CASE_SECONDS)], 'timeout', {}
            rec.case(('conv', direction, atoms), nontrivial=True, outcome=direction + ':' + outcome)
            # no interference: the previous case's model is still alive - it must not have noticed this case
            if prev is not None and 'after' in prev:
                try:
                    with core.timelimit(CASE_SECONDS):
                        v2 = reobserve(prev, site_name(direction, None))
                except core.CaseTimeout:
                    v2 = [('C20|%s|timeout|second-object' % direction, 're-observation did not finish')]
                rec.case(('conv-second-object', direction, prev['atoms'], atoms), nontrivial=True,
                         outcome='second-object:' + ('changed' if v2 else 'unchanged'))
                for sig, what in v2:
                    rec.violation(sig, what, {'part': 'conv2', 'kind': 'second-object', 'direction': direction,
                                              'first': jsonable_atoms(prev['atoms']), 'atoms': jsonable_atoms(atoms)})
            # order independence: the case repeated after other conversions shows the same
            if 'after' in keep and second_pass(tier, idx, atoms):
                try:
                    with core.timelimit(CASE_SECONDS):
                        v3 = order_case(direction, atoms, keep, viol)
                except core.CaseTimeout:
                    v3 = [('C20|%s|timeout|after=other-conversions' % direction, 'repeated case did not finish')]
                rec.case(('conv-repeated', direction, atoms), nontrivial=True,
                         outcome='repeated:' + ('differs' if v3 else 'same'))
                for sig, what in v3:
                    rec.violation(sig, what, {'part': 'conv2', 'kind': 'order', 'direction': direction,
                                              'atoms': jsonable_atoms(atoms)})
            prev = keep
            for k, v in counters.items():
                rec.count(k, v)
            rec.count('conv_cases_%s_k%d' % (direction, len(atoms)))
            for sig, what in viol:
                rec.violation(sig, what, case)
            if not atoms:
                rec.sample({'direction': direction, 'atoms': [], 'outcome': outcome,
                            'violations': [s for s, w in viol]}, force=True)
        if mine:
            rec.sample({'direction': direction, 'atoms': jsonable_atoms(mine[-1])})
    else:
        for fam, cfg in mine:
            case = {'part': 'export', 'family': fam, 'cfg': cfg}
            try:
                with core.timelimit(CASE_SECONDS):
                    viol, outcome = export_case(cfg)
            except core.CaseTimeout:
                viol, outcome = [('C20|json|timeout|%s' % fam, 'case did not finish in %d s' % CASE_SECONDS)], 'timeout'
            rec.case(('export', fam, repr(sorted(cfg.items()))), nontrivial=True, outcome='export:' + outcome)
            rec.count('export_cases_%s' % fam)
            for sig, what in viol:
                rec.violation(sig, what, case)
        if mine:
            rec.sample({'export': mine[0][0], 'cfg': mine[0][1]})


def finalize(rec, tier):
    extra = {'dimensions': {
        'conversion deviations': 'bounded, k<=%d' % (1 if tier == 'quick' else 2),
        'MOP10 x MOP23 x simulator family': 'crossed',
        'MOP single x MP': 'crossed',
        'export geometry x atmosphere x block order x grid order': 'crossed',
        'export boundary position x volume': 'crossed per geometry',
        'export EOS x route x simulator name': 'crossed',
        'export generator type x block': 'crossed; pairs of types %s' % ('crossed' if tier == 'thorough' else 'not explored'),
        'export geometry family x model origin (geometry / file / converted+file / converted+file+back)': 'crossed',
        'conversion case x previous model alive (no interference)': 'every consecutive pair within a unit',
        'one object x operation history (write / read back / convert / export / edit)':
            'every legal sequence to depth %d from %d base models, alphabet of %d operations'
            % (HIST_DEPTH[tier], len(HIST_BASES), len(HIST_OPS[tier])),
        'conversion case x primer conversions (order independence)': 'all cases' if tier == 'quick' else 'k<=1 and every 8th pair',
    }}
    for d in ('A2T', 'T2A'):
        extra['configurations_%s' % d] = len(configs(d, tier)) if (('conv', d, tier) not in _CFG) else len(_CFG[('conv', d, tier)])
    return extra


def replay(case):
    if case.get('part') == 'export':
        cfg = dict(case['cfg'])
        cfg['geo'] = tuple(cfg['geo'])
        cfg['route'] = tuple(cfg['route'])
        if isinstance(cfg.get('gens'), list):
            cfg['gens'] = [tuple(g) for g in cfg['gens']]
        if 'bvol' in cfg:
            cfg['bvol'] = [tuple(b) for b in cfg['bvol']]
        with core.timelimit(CASE_SECONDS):
            viol, outcome = export_case(cfg)
        return viol
    if case.get('part') == 'hist':
        _HREF.clear()
        _HSTATE.clear()
        return hist_case(case['base'], tuple(case['seq']), case['op'])
    atoms = tuple(tuple(a) for a in case['atoms'])
    d = case['direction']
    if case.get('part') == 'conv2':
        with core.timelimit(3 * CASE_SECONDS):
            if case['kind'] == 'second-object':
                prev = {}
                conv_case(d, tuple(tuple(a) for a in case['first']), prev)
                conv_case(d, atoms, {})
                return reobserve(prev, site_name(d, None)) if 'after' in prev else []
            keep = {}
            viol, outcome, counters = conv_case(d, atoms, keep)
            return order_case(d, atoms, keep, viol) if 'after' in keep else []
    with core.timelimit(CASE_SECONDS):
        viol, outcome, counters = conv_case(d, atoms)
    return viol
