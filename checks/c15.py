"""C15 - IFC-67 routines (t2thermo.py) agree with IAPWS-97 (IAPWS97.py) and with themselves on their common range.

Engine E3: stated lattices plus the floating-point neighbours of every range limit, in both variables.

Clauses (DESIGN.md section 6, C15):
 (a) compare   density / internal energy of cowat and supst and the saturation pressure against IAPWS-97 on the
               common-range lattices: signed differences inside calibrated bands (ref/thermo.py BAND)
 (b) identity  the single-potential identity of C14(3) for t2thermo.cowat / supst on the same lattices
 (c) inverse   tsat(sat(t)) = t on the saturation line every 0.1 degC
 (d) bounds    bounds=True gives no value exactly when the reference range predicate (doc/source/t2thermo.rst; for
               supst the vapour range up to sat(t) to 374.15 degC, then b23p(t), then 100 MPa) says outside, and the bounds=False value inside: every (T lattice + ulp neighbours of
               0.01, 350, 374.15, 590, 800) x (p lattice + ulp neighbours of 0, 100 MPa, sat(T), b23p(T))
 (e) region    the two classifiers agree for t <= 350 and t > 374.15 degC away (1 %) from the curves
 (f) separator separated_steam_fraction in [0, 1] and non-decreasing in enthalpy on the stated grid
 (g) history   repeatability / order independence: at every limit and ulp-neighbour state and a thinned lattice, every
               (routine, bounds) variant of cowat / supst / sat / tsat, region, separated_steam_fraction and the
               IAPWS-97 counterparts twice in a row and every ordered pair as f, g, f must reproduce bit for bit
               the value the call has as the first call after a fresh import of both modules
 (h) calls     order independence over a lattice of CALLS (ref/c15calls.py): cowat / supst / region over a (t, p)
               lattice x range flag, sat / b23p over its temperatures, tsat over its pressures,
               separated_steam_fraction over (h, P1, {single stage, every P2}) and IAPWS-97 calls - every call twice
               in a row, every ordered pair of calls as f, g, f, and every ordered triple of a stated core subset,
               without restoring isolation in between; every value bit for bit the isolated value of that call.
               A call that shares some arguments with the one before it (the same P1 with another number of stages,
               the same t at another p, the same state with the other flag, another routine) is in the space

Known defect F10 (tsat raises for every input) would hide (c), the tsat part of (d) and all of (f): after the
failure has been recorded, the case is continued under the documented remedy (sat called with the scalar inside the
1-element array that fsolve hands over) so that what lies behind is still explored.
"""
import math
import os

from mc import core
from ref import thermo as R
from ref import c15calls as K

ID = 'C15'
LEVEL = 'exploration'
ENGINE = 'E3'
EXHAUSTIVE = True
RULE = ('compare / identity: every state of the liquid lattice (T x the lower of the two saturation pressures, then log-spaced p from the higher one '
        'to 100 MPa; at lattice states on a range limit the identity is evaluated a second time with one-sided differences) and of the steam lattice (T x log-spaced p from 100 Pa to the lowest of the two '
        'formulations\' upper limits); saturation line: every 0.1 degC of [0.01, 373.946] (compare) and [0.01, 374.15] '
        '(inverse); bounds flag: (T lattice + two outside temperatures + ulp neighbours of 0.01, 350, 374.15, 590, 800) '
        'x (p lattice to 120 MPa + ulp neighbours of 0, 100 MPa, sat(T), b23p(T) + the geometric mean of every two adjacent ones of these limits and 22.12 MPa) for cowat and supst, the T set for '
        'sat, a log pressure lattice + neighbours of sat(0.01) and 22.12 MPa for tsat; classifiers: the same (T, p) set '
        'restricted to t <= 350 or t > 374.15 and further than 1 % from the curves; separator: h = 0..3.5 MJ/kg step '
        '10 kJ/kg x P1 = 0.1..5 MPa step 0.1 x {single stage, every ordered pair (P1, P2) of the same grid, P2 below, equal to and above P1}; history: at every limit state (limit temperatures x limit pressures, both with ulp neighbours), the end points of tsat and a thinned lattice, up to 14 call variants x (twice in a row + every ordered pair as f, g, f) against the value after a fresh import; calls: the call lattice of BOUNDS[tier].calls (every call x every call as f, g, f; every ordered triple of the core calls), each value against the value of that call first after a fresh import.  One evaluation = one oracle '
        'decision on one state; distinct = distinct (clause, routine, state); non-trivial = the clause has an oracle at '
        'the state (classifier states near a curve or between 350 and 374.15 degC are executed but not judged)')
ASSUMPTIONS = [
    'reference ranges: cowat = IFC-67 region 1 (0.01..350 degC, sat(t)..100 MPa); supst = the range its own bounds logic encodes, which is '
    'how TOUGH2 uses it (0.01..800 degC, 0 < p <= sat(t) to 374.15 degC, <= the L-function boundary b23p(t) from 374.15 '
    'to 590 degC, <= 100 MPa above; the documentation\'s "region 2" is loose wording - owner\'s ruling); sat = 0.01..374.15 '
    'degC; tsat = sat(0.01)..22.12 MPa (doc/source/t2thermo.rst).  The curves are t2thermo\'s own sat / b23p values at that t '
    '(bit for bit what the routine compares with) and every limit is closed: exactly on a curve, at 100 MPa and at the '
    'end points of sat / tsat the state is inside',
    'where two nominally coincident limits differ by rounding of printed coefficients either answer is accepted between '
    'them: b23p(590) vs 100 MPa, the printed 374.15 vs the '
    'computed 647.3 - 273.15',
    '"no value" is None or a tuple of None',
    'comparison bands and finite-difference tolerances are calibrated on the pinned tree (ref/thermo.py); nothing is '
    'claimed between lattice points',
    'value clauses are evaluated for p >= 1e-3 Pa; p = 0 is explored as a limit',
    '"above the critical temperature" for the classifier clause is above the IFC-67 critical temperature 374.15 degC '
    '(between 373.946 and 374.15 degC IFC-67 still has its near-critical region 4, which IAPWS-97 does not have)',
    'cases that fail only through the known tsat defect are continued under the remedy described in the module '
    'docstring; their count is in counters.continued_under_remedy',
]
BOUNDS = {
    'quick': {'T_step_degC': 1, 'pressures_per_isotherm': 60, 'sat_line_step_degC': 0.1, 'tsat_lattice_points': 1000,
              'separator': 'single stage complete; every ordered two-stage pair of {0.1, 0.5, 1, 1.5, .., 5} MPa (121)', 'limits': 'complete',
              'history_lattice_T_step_degC': 50,
              'calls': K.LATTICE['quick']},
    'thorough': {'T_step_degC': 1, 'pressures_per_isotherm': 60, 'bounds_T_step_degC': 0.5, 'bounds_pressures_per_isotherm': 80, 'sat_line_step_degC': 0.1, 'tsat_lattice_points': 10000,
                 'history_lattice_T_step_degC': 10,
                 'separator': 'single stage and all 2500 ordered two-stage pairs', 'limits': 'complete',
                 'calls': K.LATTICE['thorough']},
}
TECHNIQUE = ('bounded exhaustive enumeration: lattice + ulp-neighbour enumeration of (T,p) states on the real IFC-67 '
             'routines against the IAPWS-97 routines (differential oracle), a reference range predicate and identities')
LEVEL_TEXT = ('Every state of the stated lattices, every floating-point neighbour of every range limit in both variables '
              'with the range flag on and off, and the complete separator grid are executed on the real code; nothing '
              'is sampled.')
LEVEL_NOTE = ('Continuous domain: nothing is claimed between lattice points.  Trusted: ref/thermo.py (range predicates '
              'written from the documentation, calibrated bands).')

CAL = os.environ.get('VERIF_CALIBRATE') == '1'

PARAMS = {
    # tstep / npres: the compare + identity lattices (the bands of ref/thermo.py are calibrated on the 1 degC x 60 lattice,
    # which is the finest one used); btstep / bnpres: the lattices of the bounds-flag and classifier clauses
    'quick': dict(tstep=1., npres=60, btstep=1., bnpres=60, ntsat=1000, two_stage='coarse', tchunk=32, callrows=16,
                  hist_tstep=50.),
    'thorough': dict(tstep=1., npres=60, btstep=0.5, bnpres=80, ntsat=10000, two_stage='all', tchunk=32, callrows=16,
                     hist_tstep=10.),
}

TSAT_TOL = 1.0e-6           # degC, DESIGN C15 oracle: tsat(sat(t)) = t (1e-6)
MONO_SLACK = 1.0e-12        # steam fraction may not fall by more than this between consecutive enthalpies


def tol(name):
    return R.INF if CAL else R.tol(name)


def band_bad(name, value):
    if CAL:
        return None
    lo, hi = R.band_limits(name)
    return None if lo <= value <= hi else (lo, hi)


def libs():
    import t2thermo
    import IAPWS97
    return t2thermo, IAPWS97


class LibErr(Exception):
    def __init__(self, site, exc):
        Exception.__init__(self, '%s raised %s: %s' % (site, type(exc).__name__, exc))
        self.site, self.exc = site, exc


def call(site, f, *a, **kw):
    try:
        return f(*a, **kw)
    except core.CaseTimeout:
        raise
    except Exception as e:
        raise LibErr(site, e)


def tband(t, width):
    k = int(math.floor(t / width))
    if t > 0 and t == k * width:
        k -= 1
    return 'T%d-%d' % (k * width, (k + 1) * width)


def fl(x):
    return None if x is None else float(x)


def novalue(r):
    return r is None or (isinstance(r, tuple) and all(x is None for x in r))


# ----------------------------------------------------------------------------------------------------------
# the remedy for the known tsat defect
# ----------------------------------------------------------------------------------------------------------

class Remedy(object):
    """While active, t2thermo.sat receives a Python float when it is handed a 1-element array (what fsolve passes to
    the residual function inside tsat) - the documented remedy for F10.  Nothing else changes."""

    def __init__(self, T):
        self.T = T

    def __enter__(self):
        import numpy as np
        T = self.T
        self.orig = orig = T.sat

        def sat(t, bounds=False):
            if isinstance(t, np.ndarray):
                t = float(t.reshape(-1)[0])
            return orig(t, bounds)
        T.sat = sat
        return self

    def __exit__(self, *exc):
        self.T.sat = self.orig
        return False


def with_remedy(T, rec_count, site, f, *a, **kw):
    """Call f; if it fails with the signature of the known tsat defect (TypeError out of tsat's fsolve), return
    (LibErr, value under remedy or None).  Otherwise (None, value)."""
    try:
        return None, call(site, f, *a, **kw)
    except LibErr as e:
        if not isinstance(e.exc, TypeError):
            raise
        first = e
    try:
        with Remedy(T):
            v = call(site, f, *a, **kw)
    except LibErr:
        return first, None
    if rec_count is not None:
        rec_count('continued_under_remedy')
    return first, v


# ----------------------------------------------------------------------------------------------------------
# (a) + (b): comparison with IAPWS-97 and identity, on the common-range lattices
# ----------------------------------------------------------------------------------------------------------

def liquid_pressures(T, I, t, n):
    # from saturation upwards: the saturated liquid of EACH formulation is a liquid state of the comparison (the two
    # saturation curves differ by up to 0.13 %), then the log lattice from the higher of the two
    s67, s97 = float(call('sat', T.sat, t)), float(call('IAPWS97.sat', I.sat, t))
    lo, hi = min(s67, s97), max(s67, s97)
    return ([lo] if lo < hi else []) + R.logspace(hi, R.P_MAX, n)


def steam_pmax(T, I, t):
    if t <= R.T_13:
        return min(float(call('sat', T.sat, t)), float(call('IAPWS97.sat', I.sat, t)))
    if t <= R.T_23_END:
        return min(float(call('b23p', T.b23p, t)), float(call('IAPWS97.b23p', I.b23p, t)), R.P_MAX)
    return R.P_MAX


def steam_pressures(T, I, t, n):
    return R.logspace(R.P_LATTICE_LO, steam_pmax(T, I, t), n)


def chk_state(T, I, name, t, p, pmax):
    """One state of the liquid (cowat) or steam (supst) lattice."""
    f67, f97 = (T.cowat, I.cowat) if name == 'cowat' else (T.supst, I.supst)
    m = {}
    viols = []
    tb = tband(t, 50. if name == 'cowat' else 100.)
    try:
        r67 = call(name, f67, t, p)
        r97 = call('IAPWS97.' + name, f97, t, p)
        if novalue(r67):
            return [('C15|%s|no-value-inside-range|%s' % (name, tb),
                     't2thermo.%s(%r, %r) returns no value inside its range' % (name, t, p))], m, 'none'
        if novalue(r97):
            return [('C15|IAPWS97.%s|no-value-inside-range|%s' % (name, tb),
                     'IAPWS97.%s(%r, %r) returns no value inside the common range' % (name, t, p))], m, 'none'
        d67, u67, d97, u97 = float(r67[0]), float(r67[1]), float(r97[0]), float(r97[1])
        hp = R.H_P_REL * p + (R.H_P_ABS if name == 'cowat' else 0.)
        res = R.identity_tp(lambda tt, pp: call(name, f67, tt, pp), t, p, hp,
                            R.T_13 if name == 'cowat' else R.T_MAX)
    except LibErr as e:
        return [('C15|%s|raises:%s|%s' % (e.site, type(e.exc).__name__, tb),
                 '%s at (t, p) = (%r, %r)' % (e, t, p))], m, 'raised'
    sub = tb if name == 'cowat' else '%s,%s' % (tb, 'p-high' if p > 0.1 * pmax else 'p-low')
    for q, val, unit in (('density', (d67 - d97) / d97, '(relative, IFC-67 - IAPWS-97)'),
                         ('energy', u67 - u97, 'J/kg (IFC-67 - IAPWS-97)')):
        key = 'cmp_%s_%s@%s' % (name, q, sub)
        m[key] = (val, 't=%r p=%r' % (t, p), 'signed')
        bad = band_bad(key, val)
        if bad:
            viols.append(('C15|%s|differs-from-IAPWS97|%s|%s' % (name, q, sub),
                          '%s(%r, %r): IFC-67 (d, u) = (%r, %r), IAPWS-97 (%r, %r); %s difference %.6g %s is outside '
                          'the calibrated band [%.4g, %.4g]' % (name, t, p, d67, u67, d97, u97, q, val, unit,
                                                                bad[0], bad[1])))
    try:
        edge = R.identity_tp_edge(lambda tt, pp: call(name, f67, tt, pp), t, p, hp,
                                  R.T_13 if name == 'cowat' else R.T_MAX)
    except LibErr as e:
        return [('C15|%s|raises:%s|%s' % (e.site, type(e.exc).__name__, tb),
                 '%s near (t, p) = (%r, %r)' % (e, t, p))], m, 'raised'
    if edge is None:
        viols.append(('C15|%s|no-value-inside-range|edge-stencil|%s' % (name, tb),
                      't2thermo.%s returned no value at a state of the one-sided stencil at (%r, %r)' % (name, t, p)))
    elif edge != 'interior':
        ekey = 'identity67_%s_edge' % name
        m[ekey] = (edge, 't=%r p=%r' % (t, p))
        if not edge <= tol(ekey):
            viols.append(('C15|%s|single-potential-identity|at-range-limit|%s' % (name, tb),
                          't2thermo.%s: (du/dp)_T + T (dv/dT)_p + p (dv/dp)_T is %.3g of the sum of its terms at the limit '
                          'state (t, p) = (%r, %r) (one-sided differences, tolerance %.3g)' % (name, edge, t, p, tol(ekey))))
    if res is None:
        viols.append(('C15|%s|no-value-inside-range|stencil|%s' % (name, tb),
                      't2thermo.%s returned no value at a state of the difference stencil around (%r, %r)' % (name, t, p)))
    else:
        key = 'identity67_%s' % name
        m[key] = (res[0], 't=%r p=%r' % res[1])
        if not res[0] <= tol(key):
            viols.append(('C15|%s|single-potential-identity|%s' % (name, tb),
                          't2thermo.%s: (du/dp)_T + T (dv/dT)_p + p (dv/dp)_T is %.3g of the sum of its terms at '
                          '(t, p) = (%r, %r) (tolerance %.3g)' % (name, res[0], res[1][0], res[1][1], tol(key))))
    return viols, m, ('ok' if not viols else 'violates')


def chk_sat_cmp(T, I, t):
    m = {}
    tb = tband(t, 10.)
    try:
        p67 = call('sat', T.sat, t)
        p97 = call('IAPWS97.sat', I.sat, t)
    except LibErr as e:
        return [('C15|%s|raises:%s|%s' % (e.site, type(e.exc).__name__, tb), '%s at t = %r' % (e, t))], m, 'raised'
    if p67 is None or p97 is None:
        return [('C15|sat|no-value-inside-range|%s' % tb,
                 'sat(%r): IFC-67 %r, IAPWS-97 %r' % (t, fl(p67), fl(p97)))], m, 'none'
    val = (float(p67) - float(p97)) / float(p97)
    key = 'cmp_sat@' + tb
    m[key] = (val, 't=%r' % t, 'signed')
    bad = band_bad(key, val)
    if bad:
        return [('C15|sat|differs-from-IAPWS97|%s' % tb,
                 'sat(%r): IFC-67 %r, IAPWS-97 %r, relative difference %.6g outside the calibrated band [%.4g, %.4g]'
                 % (t, float(p67), float(p97), val, bad[0], bad[1]))], m, 'differs'
    return [], m, 'ok'


# ----------------------------------------------------------------------------------------------------------
# (c) tsat(sat(t)) = t
# ----------------------------------------------------------------------------------------------------------

def tsat_pclass(T, p):
    try:
        lo = float(T.sat(R.T_MIN))
    except Exception:
        lo = None
    return 'p' + position(p, [('sat(0.01)', lo), ('pc67', R.PCRIT67)])


def chk_tsat_inv(T, t, count=None):
    m = {}
    viols = []
    tb = tband(t, 100.)
    pcls = '?'
    try:
        p = call('sat', T.sat, t)
        if p is None:
            return [('C15|sat|no-value-inside-range|%s' % tb, 'sat(%r) is None' % t)], m, 'none'
        pcls = tsat_pclass(T, float(p))
        err, ts = with_remedy(T, count, 'tsat', T.tsat, float(p))
    except LibErr as e:
        return [('C15|%s|raises:%s|bounds=False|%s' % (e.site, type(e.exc).__name__, pcls),
                 '%s at t = %r' % (e, t))], m, 'raised'
    oc = 'ok'
    if err is not None:
        viols.append(('C15|tsat|raises:%s|bounds=False|%s' % (type(err.exc).__name__, pcls),
                      'tsat(sat(%r)) = tsat(%r): %s' % (t, float(p), err)))
        oc = 'raised'
        if ts is None:
            return viols, m, oc
    if ts is None:
        viols.append(('C15|tsat|no-value-inside-range|%s' % tb, 'tsat(%r) is None with bounds=False' % float(p)))
        return viols, m, 'none'
    e = abs(float(ts) - t)
    m['tsat67_inv'] = (e, 't=%r' % t)
    if not e <= (R.INF if CAL else TSAT_TOL):
        viols.append(('C15|tsat(sat(t))|not-inverse|%s' % tb,
                      'tsat(sat(%r)) = %r, off by %.3g degC (tolerance %.0e)' % (t, float(ts), e, TSAT_TOL)))
        oc = 'not-inverse' if oc == 'ok' else oc
    return viols, m, oc


# ----------------------------------------------------------------------------------------------------------
# (d) bounds flag
# ----------------------------------------------------------------------------------------------------------

T_LIMITS = [('0.01', R.T_MIN), ('350', R.T_13), ('tc67', R.TCRIT67_DOC), ('590', R.T_23_END), ('800', R.T_MAX)]
T_OUTSIDE = [-5.0, 805.0]


def position(x, limits):
    """Where x lies relative to the named limit values: '~name' within one ulp of a limit, else the open interval
    between the neighbouring limits."""
    lim = sorted((v, n) for n, v in limits if v is not None)
    for v, n in lim:
        if R.down(v) <= x <= R.up(v):
            return '~' + n
    below = [n for v, n in lim if v < x]
    above = [n for v, n in lim if v > x]
    return '(%s,%s)' % (below[-1] if below else '-inf', above[0] if above else '+inf')


def t_position(t):
    lim = list(T_LIMITS)
    if R.TCRIT67_FLT != R.TCRIT67_DOC:
        lim.append(('tc67', R.TCRIT67_FLT))
    return 'T' + position(t, lim)


def p_limits(T, t):
    """[(name, value)] of the pressure limits that exist at temperature t (curves from the library)."""
    lim = [('0', 0.0), ('100MPa', R.P_MAX)]
    try:
        ps = T.sat(t) if R.T_MIN <= t <= R.TCRIT67_HI else None
    except Exception:
        ps = None
    if ps is not None:
        lim.append(('sat', float(ps)))
    try:
        pb = T.b23p(t) if R.T_13 - 1. <= t <= R.T_23_END + 1. else None
    except Exception:
        pb = None
    if pb is not None:
        lim.append(('b23p', float(pb)))
    return lim


def bounds_ts(tstep):
    pts = {}
    for t in R.t_lattice(R.T_MAX, tstep):
        pts[t] = True
    for t in T_OUTSIDE:
        pts[t] = True
    for n, v in T_LIMITS:
        for x in R.around(v):
            pts[x] = True
    for x in R.around(R.TCRIT67_FLT):
        pts[x] = True
    return sorted(pts)


def bounds_ps(T, t, npres):
    pts = {}
    for p in R.logspace(R.P_LATTICE_LO, 1.2 * R.P_MAX, npres):
        pts[p] = True
    pts[R.P_FLOOR] = True
    pts[-1.0] = True
    lim = p_limits(T, t)
    for n, v in lim:
        for x in R.around(v):
            pts[x] = True
    # one state strictly inside every interval between adjacent limits (the critical pressure counted as one), so that
    # no interval is left empty by the log lattice however narrow it is: the geometric mean of its ends
    pos = sorted(set([v for n, v in lim if v > 0.] + [R.PCRIT67]))
    for a, b in zip(pos, pos[1:]):
        m = math.sqrt(a * b)
        if R.up(a) < m < R.down(b):
            pts[m] = True
    return sorted(pts)


def chk_bounds_tp(T, name, t, p):
    """cowat / supst with the range flag at (t, p)."""
    f = T.cowat if name == 'cowat' else T.supst
    lim = p_limits(T, t)
    ppos = position(p, lim)
    # the p = 0 edge of the range is one input class whatever the temperature
    cls = 'p~0' if ppos == '~0' else '%s|p%s' % (t_position(t), ppos)
    d = dict(lim)
    psat, pb = d.get('sat'), d.get('b23p')
    if name == 'cowat':
        want = R.cowat67_range(t, p, psat) if psat is not None else set([False])
    else:
        want = R.supst67_range(t, p, psat if psat is not None else R.INF, pb if pb is not None else R.INF)
    if 0. < p < R.P_FLOOR:
        return [], 'not-judged'
    try:
        rb = call(name, f, t, p, bounds=True)
    except LibErr as e:
        return [('C15|%s|bounds=True-raises:%s|%s' % (name, type(e.exc).__name__, cls),
                 't2thermo.%s(%r, %r, bounds=True): %s; the reference range says inside = %s'
                 % (name, t, p, e, sorted(want)))], 'raised'
    gave = not novalue(rb)
    if gave not in want:
        if gave:
            return [('C15|%s|bounds=True-gives-value-outside-range|%s' % (name, cls),
                     't2thermo.%s(%r, %r, bounds=True) = %r but the state is outside the stated range (sat = %r, '
                     'b23p = %r)' % (name, t, p, rb, psat, pb))], 'accepts-outside'
        return [('C15|%s|bounds=True-gives-no-value-inside-range|%s' % (name, cls),
                 't2thermo.%s(%r, %r, bounds=True) gives no value but the state is inside the stated range (sat = %r, '
                 'b23p = %r)' % (name, t, p, psat, pb))], 'refuses-inside'
    if not gave:
        return [], 'outside'
    try:
        rn = call(name, f, t, p, bounds=False)
    except LibErr as e:
        return [('C15|%s|bounds=False-raises:%s|%s' % (name, type(e.exc).__name__, cls),
                 't2thermo.%s(%r, %r): %s' % (name, t, p, e))], 'raised'
    if rn != rb:
        return [('C15|%s|bounds=True-value-differs-from-bounds=False|%s' % (name, cls),
                 't2thermo.%s(%r, %r): %r with the range flag, %r without' % (name, t, p, rb, rn))], 'differs'
    return [], 'inside'


def chk_bounds_sat(T, t):
    cls = t_position(t)
    want = R.sat67_range(t)
    try:
        rb = call('sat', T.sat, t, bounds=True)
    except LibErr as e:
        return [('C15|sat|bounds=True-raises:%s|%s' % (type(e.exc).__name__, cls), 'sat(%r, bounds=True): %s' % (t, e))], \
            'raised'
    gave = rb is not None
    if gave not in want:
        return [('C15|sat|bounds=True-%s|%s' % ('gives-value-outside-range' if gave else 'gives-no-value-inside-range', cls),
                 't2thermo.sat(%r, bounds=True) = %r; stated range 0.01..374.15 degC' % (t, rb))], 'wrong'
    if not gave:
        return [], 'outside'
    try:
        rn = call('sat', T.sat, t, bounds=False)
    except LibErr as e:
        return [('C15|sat|bounds=False-raises:%s|%s' % (type(e.exc).__name__, cls), 'sat(%r): %s' % (t, e))], 'raised'
    if rn != rb:
        return [('C15|sat|bounds=True-value-differs-from-bounds=False|%s' % cls,
                 'sat(%r): %r with the range flag, %r without' % (t, rb, rn))], 'differs'
    return [], 'inside'


def tsat_ps(T, n):
    lo = float(T.sat(R.T_MIN))
    pts = {}
    for p in R.logspace(0.5 * lo, 1.2 * R.PCRIT67, n):
        pts[p] = True
    for v in (lo, R.PCRIT67):
        for x in R.around(v):
            pts[x] = True
    return lo, sorted(pts)


def chk_bounds_tsat(T, p, lo, count=None):
    cls = 'p' + position(p, [('sat(0.01)', lo), ('pc67', R.PCRIT67)])
    want = R.tsat67_range(p, lo)
    viols = []
    oc = None
    try:
        err, rb = with_remedy(T, count, 'tsat', T.tsat, p, bounds=True)
    except LibErr as e:
        return [('C15|tsat|raises:%s|bounds=True|%s' % (type(e.exc).__name__, cls),
                 'tsat(%r, bounds=True): %s; the reference range says inside = %s' % (p, e, sorted(want)))], 'raised'
    if err is not None:
        viols.append(('C15|tsat|raises:%s|bounds=True|%s' % (type(err.exc).__name__, cls),
                      'tsat(%r, bounds=True): %s; the reference range says inside = %s' % (p, err, sorted(want))))
        oc = 'raised'
        if rb is None and True in want:
            return viols, oc
    gave = rb is not None
    if gave not in want:
        viols.append(('C15|tsat|bounds=True-%s|%s' % ('gives-value-outside-range' if gave else
                                                      'gives-no-value-inside-range', cls),
                      't2thermo.tsat(%r, bounds=True) = %r; stated range sat(0.01) = %r .. 22.12 MPa' % (p, fl(rb), lo)))
        return viols, oc or 'wrong'
    if not gave:
        return viols, oc or 'outside'
    try:
        err2, rn = with_remedy(T, None, 'tsat', T.tsat, p, bounds=False)
    except LibErr as e:
        viols.append(('C15|tsat|raises:%s|bounds=False|%s' % (type(e.exc).__name__, cls), 'tsat(%r): %s' % (p, e)))
        return viols, 'raised'
    if err2 is not None:
        viols.append(('C15|tsat|raises:%s|bounds=False|%s' % (type(err2.exc).__name__, cls), 'tsat(%r): %s' % (p, err2)))
        if rn is None:
            return viols, 'raised'
    if rn is None or float(rn) != float(rb):
        viols.append(('C15|tsat|bounds=True-value-differs-from-bounds=False|%s' % cls,
                      'tsat(%r): %r with the range flag, %r without' % (p, fl(rb), fl(rn))))
        return viols, oc or 'differs'
    return viols, oc or 'inside'


# ----------------------------------------------------------------------------------------------------------
# (e) classifiers
# ----------------------------------------------------------------------------------------------------------

CURVE_MARGIN = 0.01


def chk_regions(T, I, t, p):
    """Returns (viols, outcome).  Judged only for t <= 350 or t > 374.15 and further than 1 % from every curve."""
    if R.T_13 < t <= R.TCRIT67_HI:
        return [], 'not-judged-between-350-and-tc67'
    curves = []
    try:
        if R.T_MIN <= t <= R.T_13:
            curves = [call('sat', T.sat, t), call('IAPWS97.sat', I.sat, t)]
        elif R.TCRIT67_HI < t <= R.T_23_END:
            curves = [call('b23p', T.b23p, t), call('IAPWS97.b23p', I.b23p, t)]
        for c in curves:
            if c is None:
                return [('C15|sat|no-value-inside-range|%s' % t_position(t), 'a curve is None at t = %r' % t)], 'none'
            if abs(p - float(c)) <= CURVE_MARGIN * float(c):
                return [], 'not-judged-near-curve'
        r67 = call('region', T.region, t, p)
        r97 = call('IAPWS97.region', I.region, t, p)
    except LibErr as e:
        return [('C15|%s|raises:%s|%s' % (e.site, type(e.exc).__name__, t_position(t)),
                 '%s at (t, p) = (%r, %r)' % (e, t, p))], 'raised'
    if r67 != r97:
        cls = '%s|p%s' % (t_position(t), position(p, [('0', 0.0), ('100MPa', R.P_MAX)]))
        return [('C15|region|classifiers-disagree|ifc67=%s,iapws97=%s|%s' % (r67, r97, cls),
                 't2thermo.region(%r, %r) = %r but IAPWS97.region = %r' % (t, p, r67, r97))], 'disagree'
    return [], 'agree-%s' % r67


# ----------------------------------------------------------------------------------------------------------
# (f) separated steam fraction
# ----------------------------------------------------------------------------------------------------------

H_GRID = [1.0e4 * k for k in range(351)]
P_GRID = [round(0.1 * k, 1) * 1.0e6 for k in range(1, 51)]
P_COARSE = [0.1e6] + [0.5e6 * k for k in range(1, 11)]


def chk_separator(T, p1, p2, hs=None, count=None):
    """All enthalpies of the grid for one separator configuration.  Returns (viols, outcome, number of enthalpies
    evaluated)."""
    stage = 'single-stage' if p2 is None else 'two-stage'
    viols = []
    prev = None
    n = 0
    raised = None
    for h in (hs or H_GRID):
        n += 1
        try:
            err, f = with_remedy(T, count, 'separated_steam_fraction', T.separated_steam_fraction, h, p1, p2)
        except LibErr as e:
            viols.append(('C15|separated_steam_fraction|raises:%s|%s' % (type(e.exc).__name__, stage),
                          'separated_steam_fraction(%r, %r, %r): %s' % (h, p1, p2, e)))
            return viols, 'raised', n
        if err is not None and raised is None:
            raised = err
            viols.append(('C15|separated_steam_fraction|raises:%s|%s' % (type(err.exc).__name__, stage),
                          'separated_steam_fraction(%r, %r, %r): %s' % (h, p1, p2, err)))
        if f is None:
            return viols, 'raised', n
        f = float(f)
        if not 0. <= f <= 1.:
            viols.append(('C15|separated_steam_fraction|outside-0-1|%s' % stage,
                          'separated_steam_fraction(%r, %r, %r) = %r' % (h, p1, p2, f)))
            return viols, 'outside-0-1', n
        if prev is not None and f < prev[1] - MONO_SLACK:
            viols.append(('C15|separated_steam_fraction|decreases-with-enthalpy|%s' % stage,
                          'separated_steam_fraction falls from %r (h = %r) to %r (h = %r) at P1 = %r, P2 = %r'
                          % (prev[1], prev[0], f, h, p1, p2)))
            return viols, 'decreases', n
        prev = (h, f)
    return viols, ('raised' if raised else 'ok'), n


# ----------------------------------------------------------------------------------------------------------
# (g) repeatability and order independence (WAVE3): a call's value may not depend on the calls before it
# ----------------------------------------------------------------------------------------------------------

HISTORY_H = 1.5e6       # enthalpy handed to separated_steam_fraction in the history sequences
HISTORY_P = (1.0e5, 1.0e6, 2.3e7, 5.0e7)


def fresh_libraries():
    """Restore isolation: re-execute both modules, as a new process would."""
    import importlib
    import t2thermo
    import IAPWS97
    importlib.reload(t2thermo)
    importlib.reload(IAPWS97)


def history_states(T, tier):
    """[((t, p), class)]: every limit / ulp-neighbour state of the bounds clause (all limit temperatures x all limit
    pressures), the end points of tsat, and a thinned (T, p) lattice reaching outside the ranges."""
    pts = {}
    ts = list(T_OUTSIDE)
    for n, v in T_LIMITS:
        ts += R.around(v)
    for t in ts:
        lim = p_limits(T, t)
        for n, v in lim:
            for p in R.around(v):
                pts[(t, p)] = '%s|p%s' % (t_position(t), position(p, lim))
    try:
        lo = float(T.sat(R.T_MIN))
    except Exception:
        lo = 611.2444
    for v in (lo, R.PCRIT67):
        for p in R.around(v):
            pts.setdefault((100., p), 'p' + position(p, [('sat(0.01)', lo), ('pc67', R.PCRIT67)]))
    for t in R.t_lattice(R.T_MAX, PARAMS[tier]['hist_tstep']):
        for p in HISTORY_P + (1.2 * R.P_MAX, 300.):
            pts.setdefault((t, p), 'lattice')
    return lo, sorted(pts.items())


def history_variants(T, I, t, p, lo):
    v = []
    for b in (False, True):
        v.append(('cowat(bounds=%s)' % b, lambda b=b: T.cowat(t, p, b)))
        v.append(('supst(bounds=%s)' % b, lambda b=b: T.supst(t, p, b)))
        v.append(('sat(bounds=%s)' % b, lambda b=b: T.sat(t, b)))
        if p > 0.:
            v.append(('tsat(bounds=%s)' % b, lambda b=b: T.tsat(p, b)))
    v.append(('region', lambda: T.region(t, p)))
    if lo <= p <= R.PCRIT67:
        v.append(('separated_steam_fraction', lambda: T.separated_steam_fraction(HISTORY_H, p)))
    v += [('IAPWS97.cowat', lambda: I.cowat(t, p)), ('IAPWS97.supst', lambda: I.supst(t, p)),
          ('IAPWS97.sat', lambda: I.sat(t)), ('IAPWS97.region', lambda: I.region(t, p))]
    return v


def chk_history(T, I, t, p, cls, lo=None):
    if lo is None:
        lo = float(T.sat(R.T_MIN))
    n, bad = R.history_pass(fresh_libraries, history_variants(T, I, t, p, lo), core.CaseTimeout)
    viols = []
    for name, prev, iso, got in bad:
        viols.append(('C15|%s|result-depends-on-earlier-calls|after=%s|%s' % (name, prev, cls),
                      'at (t, p) = (%r, %r): %s gives %s as the first call after a fresh import but %s when called '
                      'after %s (hex floats; the routines are pure functions)' % (t, p, name, iso, got, prev)))
    return viols, n


# ----------------------------------------------------------------------------------------------------------
# (h) order independence over the call lattice
# ----------------------------------------------------------------------------------------------------------

_ISO = {}


def isolated_values(tier):
    if tier not in _ISO:
        libs()
        with core.timelimit(3000):
            _ISO[tier] = K.isolated(fresh_libraries, libs, K.call_lattice(tier) + K.core_calls(tier), core.CaseTimeout)
    return _ISO[tier]


def chk_calls(tier, kind, a, b=None):
    """kind 'pairs': rows a..b of the call lattice - f twice, then g, f for every other call g.
    kind 'triples': every ordered triple of core calls that starts with core call a.
    Returns (viols with case, number of calls compared)."""
    iso = isolated_values(tier)
    run = K.Runner(fresh_libraries, libs, iso, core.CaseTimeout)
    if kind == 'pairs':
        calls = K.call_lattice(tier)
        for f in calls[a:b]:
            run.do(f)
            run.do(f)
            for g in calls:
                if g is not f:
                    run.do(g)
                    run.do(f)
    else:
        calls = K.core_calls(tier)
        f = calls[a]
        for g in calls:
            for h in calls:
                run.do(f)
                run.do(g)
                run.do(h)
    fresh_libraries()
    out = []
    for sig in sorted(run.bad):
        seq, spec, want, got, after = run.bad[sig]
        what = ('%s gives %s as the first call after a fresh import but %s after %s (hex floats; the routines are '
                'pure functions of their arguments)'
                % (K.fmt(spec), want, got, ', '.join(K.fmt(x) for x in seq[:-1]) if seq else
                   'a longer history (%s)' % after))
        case = ({'clause': 'calls', 'seq': seq} if seq else
                {'clause': 'calls-unit', 'tier': tier, 'kind': kind, 'a': a, 'b': b})
        out.append((sig, what, case))
    return out, run.n


# ----------------------------------------------------------------------------------------------------------
# units
# ----------------------------------------------------------------------------------------------------------

def sat_line(hi):
    ts = [R.T_MIN] + [k / 10. for k in range(1, int(math.floor(hi * 10. + 1e-9)) + 1)]
    if ts[-1] < hi:
        ts.append(hi)
    return ts


def sep_configs(tier):
    cfg = [(p1, None) for p1 in P_GRID]
    grid = P_GRID if PARAMS[tier]['two_stage'] == 'all' else P_COARSE
    # every ordered pair: the statement does not restrict the second stage to a lower pressure
    cfg += [(p1, p2) for p1 in grid for p2 in grid]
    return cfg


def units(tier):
    P = PARAMS[tier]
    us = []
    t1 = R.t_lattice(R.T_13, P['tstep'])
    t2 = R.t_lattice(R.T_MAX, P['tstep'])
    for ch in core.chunks(t1, P['tchunk']):
        us.append(('cmp', 'cowat', ch[0], ch[-1]))
    for ch in core.chunks(t2, 2 * P['tchunk']):
        us.append(('cmp', 'supst', ch[0], ch[-1]))
    us.append(('satcmp',))
    for ch in core.chunks(sat_line(R.TCRIT67_LO), 8):
        us.append(('tsatinv', ch[0], ch[-1]))
    bt = bounds_ts(P['btstep'])
    for ch in core.chunks(bt, P['tchunk']):
        us.append(('bounds', ch[0], ch[-1]))
    us.append(('bounds-sat',))
    us.append(('bounds-tsat',))
    n = len(history_states(libs()[0], tier)[1])
    step = 6 if tier == 'quick' else 12
    for a in range(0, n, step):
        us.append(('history', a, min(n, a + step)))
    cfg = sep_configs(tier)
    for k, ch in enumerate(core.chunks(list(range(len(cfg))), 48 if tier == 'thorough' else 16)):
        us.append(('separator', ch[0], ch[-1] + 1))
    nc = len(K.call_lattice(tier))
    for a in range(0, nc, P['callrows']):
        us.append(('call-pairs', a, min(nc, a + P['callrows'])))
    for a in range(len(K.core_calls(tier))):
        us.append(('call-triples', a))
    isolated_values(tier)       # once, before the workers are forked
    return us


def report(rec, key, viols, case, nontrivial=True, outcome=None):
    rec.case(key, nontrivial=nontrivial, outcome=outcome)
    for sig, what in viols:
        rec.violation(sig, what, case)


def sub(ts, lo, hi):
    return [t for t in ts if lo <= t <= hi]


def run_unit(unit, tier, rec):
    with core.timelimit(3000):
        _run_unit(unit, tier, rec)


def _run_unit(unit, tier, rec):
    T, I = libs()
    P = PARAMS[tier]
    W = R.Worst()
    kind = unit[0]
    if kind == 'cmp':
        name = unit[1]
        ts = sub(R.t_lattice(R.T_13 if name == 'cowat' else R.T_MAX, P['tstep']), unit[2], unit[3])
        n = 0
        for t in ts:
            try:
                if name == 'cowat':
                    plist = liquid_pressures(T, I, t, P['npres'])
                    pmax = R.P_MAX
                else:
                    pmax = steam_pmax(T, I, t)
                    plist = steam_pressures(T, I, t, P['npres'])
            except (LibErr, TypeError) as e:
                rec.violation('C15|sat|no-value-or-raises-inside-range|lattice-curve',
                              'a curve needed to build the %s lattice failed at t = %r: %s' % (name, t, e),
                              {'clause': 'curve', 't': t})
                rec.case(('cmp', name, t), outcome='cmp-no-lattice')
                continue
            for p in plist:
                v, m, oc = chk_state(T, I, name, t, p, pmax)
                W.add(m)
                report(rec, ('cmp', name, t, p), v, {'clause': 'state', 'routine': name, 't': t, 'p': p, 'pmax': pmax},
                       True, 'cmp-%s-%s' % (name, oc))
                n += 1
        rec.sample({'clause': 'compare+identity', 'routine': name, 'isotherms': len(ts), 'states': n,
                    'first_t': ts[0], 'last_t': ts[-1]})
    elif kind == 'satcmp':
        for t in sat_line(R.TCRIT97):
            v, m, oc = chk_sat_cmp(T, I, t)
            W.add(m)
            report(rec, ('satcmp', t), v, {'clause': 'satcmp', 't': t}, True, 'satcmp-' + oc)
    elif kind == 'tsatinv':
        for t in sub(sat_line(R.TCRIT67_LO), unit[1], unit[2]):
            v, m, oc = chk_tsat_inv(T, t, rec.count)
            W.add(m)
            report(rec, ('tsatinv', t), v, {'clause': 'tsatinv', 't': t}, True, 'tsatinv-' + oc)
    elif kind == 'bounds':
        ts = sub(bounds_ts(P['btstep']), unit[1], unit[2])
        for t in ts:
            for p in bounds_ps(T, t, P['bnpres']):
                for name in ('cowat', 'supst'):
                    v, oc = chk_bounds_tp(T, name, t, p)
                    report(rec, ('bounds', name, t, p), v, {'clause': 'bounds_tp', 'routine': name, 't': t, 'p': p},
                           oc != 'not-judged', 'bounds-%s-%s' % (name, oc))
                v, oc = chk_regions(T, I, t, p)
                report(rec, ('regions', t, p), v, {'clause': 'regions', 't': t, 'p': p},
                       not oc.startswith('not-judged'), 'regions-' + oc)
        rec.sample({'clause': 'bounds+regions', 'temperatures': ts[:3], 'pressures_at_first': bounds_ps(T, ts[0], 4)})
    elif kind == 'bounds-sat':
        for t in bounds_ts(P['btstep']):
            v, oc = chk_bounds_sat(T, t)
            report(rec, ('bounds-sat', t), v, {'clause': 'bounds_sat', 't': t}, True, 'bounds-sat-' + oc)
    elif kind == 'bounds-tsat':
        try:
            lo, ps = tsat_ps(T, P['ntsat'])
        except TypeError:
            rec.violation('C15|sat|no-value-or-raises-inside-range|lattice-curve',
                          'sat(0.01) is needed as the lower limit of tsat and has no value', {'clause': 'curve', 't': R.T_MIN})
            lo, ps = None, []
        for p in ps:
            v, oc = chk_bounds_tsat(T, p, lo, rec.count)
            report(rec, ('bounds-tsat', p), v, {'clause': 'bounds_tsat', 'p': p}, True, 'bounds-tsat-' + oc)
    elif kind == 'history':
        lo, sts = history_states(T, tier)
        sts = sts[unit[1]:unit[2]]
        n = 0
        for (t, p), cls in sts:
            v, n = chk_history(T, I, t, p, cls, lo)
            rec.bulk(n, [('history', t, p, k) for k in range(n)],
                     outcome='history-' + ('ok' if not v else 'differs'))
            for sig, what in v:
                rec.violation(sig, what, {'clause': 'history', 't': t, 'p': p, 'cls': cls})
        rec.sample({'clause': 'history', 'states': len(sts), 'first': sts[0][0], 'calls_at_last_state': n})
    elif kind == 'separator':
        cfg = sep_configs(tier)[unit[1]:unit[2]]
        for p1, p2 in cfg:
            v, oc, n = chk_separator(T, p1, p2, None, rec.count)
            stage = 'single' if p2 is None else 'two'
            rec.bulk(n, [('sep', p1, p2, h) for h in H_GRID[:n]], outcome='separator-%s-%s' % (stage, oc))
            for sig, what in v:
                rec.violation(sig, what, {'clause': 'separator', 'p1': p1, 'p2': p2})
        rec.sample({'clause': 'separator', 'configurations': len(cfg), 'first': cfg[0], 'enthalpies': len(H_GRID)})
    elif kind in ('call-pairs', 'call-triples'):
        k2 = kind[5:]
        v, n = chk_calls(tier, k2, unit[1], unit[2] if k2 == 'pairs' else None)
        rec.bulk(n, [(kind, unit[1], k) for k in range(n)], outcome='calls-%s-%s' % (k2, 'ok' if not v else 'differs'))
        for sig, what, case in v:
            rec.violation(sig, what, case)
        rec.sample({'clause': kind, 'unit': list(unit[1:]), 'calls_compared': n,
                    'first_call': (K.call_lattice(tier) if k2 == 'pairs' else K.core_calls(tier))[unit[1]]})
    else:
        raise core.HarnessError('unknown unit %r' % (unit,))
    W.flush(rec)


def finalize(rec, tier):
    u, sg, rest = R.collect(rec.notes)
    rec.notes[:] = rest
    if CAL:
        R.print_calibration(u, sg)
    ev = R.evidence_of(u, sg)
    if 'tsat67_inv' in ev:
        ev['tsat67_inv']['tolerance'] = TSAT_TOL
    return {'measured_against_tolerance': ev, 'calibration_mode': CAL}


def replay(case):
    T, I = libs()
    c = case['clause']
    if c == 'state':
        return chk_state(T, I, case['routine'], case['t'], case['p'], case['pmax'])[0]
    if c == 'satcmp':
        return chk_sat_cmp(T, I, case['t'])[0]
    if c == 'tsatinv':
        return chk_tsat_inv(T, case['t'])[0]
    if c == 'bounds_tp':
        return chk_bounds_tp(T, case['routine'], case['t'], case['p'])[0]
    if c == 'bounds_sat':
        return chk_bounds_sat(T, case['t'])[0]
    if c == 'bounds_tsat':
        return chk_bounds_tsat(T, case['p'], float(T.sat(R.T_MIN)))[0]
    if c == 'regions':
        return chk_regions(T, I, case['t'], case['p'])[0]
    if c == 'history':
        return chk_history(T, I, case['t'], case['p'], case['cls'])[0]
    if c == 'separator':
        return chk_separator(T, case['p1'], case['p2'])[0]
    if c == 'calls':
        return K.replay_case(fresh_libraries, libs, case['seq'], core.CaseTimeout)
    if c == 'calls-unit':
        return [(sig, what) for sig, what, _ in chk_calls(case['tier'], case['kind'], case['a'], case['b'])[0]]
    if c == 'curve':
        try:
            steam_pmax(T, I, case['t'])
            liquid_pressures(T, I, case['t'], 2) if case['t'] <= R.T_13 else None
        except (LibErr, TypeError) as e:
            return [('C15|sat|no-value-or-raises-inside-range|lattice-curve', str(e))]
        return []
    raise core.HarnessError('unknown clause %r' % c)
