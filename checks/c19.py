"""C19 - transfers between geometries: block_mapping, t2incon.transfer_from, t2data.transfer_from.

Space: every ordered pair (identity pairs included) of a family of 12 geometries over one 5000 x 4000 x 3000 m
region x all 3 x 3 source/target atmosphere types x naming conventions (all 16 pairs where both sides are
rectangular-built, 4 where one side is the shipped g7) x 1..5 primary variables, crossed completely; for the
model transfer every geometry x atmosphere type x convention x 26 generator sets (x 3 generator namings for 11 of
them) x preserve totals x rename.
Oracle: the property statement against ref/mapmodel.py (all distances computed, ties accepted).
"""
import contextlib
import io
import math
import os
import sys

from mc import core
from ref import mapmodel as mm

ID = 'C19'
LEVEL = 'exploration'
ENGINE = 'E2'
EXHAUSTIVE = True
RULE = ('(wave 7: per mapping case at 2 variables, each state representation: transfer, give every variable of every block of the result its own value in place, then the result blocks / the source / a transfer of an equal fresh source / the edited result must each show what they should - 4 clauses reported separately; edit units: base geometry x convention x 18 edits made by the library itself (rename_column first/middle/last/cycled/reversed/each, rename_layer atm/first/middle/last/cycled, delete+add column first/middle/all reversed, delete column, two combined) x role (same object, equal copy, source of / target of each partner incl. the unedited base) x 3 x 3 atmosphere types, same oracle + identity on equal grids) (wave 4: sources carrying none / porosity / + permeability / + nseq,nadd, compared as whole block states; '
        'source block order geometry / reversed; per pair a history map, map again, translate and rotate the source, then '
        'the target, in place, each judged against the reference recomputed) (wave 3: source states as lists / ndarrays / set through inc.variable; second transfer with the mappings '
        'passed in; model cases with empty lists left at their defaults, alone and after a primer call with other '
        'top/bottom lists; arguments compared before/after) mapping cases: ordered pair of family geometries (incl. identity: same object and an equal copy) x source '
        'atmosphere type x target atmosphere type x (source, target) naming convention; every target block is one '
        'comparison against the brute-force image set; incon cases: each mapping case x 1..5 primary variables with '
        'values distinct per source block and variable; model cases: geometry x atmosphere x convention x generator set '
        '(top/bottom listed or not, interior; constant/table/enthalpy table/HEAT/DELV; and all 25 together) x '
        'preserve_generation_totals x rename_generators; a case is non-trivial when source and target differ in '
        'geometry, atmosphere type or convention, or carry >= 1 generator; distinct = distinct case tuple')
ASSUMPTIONS = [
    'family: A 5x4x5 rectangular, B 10x8x10 (nested in A: centre ties), C 4x5x6 (not nested), D = A with 4 columns '
    'refined, E = A with 2 layers refined, F = A shifted by (300,-200,100), G = A with lowered surfaces (a layer down / '
    'mid second layer), H = B with a stepped slope surface, I = shipped tests/mulgrid/g7.dat, J = g7 with its SW '
    'corner refined, K = A\'s columns with layers 120/300/1200/500/880 m, L = K with every layer refined by 3',
    'a nearest column/layer is any within 1e-9 (relative to the region size) of the smallest computed distance',
    'atmosphere images are asserted only when the source has atmosphere blocks; target type 0 <- source type 1 '
    'accepts any source atmosphere block',
    'block names are decoded through the library\'s own block_name()/layer/column tables (naming is C17\'s subject)',
    'initial conditions are built in the source geometry\'s block order (atmosphere blocks first) and, at 2 '
    'variables, also in reversed order (a t2incon is keyed by block name; its order is not part of the statement)',
    'model transfer is asserted on identical geometries only (statement); a listed top (bottom) category is only given '
    'to generators in the top (bottom) block of a column; generator names are <column of the block><category> '
    '(canonical), <another column><category> or <no column><category>; the name is expected to be kept, except that '
    'top/bottom generators always, and the others under rename_generators, get the canonical name (docstring of '
    'transfer_generators_from: "renamed according to their new column names")',
    'the incon-FILE route of t2data.transfer_from is explored only for geometries all of whose block names satisfy '
    'mulgrids.valid_blockname() (t2incon.read() refuses other names by design, e.g. letter layer names of conventions 1-3)',
    'refine() names its new columns in address-hashed set order: cases are identified by family letters, never by names']
BOUNDS = {'quick': {'geometries': 'A B G J K L (36 ordered pairs)', 'atmosphere': '3 x 3', 'conventions': '(0,0) (0,1) (2,3)',
                    'variables': '1..5', 'model': 'A, G x 3 atmosphere x conventions 0, 2 x (26 + 11 x 2) generator sets x 2 x 2',
                    'edited geometries': 'bases A (conventions 0, 2), J x 18 edits x (self, copy, as source / target of base, B, C '
                                         '(J: base, A)) x 3 x 3 atmosphere',
                    'result edited in place': 'every mapping case at 2 variables x list / array / setvar states'},
          'thorough': {'geometries': 'A..L (144 ordered pairs)', 'atmosphere': '3 x 3', 'conventions': 'all 16 (4 with g7/J)',
                       'variables': '1..5', 'model': 'A..L x 3 atmosphere x 4 conventions (1 for g7/J) x (26 sets canonical names + 11 sets x 2 '
                                'non-canonical namings) x 2 x 2',
                       'edited geometries': 'bases A, G, K (4 conventions), J x 18 edits x (self, copy, as source / target of base, '
                                            'B, C, L, J (J: base, A, B, I)) x 3 x 3 atmosphere',
                       'result edited in place': 'every mapping case at 2 variables x list / array / setvar states'}}
TECHNIQUE = ('exhaustive enumeration of geometry pairs x atmosphere arrangements x conventions through the real '
             'block_mapping / transfer_from code against a brute-force nearest-centre reference')
LEVEL_TEXT = ('Every ordered pair of the family, every one of the 9 atmosphere combinations and every convention pair is '
              'mapped by the real code and each target block is compared with the set of images the statement allows, '
              'computed by brute force; initial conditions and generators are transferred for each and compared value by value.')
LEVEL_NOTE = ('The family is 10 fixed geometries over one region, not arbitrary geometries; ties are accepted either way.')

FAMILY = 'ABCDEFGHIJKL'
RECT = 'ABCDEFGHKL'
G7FILE = os.path.join(core.REPO, 'tests', 'mulgrid', 'g7.dat')
DEFAULT_ATM = [1.013e5, 20.]


def quiet():
    return contextlib.redirect_stdout(io.StringIO())


# ---------------------------------------------------------------------------------------------- geometries

_cache = {}


def deep(obj):
    from copy import deepcopy
    old = sys.getrecursionlimit()
    sys.setrecursionlimit(100000)
    try:
        return deepcopy(obj)
    finally:
        sys.setrecursionlimit(old)


def build(gid, conv):
    """Family geometry gid with naming convention conv (g7-based: the file's own convention 0)."""
    import numpy as np
    from mulgrids import mulgrid
    with quiet():
        if gid in 'ADEFG':
            geo = mulgrid().rectangular([1000.] * 5, [1000.] * 4, [600.] * 5, convention=conv, atmos_type=1)
        elif gid in 'BH':
            geo = mulgrid().rectangular([500.] * 10, [500.] * 8, [300.] * 10, convention=conv, atmos_type=1)
        elif gid in 'KL':
            # strongly non-uniform layers: centres of uniform layers fall inside a thick layer but nearer
            # the centre of the thin layer next to it
            geo = mulgrid().rectangular([1000.] * 5, [1000.] * 4, [120., 300., 1200., 500., 880.],
                                        convention=conv, atmos_type=1)
        elif gid == 'C':
            geo = mulgrid().rectangular([1250.] * 4, [800.] * 5, [500.] * 6, convention=conv, atmos_type=1)
        else:
            geo = mulgrid(G7FILE)
        if gid == 'D':
            geo.refine([geo.columnlist[k] for k in (0, 1, 5, 6)])
        elif gid == 'E':
            geo.refine_layers([geo.layerlist[2], geo.layerlist[3]])
        elif gid == 'F':
            geo.translate(np.array([300., -200., 100.]))
        elif gid == 'G':
            for k, col in enumerate(geo.columnlist):
                if k % 3 == 0:
                    col.surface = geo.layerlist[1].bottom
                elif k % 3 == 1:
                    col.surface = geo.layerlist[2].centre
                geo.set_column_num_layers(col)
        elif gid == 'H':
            for k, col in enumerate(geo.columnlist):
                i, j = k % 10, k // 10
                col.surface = -(i + j) * 75.0
                geo.set_column_num_layers(col)
        elif gid == 'L':
            geo.refine_layers(factor=3)
        elif gid == 'J':
            geo.refine([c for c in geo.columnlist if c.centre[0] < 2000. and c.centre[1] < 2000.])
        geo.setup_block_name_index()
        geo.setup_block_connection_name_index()
    return geo


def geometry(gid, conv, slot):
    """Cached per worker; slot 0 = source objects, 1 = target objects (an equal but separate object:
    a deep copy of the source object, so that refined geometries have the same names)."""
    if gid in 'IJ':
        conv = 0
    key = (gid, conv, slot)
    if key not in _cache:
        if slot == 0:
            _cache[key] = build(gid, conv)
        else:
            _cache[key] = deep(geometry(gid, conv, 0))
    return _cache[key]


def set_atm(geo, t):
    if geo.atmosphere_type != t:
        with quiet():
            geo.atmosphere_type = t


def plain(geo):
    """Reduce a geometry to the reference model's data + name tables."""
    cols = [(c.name, (float(c.centre[0]), float(c.centre[1])), float(c.surface)) for c in geo.columnlist]
    lays = [(l.name, float(l.centre), float(l.bottom)) for l in geo.layerlist[1:]]
    atm_layer = geo.layerlist[0].name
    under = {}          # block name -> (layer index, column index)
    for li, l in enumerate(lays):
        for ci, c in enumerate(cols):
            if c[2] > l[2]:
                name = geo.block_name(l[0], c[0])
                if name in under:
                    raise core.HarnessError('block name %r is not unique' % name)
                under[name] = (li, ci)
    atm = {}            # atmosphere block name -> column index or None
    if geo.atmosphere_type == 0:
        atm[geo.block_name(atm_layer, geo.atmosphere_column_name)] = None
    elif geo.atmosphere_type == 1:
        for ci, c in enumerate(cols):
            atm[geo.block_name(atm_layer, c[0])] = ci
    names = list(geo.block_name_list)
    if set(names) != set(under) | set(atm) or len(names) != len(under) + len(atm):
        raise core.HarnessError('block name list of the geometry differs from layers x columns below ground')
    xs = [c[1][0] for c in cols] + [c[1][1] for c in cols]
    zs = [l[1] for l in lays] + [l[2] for l in lays]
    return {'cols': cols, 'lays': lays, 'under': under, 'atm': atm, 'names': names,
            'scale_xy': max(abs(v) for v in xs), 'scale_z': max(abs(v) for v in zs), 'type': geo.atmosphere_type}


# ---------------------------------------------------------------------------------------------- mapping cases

CONV_QUICK = [(0, 0), (0, 1), (2, 3)]


def conv_pairs(s, t, tier):
    sr, tr = s in RECT, t in RECT
    if sr and tr:
        return CONV_QUICK if tier == 'quick' else [(a, b) for a in range(4) for b in range(4)]
    if sr:
        return [(a, 0) for a in ((0, 2) if tier == 'quick' else range(4))]
    if tr:
        return [(0, b) for b in ((0, 1) if tier == 'quick' else range(4))]
    return [(0, 0)]


def units(tier):
    fam = 'ABGJKL' if tier == 'quick' else FAMILY
    us = [('map', s, t) for s in fam for t in fam]
    gens = 'AG' if tier == 'quick' else FAMILY
    us += [('model', g, conv) for g in gens
           for conv in ([0] if g in 'IJ' else ([0, 2] if tier == 'quick' else [0, 1, 2, 3]))]
    us += [('edit', g, conv) for g in ('AJ' if tier == 'quick' else 'AGJK')
           for conv in ([0] if g in 'IJ' else ([0, 2] if tier == 'quick' else [0, 1, 2, 3]))]
    return us


def surface_class(ps):
    top = ps['lays'][0][2]
    return 'lowered' if any(c[2] <= top for c in ps['cols']) else 'full'


_mappers = {}


def mapper(src, tgt, ps, pt):
    """The brute-force nearest sets depend on column and layer positions only, not on atmosphere type or names:
    computed once per pair of (cached) geometry objects."""
    key = (id(src), id(tgt))
    if key not in _mappers:
        _mappers[key] = mm.Mapper(pt['cols'], pt['lays'], ps['cols'], ps['lays'],
                                  ps['scale_xy'], ps['scale_z'])
    return _mappers[key]


_plains = {}


def plain_of(geo):
    key = (id(geo), geo.atmosphere_type)
    if key not in _plains:
        _plains[key] = plain(geo)
    return _plains[key]


def check_mapping(mapping, ps, pt, same, mp):
    """Returns (clause, what, class-suffix) or None.  ps/pt = plain(source), plain(target)."""
    atmclass = 'atm %d->%d' % (ps['type'], pt['type'])
    for name in pt['names']:
        is_atm = name in pt['atm']
        if name not in mapping:
            if is_atm and ps['type'] == 2:
                continue
            return ('not-total', 'target block %r has no image' % name, atmclass if is_atm else 'underground')
        img = mapping[name]
        if is_atm:
            if ps['type'] == 2:
                continue
            if img not in ps['atm']:
                return ('atmosphere-image', 'atmosphere block %r is mapped to %r, not an atmosphere block of the source'
                        % (name, img), atmclass)
            if ps['type'] == 1 and pt['type'] == 1:
                ci = pt['atm'][name]
                near = mp.near_columns(ci)
                if ps['atm'][img] not in near:
                    return ('atmosphere-image', 'atmosphere block %r over column %r is mapped to %r, over source column '
                            '%r; nearest source column(s) %r' % (name, pt['cols'][ci][0], img,
                                                                   ps['cols'][ps['atm'][img]][0],
                                                                   [ps['cols'][k][0] for k in near]), atmclass)
            continue
        if img not in ps['under']:
            return ('image-not-in-source', 'block %r is mapped to %r, which is not an underground block of the source'
                    % (name, img), 'source-surface=' + surface_class(ps))
        li, ci = pt['under'][name]
        ok = mp.images(li, ci)
        got = ps['under'][img]
        if got not in ok:
            near = mp.near_columns(ci)
            clause = 'column-not-nearest' if got[1] not in near else 'layer'
            return (clause, 'block %r (layer %r, column %r) is mapped to %r = source layer %r, column %r; allowed: %r'
                    % (name, pt['lays'][li][0], pt['cols'][ci][0], img, ps['lays'][got[0]][0], ps['cols'][got[1]][0],
                       sorted((ps['lays'][a][0], ps['cols'][b][0]) for a, b in ok)[:4]),
                    'source-surface=' + surface_class(ps))
        if same and img != name:
            return ('identity', 'self-mapping sends %r to %r' % (name, img), 'underground')
    if same and ps['type'] == pt['type']:
        for name in pt['atm']:
            if mapping.get(name) != name:
                return ('identity', 'self-mapping sends atmosphere block %r to %r' % (name, mapping.get(name)), atmclass)
    return None


STATES = ('list', 'array', 'setvar')


EXTRAS = ('none', 'porosity', 'permeability', 'nseq')     # cumulative: each level adds to the one before


def make_incon(ps, nvar, states='list', extra='porosity', order='geometry'):
    """Source initial conditions; the states are held as lists (constructor), as one float ndarray per block, or
    set through the documented `inc.variable = <2-D array>` (every block then holds a row view of that array)."""
    import numpy as np
    from t2incons import t2incon, t2blockincon
    inc = t2incon()
    lvl = EXTRAS.index(extra)
    items = list(enumerate(ps['names']))
    if order == 'reversed':                 # a legal t2incon need not list its blocks in geometry order
        items.reverse()
    for k, name in items:
        inc[name] = t2blockincon([1000.0 * (k + 1) + v + 0.5 for v in range(nvar)], block=name,
                                 porosity=(0.01 + 1e-5 * k) if lvl >= 1 else None,
                                 permeability=np.array([1e-15 * (k + 1), 2e-15 * (k + 1), 1e-16 * (k + 2)]) if lvl >= 2 else None,
                                 nseq=(k % 7 + 1) if lvl >= 3 else None, nadd=(k + 1) if lvl >= 3 else None)
    if states == 'array':
        for b in inc:
            b.variable = np.array(b.variable, dtype=float)
    elif states == 'setvar':
        inc.variable = np.array([list(b.variable) for b in inc], dtype=float)
    return inc


def block_state(b):
    """The whole state of one t2blockincon: variables, porosity, permeability, nseq, nadd."""
    perm = None if b.permeability is None else tuple(float(v) for v in b.permeability)
    return (b.block, tuple(float(v) for v in b.variable), b.porosity, perm, b.nseq, b.nadd)


def snapshot(inc):
    return [block_state(b) for b in inc]


def same_extras(b, srcstate):
    got = block_state(b)
    for k, field in ((2, 'porosity'), (3, 'permeability'), (4, 'nseq'), (5, 'nadd')):
        if got[k] != srcstate[k]:
            return '%s %r, its source block %r has %r' % (field, got[k], srcstate[0], srcstate[k])
    return None


def state_sets(nvar, full):
    """(representation of the states, optional fields carried, block order of the source) per variable count."""
    out = [('list', 'porosity', 'geometry')]
    if nvar == 2 or (full and nvar in (1, 5)):
        out += [(st, 'porosity', 'geometry') for st in STATES[1:]]
    if nvar == 2 or (full and nvar == 5):
        out += [('list', ex, 'geometry') for ex in EXTRAS if ex != 'porosity']
        out += [('list', 'nseq', 'reversed'), ('setvar', 'permeability', 'reversed')]
    return out


def check_incon(new, src_before, src_after, ps, pt, nvar, mp):
    atmclass = 'atm %d->%d' % (ps['type'], pt['type'])
    if src_before != src_after:
        return ('source-altered', 'the source initial conditions changed during the transfer', atmclass)
    got = [b.block for b in new]
    if sorted(got) != sorted(pt['names']):
        return ('block-set', 'transferred initial conditions have %d blocks (e.g. %r), target geometry has %d'
                % (len(got), sorted(set(got) ^ set(pt['names']))[:4], len(pt['names'])), atmclass)
    state = dict((b[0], b) for b in src_before)
    byvar = dict((b[1], b[0]) for b in src_before)
    for name in pt['names']:
        b = new[name]
        var = tuple(b.variable)
        if name in pt['atm']:
            if ps['type'] == 0:
                want, how = state[ps['names'][0]][1], 'copy of the source atmosphere block'
            elif ps['type'] == 2:
                want, how = tuple(DEFAULT_ATM), 'default atmosphere state'
            elif pt['type'] == 0:
                want = tuple(mm.mean_vectors([state[n][1] for n in ps['names'] if n in ps['atm']]))
                how = 'average over the source atmosphere blocks'
            else:
                src = byvar.get(var)
                near = mp.near_columns(pt['atm'][name])
                if src is None or src not in ps['atm'] or ps['atm'][src] not in near:
                    return ('atmosphere-state', 'atmosphere block %r got state %r (source block %r), not that of the '
                            'atmosphere block over a nearest source column' % (name, var, src), atmclass)
                bad = same_extras(b, state[src])
                if bad:
                    return ('atmosphere-state', 'atmosphere block %r got %s' % (name, bad), atmclass + ',optional-fields')
                continue
            if len(var) != len(want) or any(abs(a - w) > 1e-12 * abs(w) for a, w in zip(var, want)):
                return ('atmosphere-state', 'atmosphere block %r got state %r, expected the %s %r'
                        % (name, var, how, want), atmclass)
            if ps['type'] == 0:
                bad = same_extras(b, state[ps['names'][0]])
                if bad:
                    return ('atmosphere-state', 'atmosphere block %r got %s' % (name, bad), atmclass + ',optional-fields')
            continue
        src = byvar.get(var)
        if src is None:
            return ('underground-state', 'block %r got state %r, which no source block has' % (name, var), 'nvar=%d' % nvar)
        li, ci = pt['under'][name]
        ok = mp.images(li, ci)
        if src not in ps['under'] or ps['under'][src] not in ok:
            return ('underground-state', 'block %r got the state of source block %r, not of a nearest block' % (name, src),
                    'source-surface=' + surface_class(ps))
        bad = same_extras(b, state[src])
        if bad:
            return ('underground-state', 'block %r got %s' % (name, bad), 'optional-fields')
    return None


def edited_value(k, i):
    """The value written into variable i of the k-th block of a result: distinct per (block, variable) and
    different from every value a source or the default atmosphere state holds."""
    return -(1000.0 * (k + 1) + i + 0.25)


def check_result_edit(src, tgt, ps, pt, nvar, states, atmclass, sfx, what, rec=None):
    """No interference between results (wave 7): transfer; edit EVERY variable of EVERY block of the result in place
    (through the documented blk[i] = value; defaulted / broadcast / averaged atmosphere blocks included); then
      * every block of the result shows the values written into IT (no two result blocks share their state),
      * the source shows what it showed before (a result does not share its state with the source),
      * a transfer of an equal, freshly built source between the same geometries gives what the first gave,
      * and that later transfer leaves the edited first result as it was.
    Every clause is reported on its own (they have independent causes).  Returns list of (sig, what)."""
    from t2incons import t2incon
    out = []
    tag = atmclass + sfx + ',after=result-edited'
    inc = make_incon(ps, nvar, states)
    before = snapshot(inc)
    new = t2incon()
    try:
        with quiet():
            with core.timelimit(120):
                new.transfer_from(inc, src, tgt)
        first = snapshot(new)
        want = []
        for k, b in enumerate(new):
            for i in range(len(b.variable)):
                b[i] = edited_value(k, i)
            st = first[k]
            want.append((st[0], tuple(edited_value(k, i) for i in range(len(st[1])))) + st[2:])
        shown = snapshot(new)
        if shown != want:
            bad = [(w[0], g[1]) for w, g in zip(want, shown) if w != g][:1]
            out.append(('C19|t2incon.transfer_from|result-blocks-share-state|' + tag,
                        '%s: after every block of the result was given its own values in place, block %r shows %r, the '
                        'values written into another block' % (what, bad[0][0], bad[0][1])))
        if snapshot(inc) != before:
            out.append(('C19|t2incon.transfer_from|result-shares-state-with-source|' + tag,
                        '%s: editing the blocks of the result in place changed the source initial conditions' % what))
        inc2 = make_incon(ps, nvar, states)
        again = t2incon()
        with quiet():
            with core.timelimit(120):
                again.transfer_from(inc2, src, tgt)
        if rec is not None:
            rec.count('incon_transfers_after_result_edited', 1)
            rec.count('blocks_compared', 3 * len(pt['names']))
        second = snapshot(again)
        if second != first:
            bad = [(a, b) for a, b in zip(first, second) if a != b][:1]
            out.append(('C19|t2incon.transfer_from|second-call-differs|' + tag,
                        '%s: after the first result was edited in place, a transfer of an equal fresh source gives %r '
                        'where the first transfer gave %r' % (what, bad[0][1][:2] if bad else len(second),
                                                              bad[0][0][:2] if bad else len(first))))
        if snapshot(new) != shown:
            out.append(('C19|t2incon.transfer_from|first-result-altered|' + tag,
                        '%s: the later transfer changed the (edited) result of the first' % what))
    except core.CaseTimeout:
        out.append(('C19|t2incon.transfer_from|timeout|' + tag, 'transfer_from did not return within 120 s'))
    except Exception as e:
        out.append(('C19|t2incon.transfer_from|exception:%s|%s' % (type(e).__name__, tag), '%s raised %r' % (what, e)))
    return out


def run_map_case(s, t, cs, ct, ats, att, variant, rec=None, full=False):
    """One (pair, conventions, atmosphere types) case: mapping + incon transfers for 1..5 variables.
    variant: 'copy' (separate objects) or 'self' (the same object as source and target).
    Returns list of (sig, what)."""
    from t2incons import t2incon
    out = []
    src = geometry(s, cs, 0)
    if variant == 'self':
        tgt = src
    else:
        tgt = geometry(t, ct, 1 if (s == t and (cs == ct or s in 'IJ')) else 0)
        if tgt is src:
            tgt = geometry(t, ct, 1)
    set_atm(src, ats)
    set_atm(tgt, att)
    ps, pt = plain_of(src), plain_of(tgt)
    same = (s == t and ps['names'] == pt['names'] and (cs == ct or s in 'IJ'))
    atmclass = 'atm %d->%d' % (ats, att)
    mp = mapper(src, tgt, ps, pt)
    mapping = None
    try:
        with quiet():
            with core.timelimit(120):
                mapping, colmap = src.block_mapping(tgt, True)
    except core.CaseTimeout:
        out.append(('C19|block_mapping|timeout|' + atmclass, 'block_mapping did not return within 120 s'))
    except Exception as e:
        out.append(('C19|block_mapping|exception:%s|%s' % (type(e).__name__, atmclass),
                    'block_mapping(%s -> %s) raised %r' % (s, t, e)))
    if mapping is not None:
        r = check_mapping(mapping, ps, pt, same, mp)
        if rec is not None:
            rec.count('blocks_compared', len(pt['names']))
            rec.count('mappings', 1)
        if r is not None:
            out.append(('C19|block_mapping|%s|%s' % (r[0], r[2]), '%s -> %s: %s' % (s, t, r[1])))
    given = None
    if mapping is None:
        # block_mapping failed (reported above).  So that the failure does not hide the atmosphere handling of
        # the incon transfer behind it, the transfer is also explored with the mappings GIVEN (an argument
        # transfer_from accepts): those of the same target without atmosphere blocks, which cover every
        # underground block and every column.
        try:
            with quiet():
                set_atm(tgt, 2)
                given = src.block_mapping(tgt, True)
        except Exception:
            given = None
        finally:
            set_atm(tgt, att)
    stop = False
    for nvar in range(1, 6):
        for states, extra, order in state_sets(nvar, full):
            inc = make_incon(ps, nvar, states, extra, order)
            before = snapshot(inc)
            new = t2incon()
            sfx = '' if states == 'list' else ',states=' + states
            if order != 'geometry':
                sfx += ',source-order=' + order
            try:
                with quiet():
                    with core.timelimit(120):
                        new.transfer_from(inc, src, tgt)
            except core.CaseTimeout:
                out.append(('C19|t2incon.transfer_from|timeout|' + atmclass + sfx, 'transfer_from did not return within 120 s'))
                stop = True
                break
            except Exception as e:
                out.append(('C19|t2incon.transfer_from|exception:%s|%s' % (type(e).__name__, atmclass + sfx),
                            'transfer_from(%s -> %s, %d variables, %s states) raised %r' % (s, t, nvar, states, e)))
                if rec is not None:
                    rec.count('incon_raised', 1)
                stop = True
                break
            first = snapshot(new)
            r = check_incon(new, before, snapshot(inc), ps, pt, nvar, mp)
            if rec is not None:
                rec.count('blocks_compared', len(pt['names']))
                rec.count('incon_transfers', 1)
            if r is not None:
                out.append(('C19|t2incon.transfer_from|%s|%s' % (r[0], r[2] + sfx),
                            '%s -> %s, %d variables, %s states: %s' % (s, t, nvar, states, r[1])))
                stop = True
                break
            # repeatability and arguments: a second transfer from the same source, this time with the
            # mappings passed in, gives the same result and leaves source and mappings as they were
            if mapping is not None and nvar == 2 and extra == 'porosity' and order == 'geometry':
                m0, c0 = dict(mapping), dict(colmap)
                again = t2incon()
                try:
                    with quiet():
                        with core.timelimit(120):
                            again.transfer_from(inc, src, tgt, mapping, colmap)
                except Exception as e:
                    out.append(('C19|t2incon.transfer_from|exception:%s|%s,second-call' % (type(e).__name__, atmclass + sfx),
                                'second transfer_from(%s -> %s, mappings passed in) raised %r' % (s, t, e)))
                    stop = True
                    break
                if rec is not None:
                    rec.count('incon_second_transfers', 1)
                if snapshot(again) != first:
                    out.append(('C19|t2incon.transfer_from|second-call-differs|' + atmclass + sfx,
                                '%s -> %s, %d variables, %s states: a second transfer from the same source gives another '
                                'result' % (s, t, nvar, states)))
                    stop = True
                    break
                if snapshot(inc) != before:
                    out.append(('C19|t2incon.transfer_from|source-altered|%s,second-call' % (atmclass + sfx),
                                '%s -> %s: the source initial conditions changed during the second transfer' % (s, t)))
                    stop = True
                    break
                if mapping != m0 or colmap != c0:
                    out.append(('C19|t2incon.transfer_from|argument-altered|' + atmclass + sfx,
                                '%s -> %s: the mapping dictionaries passed in were modified' % (s, t)))
                    stop = True
                    break
                # each optional mapping argument alone (the other is then made by the library)
                for label, args in (('block-mapping-alone', (mapping,)), ('column-mapping-alone', ({}, colmap))):
                    alone = t2incon()
                    try:
                        with quiet():
                            with core.timelimit(120):
                                alone.transfer_from(inc, src, tgt, *args)
                    except Exception as e:
                        out.append(('C19|t2incon.transfer_from|exception:%s|%s,%s' % (type(e).__name__, atmclass + sfx, label),
                                    'transfer_from(%s -> %s, %s) raised %r' % (s, t, label, e)))
                        stop = True
                        break
                    r = check_incon(alone, before, snapshot(inc), ps, pt, nvar, mp)
                    if r is not None:
                        out.append(('C19|t2incon.transfer_from|%s|%s,%s' % (r[0], r[2] + sfx, label),
                                    '%s -> %s, %s: %s' % (s, t, label, r[1])))
                        stop = True
                        break
                if stop:
                    break
                found = check_result_edit(src, tgt, ps, pt, nvar, states, atmclass, sfx,
                                          '%s -> %s, %d variables, %s states' % (s, t, nvar, states), rec)
                if found:
                    out.extend(found)
                    stop = True
                    break
        if stop:
            break
    if given is not None:
        for nvar in range(1, 6):
            inc = make_incon(ps, nvar)
            before = snapshot(inc)
            new = t2incon()
            try:
                with quiet():
                    with core.timelimit(120):
                        new.transfer_from(inc, src, tgt, given[0], given[1])
            except core.CaseTimeout:
                out.append(('C19|t2incon.transfer_from(mappings given)|timeout|' + atmclass, 'did not return within 120 s'))
                break
            except Exception as e:
                out.append(('C19|t2incon.transfer_from(mappings given)|exception:%s|%s' % (type(e).__name__, atmclass),
                            'transfer_from(%s -> %s, %d variables, mappings given) raised %r' % (s, t, nvar, e)))
                break
            r = check_incon(new, before, snapshot(inc), ps, pt, nvar, mp)
            if rec is not None:
                rec.count('blocks_compared', len(pt['names']))
                rec.count('incon_transfers_with_given_mappings', 1)
            if r is not None:
                out.append(('C19|t2incon.transfer_from(mappings given)|%s|%s' % (r[0], r[2]),
                            '%s -> %s, %d variables: %s' % (s, t, nvar, r[1])))
                break
    return out


HISTORY = ('first', 'second-call', 'translate-source', 'rotate-source', 'translate-target', 'rotate-target')


def run_history_case(case, rec=None):
    """One pair, a history: map; map again (must equal the first); then the source, later the target, is moved IN
    PLACE (translate, rotate) and after every move the mapping and an incon transfer are judged against the
    brute-force reference recomputed from the geometries as they now are."""
    import numpy as np
    from t2incons import t2incon
    s, t, cs, ct = case['s'], case['t'], case['cs'], case['ct']
    base_s, base_t = geometry(s, cs, 0), geometry(t, ct, 0)
    set_atm(base_s, 1)
    set_atm(base_t, 1)
    src, tgt = deep(base_s), deep(base_t)
    out, first = [], None
    for step in HISTORY:
        geo = src if step.endswith('source') else tgt
        with quiet():
            if step.startswith('translate'):
                geo.translate(np.array([1300., -700., 150.]))
            elif step.startswith('rotate'):
                geo.rotate(30.)
        ps, pt = plain(src), plain(tgt)
        mp = mm.Mapper(pt['cols'], pt['lays'], ps['cols'], ps['lays'], ps['scale_xy'], ps['scale_z'])
        cls = 'after=' + step
        try:
            with quiet():
                with core.timelimit(120):
                    mapping, colmap = src.block_mapping(tgt, True)
        except Exception as e:
            out.append(('C19|block_mapping|exception:%s|%s' % (type(e).__name__, cls),
                        'block_mapping(%s -> %s) raised %r' % (s, t, e)))
            break
        if rec is not None:
            rec.count('history_mappings', 1)
        if step == 'first':
            first = (dict(mapping), dict(colmap))
        elif step == 'second-call':
            if (mapping, colmap) != first:
                out.append(('C19|block_mapping|second-call-differs|' + cls,
                            '%s -> %s: a second block_mapping of the same two geometries differs from the first' % (s, t)))
                break
            continue
        same = (step == 'first' and s == t and ps['names'] == pt['names'] and (cs == ct or s in 'IJ'))
        r = check_mapping(mapping, ps, pt, same, mp)
        if r is not None:
            out.append(('C19|block_mapping|%s|%s,%s' % (r[0], r[2], cls), '%s -> %s: %s' % (s, t, r[1])))
            break
        inc = make_incon(ps, 2)
        before = snapshot(inc)
        new = t2incon()
        try:
            with quiet():
                with core.timelimit(120):
                    new.transfer_from(inc, src, tgt)
        except Exception as e:
            out.append(('C19|t2incon.transfer_from|exception:%s|%s' % (type(e).__name__, cls),
                        'transfer_from(%s -> %s) raised %r' % (s, t, e)))
            break
        r = check_incon(new, before, snapshot(inc), ps, pt, 2, mp)
        if rec is not None:
            rec.count('blocks_compared', 2 * len(pt['names']))
        if r is not None:
            out.append(('C19|t2incon.transfer_from|%s|%s,%s' % (r[0], r[2], cls), '%s -> %s: %s' % (s, t, r[1])))
            break
    return out


# ------------------------------------------------------------------- geometries reached through the library's edits

EDIT_OPS = ('rename-column-first', 'rename-column-middle', 'rename-column-last', 'rename-column-cycle',
            'rename-column-reverse', 'rename-column-each', 'rename-layer-atm', 'rename-layer-first',
            'rename-layer-middle', 'rename-layer-last', 'rename-layer-cycle', 'readd-column-first',
            'readd-column-middle', 'readd-columns-reversed', 'delete-column-first', 'delete-column-middle',
            'rename-column-first+readd-column-middle', 'readd-column-first+rename-column-middle')


def fresh_names(existing, width, count):
    """`count` names of the given width, of the kind (digits / letters) the existing ones are, none in use."""
    import itertools
    used = set(existing)
    numeric = all(n.strip().isdigit() for n in existing if n.strip())
    alphabet = '9876543210' if numeric else 'zyxwvutsrqponmlkjihgfedcba'
    out = []
    for tup in itertools.product(alphabet, repeat=width):
        name = ''.join(tup)
        if numeric and name[0] == '0':
            continue
        if name not in used:
            out.append(name)
            if len(out) == count:
                return out
    raise core.HarnessError('no unused name of width %d' % width)


def apply_edit(geo, op):
    """One of the library's own editing operations (or two in a row), in place."""
    for part in op.split('+'):
        cols = [c.name for c in geo.columnlist]
        lays = [l.name for l in geo.layerlist]
        n, kind, which = len(cols), part.rsplit('-', 1)[0], part.rsplit('-', 1)[1]
        pick = {'first': 0, 'middle': n // 2, 'last': n - 1}
        if kind == 'rename-column':
            if which == 'cycle':
                ok = geo.rename_column(cols, cols[1:] + cols[:1])
            elif which == 'reverse':
                ok = geo.rename_column(cols, cols[::-1])
            elif which == 'each':           # one call per column, last column first, each to an unused name
                new = fresh_names(cols, geo.colname_length, n)
                ok = all([geo.rename_column(cols[k], new[k]) for k in reversed(range(n))])
            else:
                ok = geo.rename_column(cols[pick[which]], fresh_names(cols, geo.colname_length, 1)[0])
        elif kind == 'rename-layer':
            m = len(lays)
            if which == 'cycle':            # the layers below the atmosphere layer exchange their names
                ok = geo.rename_layer(lays[1:], lays[2:] + lays[1:2])
            else:
                k = {'atm': 0, 'first': 1, 'middle': m // 2, 'last': m - 1}[which]
                ok = geo.rename_layer(lays[k], fresh_names(lays, geo.layername_length, 1)[0])
        elif kind == 'readd-column':        # taken out and put back: it is then the last column
            col = geo.columnlist[pick[which]]
            geo.delete_column(col.name)
            geo.add_column(col)
            ok = True
        elif kind == 'readd-columns':       # all taken out, put back in the opposite order
            objs = list(geo.columnlist)
            for col in objs:
                geo.delete_column(col.name)
            for col in reversed(objs):
                geo.add_column(col)
            ok = geo.num_columns == n
        elif kind == 'delete-column':
            geo.delete_column(cols[pick[which]])
            ok = True
        else:
            raise core.HarnessError('unknown edit %r' % part)
        if not ok:
            raise core.HarnessError('edit %r was refused by the library' % part)
        geo.setup_block_name_index()
        geo.setup_block_connection_name_index()


_edited = {}


def edited(base, conv, op, slot=0):
    """The base geometry after the edit (slot 1: an equal, separate object).  Only the geometries of one
    (base, convention) are kept; none of the id()-keyed caches is used for them."""
    if base in 'IJ':
        conv = 0
    if _edited.get('of') != (base, conv):
        _edited.clear()
        _edited['of'] = (base, conv)
    key = (op, slot)
    if key not in _edited:
        if slot == 0:
            b = geometry(base, conv, 0)
            set_atm(b, 1)
            geo = deep(b)
            with quiet():
                apply_edit(geo, op)
        else:
            geo = deep(edited(base, conv, op, 0))
        _edited[key] = geo
    return _edited[key]


def edit_partners(base, tier):
    if base in 'IJ':
        return (base, 'A') if tier == 'quick' else (base, 'A', 'B', 'I' if base == 'J' else 'J')
    return (base, 'B', 'C') if tier == 'quick' else (base, 'B', 'C', 'L', 'J')


def edit_cases(base, conv, tier):
    for op in EDIT_OPS:
        yield {'kind': 'edit', 'g': base, 'conv': conv, 'op': op, 'role': 'self', 'partner': base}
        yield {'kind': 'edit', 'g': base, 'conv': conv, 'op': op, 'role': 'copy', 'partner': base}
        for p in edit_partners(base, tier):
            yield {'kind': 'edit', 'g': base, 'conv': conv, 'op': op, 'role': 'as-source', 'partner': p}
            yield {'kind': 'edit', 'g': base, 'conv': conv, 'op': op, 'role': 'as-target', 'partner': p}


def run_edit_case(case, rec=None):
    """A geometry reached through the library's own edits (columns / layers renamed, columns taken out and put
    back) as both sides (the same object; an equal copy: identity), as source and as target of a family geometry
    (its own unedited base included), all 3 x 3 atmosphere types: mapping and a transfer of 2-variable initial
    conditions against the same brute-force reference, computed from the geometry as it now is."""
    from t2incons import t2incon
    base, conv, op, role, partner = case['g'], case['conv'], case['op'], case['role'], case['partner']
    geo = edited(base, conv, op)
    if role == 'self':
        src = tgt = geo
    elif role == 'copy':
        src, tgt = geo, edited(base, conv, op, 1)
    elif role == 'as-source':
        src, tgt = geo, geometry(partner, conv, 0)
    else:
        src, tgt = geometry(partner, conv, 0), geo
    same = role in ('self', 'copy')
    tag = ',geometry=%s,%s' % (op, role)
    label = '%s(%s) %s %s' % (op, base, role, partner)
    out, mp = [], None
    for ats in (0, 1, 2):
        for att in (0, 1, 2):
            if role == 'self' and ats != att:
                continue
            set_atm(src, ats)
            set_atm(tgt, att)
            ps, pt = plain(src), plain(tgt)
            if mp is None:
                mp = mm.Mapper(pt['cols'], pt['lays'], ps['cols'], ps['lays'], ps['scale_xy'], ps['scale_z'])
            atmclass = 'atm %d->%d' % (ats, att)
            try:
                with quiet():
                    with core.timelimit(120):
                        mapping, colmap = src.block_mapping(tgt, True)
            except Exception as e:
                out.append(('C19|block_mapping|exception:%s|%s' % (type(e).__name__, atmclass + tag),
                            'block_mapping(%s) raised %r' % (label, e)))
                continue
            if rec is not None:
                rec.count('edited_geometry_mappings', 1)
                rec.count('blocks_compared', 2 * len(pt['names']))
            r = check_mapping(mapping, ps, pt, same, mp)
            if r is not None:
                out.append(('C19|block_mapping|%s|%s' % (r[0], r[2] + tag), '%s: %s' % (label, r[1])))
                continue
            inc = make_incon(ps, 2)
            before = snapshot(inc)
            new = t2incon()
            try:
                with quiet():
                    with core.timelimit(120):
                        new.transfer_from(inc, src, tgt)
            except Exception as e:
                out.append(('C19|t2incon.transfer_from|exception:%s|%s' % (type(e).__name__, atmclass + tag),
                            'transfer_from(%s) raised %r' % (label, e)))
                continue
            r = check_incon(new, before, snapshot(inc), ps, pt, 2, mp)
            if r is not None:
                out.append(('C19|t2incon.transfer_from|%s|%s' % (r[0], r[2] + tag), '%s: %s' % (label, r[1])))
            elif same:
                # identity on equal grids: every block has the state of the block of its own name
                state = dict((b[0], b) for b in before)
                for b in snapshot(new):
                    if b[0] in pt['under'] and b[1:] != state[b[0]][1:]:
                        out.append(('C19|t2incon.transfer_from|identity|underground' + tag,
                                    '%s: block %r got %r, its own state is %r' % (label, b[0], b[1], state[b[0]][1])))
                        break
    return out


_srcmodels = {}


def run_section_case(case, rec=None):
    """Initial conditions held INSIDE the source model (INCON section) and moved by t2data.transfer_from between
    two geometries: every target block that has an image gets the state of an acceptable image."""
    from t2data import t2data
    from t2grids import t2grid
    s, t, cs, ct, ats, att = case['s'], case['t'], case['cs'], case['ct'], case['ats'], case['att']
    src = geometry(s, cs, 0)
    tgt = geometry(t, ct, 1 if (s == t and (cs == ct or s in 'IJ')) else 0)
    if tgt is src:
        tgt = geometry(t, ct, 1)
    set_atm(src, ats)
    set_atm(tgt, att)
    ps, pt = plain_of(src), plain_of(tgt)
    mp = mapper(src, tgt, ps, pt)
    cls = 'atm %d->%d' % (ats, att)
    key = (id(src), ats)
    with quiet():
        if key not in _srcmodels:
            _srcmodels.clear()
            dat = t2data()
            dat.grid = t2grid().fromgeo(src)
            _srcmodels[key] = dat
        dat = _srcmodels[key]
        dat.incon = {}
        for k, name in enumerate(ps['names']):
            dat.incon[name] = [0.01 + 1e-5 * k, [1000.0 * (k + 1) + 0.5, 1000.0 * (k + 1) + 1.5]]
    before = repr(sorted(dat.incon.items()))
    byvar = dict((tuple(v[1]), n) for n, v in dat.incon.items())
    new = t2data()
    try:
        with quiet():
            with core.timelimit(120):
                new.transfer_from(dat, src, tgt)
    except core.CaseTimeout:
        return [('C19|t2data.transfer_from(INCON section)|timeout|' + cls, 'did not return within 120 s')]
    except Exception as e:
        return [('C19|t2data.transfer_from(INCON section)|exception:%s|%s' % (type(e).__name__, cls),
                 'transfer_from(%s -> %s) of a model with an INCON section raised %r' % (s, t, e))]
    if rec is not None:
        rec.count('incon_section_transfers', 1)
    if repr(sorted(dat.incon.items())) != before:
        return [('C19|t2data.transfer_from(INCON section)|source-altered|' + cls, 'the source model\'s INCON section changed')]
    for name in pt['names']:
        is_atm = name in pt['atm']
        if is_atm and ps['type'] == 2:
            continue                       # no source atmosphere block: nothing is asserted
        inc = new.incon.get(name)
        if inc is None:
            return [('C19|t2data.transfer_from(INCON section)|block-without-state|' + (cls if is_atm else 'underground'),
                     '%s -> %s: target block %r got no initial conditions although every source block has them'
                     % (s, t, name))]
        srcname = byvar.get(tuple(inc[1]))
        if srcname is None or inc[0] != dat.incon[srcname][0]:
            return [('C19|t2data.transfer_from(INCON section)|state|' + cls,
                     '%s -> %s: target block %r got %r, which is no source block\'s state' % (s, t, name, inc))]
        if is_atm:
            ok = srcname in ps['atm'] and (ps['type'] == 0 or pt['type'] == 0 or
                                           ps['atm'][srcname] in mp.near_columns(pt['atm'][name]))
        else:
            li, ci = pt['under'][name]
            ok = srcname in ps['under'] and ps['under'][srcname] in mp.images(li, ci)
        if not ok:
            return [('C19|t2data.transfer_from(INCON section)|state|' + (cls if is_atm else 'underground'),
                     '%s -> %s: target block %r got the state of source block %r, not of its image' % (s, t, name, srcname))]
    return []


def map_cases(s, t, tier):
    cs, ct = conv_pairs(s, t, tier)[0]
    yield {'kind': 'history', 's': s, 't': t, 'cs': cs, 'ct': ct}
    for ats in (0, 1, 2):
        for att in (0, 1, 2):
            yield {'kind': 'section', 's': s, 't': t, 'cs': cs, 'ct': ct, 'ats': ats, 'att': att}
    for cs, ct in conv_pairs(s, t, tier):
        for ats in (0, 1, 2):
            for att in (0, 1, 2):
                yield {'kind': 'map', 's': s, 't': t, 'cs': cs, 'ct': ct, 'ats': ats, 'att': att, 'variant': 'copy', 'full': tier == 'thorough'}
                if s == t and cs == ct and ats == att:
                    yield {'kind': 'map', 's': s, 't': t, 'cs': cs, 'ct': ct, 'ats': ats, 'att': att, 'variant': 'self', 'full': tier == 'thorough'}


# ---------------------------------------------------------------------------------------------- model cases

GEN_KINDS = ('const', 'table', 'etable', 'heat', 'delv')
GEN_POS = ('top-listed', 'top-unlisted', 'bottom-listed', 'bottom-unlisted', 'interior')
CATS = {'top-listed': 'T', 'top-unlisted': 'U', 'bottom-listed': 'B', 'bottom-unlisted': 'V', 'interior': 'W'}


def category(geo, letter, k):
    """A generator-name 'layer part' of the convention's width, distinct per (position, kind)."""
    w = geo.layername_length
    return (letter + str(k)).rjust(w, 'q') if w == 3 else letter + str(k)


def gen_sets():
    singles = [[(p, k)] for p in GEN_POS for k in GEN_KINDS]
    return singles + [[(p, k) for p in GEN_POS for k in GEN_KINDS]]


def make_generator(geo, pos, kind, slot, naming='canon'):
    from t2data import t2generator
    ki = GEN_KINDS.index(kind)
    col = geo.columnlist[(3 * GEN_POS.index(pos) + 5 * ki + slot) % geo.num_columns]
    first = geo.num_layers - col.num_layers
    if pos.startswith('top'):
        lay = geo.layerlist[first]
    elif pos.startswith('bottom'):
        lay = geo.layerlist[-1]
    else:
        lay = geo.layerlist[min(first + 1, geo.num_layers - 2)] if geo.num_layers - first > 2 else geo.layerlist[-1]
    block = geo.block_name(lay.name, col.name)
    cat = category(geo, CATS[pos], ki)
    canon = geo.block_name(cat, col.name)
    if naming == 'canon':
        colpart = col.name
    elif naming == 'othercol':              # the name carries ANOTHER column's name
        colpart = geo.columnlist[(geo.columnlist.index(col) + 1) % geo.num_columns].name
    else:                                   # the name carries no column name at all
        colpart = {2: '99', 3: 'zzz' if geo.convention in (0, 3) else '999'}[geo.colname_length]
        if colpart in geo.column:
            raise core.HarnessError('%r is a column name' % colpart)
    name = geo.block_name(cat, colpart)
    g = t2generator(name=name, block=block)
    g._canon = canon
    base = 1.5 + ki + 0.25 * GEN_POS.index(pos)
    if kind == 'const':
        g.type, g.gx, g.ex = 'MASS', base, 1.2e6
    elif kind == 'table':
        g.type, g.ltab, g.time, g.rate = 'MASS', 3, [0.0, 1.e6, 2.e6], [base, 2 * base, 0.5 * base]
        g.ex = 8.e5
    elif kind == 'etable':
        g.type, g.ltab, g.itab = 'MASS', 3, 'x'
        g.time, g.rate, g.enthalpy = [0.0, 1.e6, 2.e6], [-base, -2 * base, -0.5 * base], [1.e6, 1.1e6, 1.2e6]
    elif kind == 'heat':
        g.type, g.gx = 'HEAT', 1000.0 * base
    else:
        g.type, g.gx, g.ex, g.hg = 'DELV', 1.e-11 * base, 2.e5, 100.0
    return g, cat


def gen_record(g):
    return (g.block, g.name, g.type, g.ltab, g.itab, g.gx, g.ex, g.hg, g.fg,
            tuple(g.time), tuple(g.rate), tuple(g.enthalpy))


_models = {}


def eval_model_case(case):
    from t2data import t2data
    from t2grids import t2grid, rocktype
    gid, conv, atm = case['g'], case['conv'], case['atm']
    src = geometry(gid, conv, 0)
    tgt = geometry(gid, conv, 1)
    set_atm(src, atm)
    set_atm(tgt, atm)
    gset = gen_sets()[case['set']]
    naming = case.get('naming', 'canon')
    label = 'all' if len(gset) > 1 else '%s/%s' % gset[0]
    if naming != 'canon':
        label += ',name=' + naming
    cls = '%s,preserve=%d,rename=%d' % (label, case['preserve'], case['rename'])
    if not (case['preserve'] or case['rename']):
        cls = label
    with quiet():
        dkey = (id(src), atm)
        if dkey not in _models:
            # the source model (grid, rock types) is the same for every generator set: built once
            dat = t2data()
            dat.grid = t2grid().fromgeo(src)
            for rn in ('rock1', 'rock2'):
                dat.grid.add_rocktype(rocktype(rn))
            for k, b in enumerate(dat.grid.blocklist):
                b.rocktype = dat.grid.rocktype[('dfalt', 'rock1', 'rock2')[k % 3]]
            _models.clear()
            _models[dkey] = dat
        dat = _models[dkey]
        dat.clear_generators()
        top, bottom, cats = [], [], []
        want = []
        for slot, (pos, kind) in enumerate(gset):
            g, cat = make_generator(src, pos, kind, slot, naming)
            canon = g._canon
            del g._canon
            if (g.block, g.name) in dat.generator:
                raise core.HarnessError('generator key clash in the model set')
            dat.add_generator(g)
            cats.append(cat)
            # top/bottom generators are named after their column by the transfer, the others only when
            # rename_generators is set (docstring of transfer_generators_from); otherwise the name is kept
            renamed = pos.endswith('-listed') or case['rename']
            r = gen_record(g)
            want.append((r[0], canon if renamed else r[1]) + r[2:])
            if pos == 'top-listed':
                top.append(cat)
            elif pos == 'bottom-listed':
                bottom.append(cat)
    want.sort()
    before = sorted(gen_record(g) for g in dat.generatorlist)
    rocks = dict((b.name, b.rocktype.name) for b in dat.grid.blocklist)
    unlisted = [cat for cat in cats if cat not in top and cat not in bottom]
    primer = case.get('primer')
    nincon = case.get('incon', 0)
    if nincon:
        cls += ',incon-files,nvar=%d' % nincon
    incfiles = (os.path.join(core.scratch(), 'c19src.incon'), os.path.join(core.scratch(), 'c19tgt.incon'))
    new_holder = [None]

    def call(obj, tops, bottoms, omit_empty):
        """transfer_from with the lists given; empty lists are left out (the defaults) when omit_empty."""
        kw = {'rename_generators': bool(case['rename']), 'preserve_generation_totals': bool(case['preserve'])}
        if tops or not omit_empty:
            kw['top_generator'] = tops
        if bottoms or not omit_empty:
            kw['bottom_generator'] = bottoms
        if nincon and obj is new_holder[0]:
            kw['sourceinconfilename'], kw['inconfilename'] = incfiles
        with quiet():
            with core.timelimit(120):
                obj.transfer_from(dat, src, tgt, **kw)

    if primer:
        # order independence: ANOTHER model object first makes a transfer with other top/bottom lists (the categories
        # this case does not list, declared as bottom or as top generators, the other list left at its default); the
        # case itself then runs with its empty lists left at their defaults and must give what it gives in isolation
        cls += ',after=primer-' + primer
        try:
            other = t2data()
            if primer == 'bottom':
                call(other, [], list(unlisted) or ['zz'], True)
            else:
                call(other, list(unlisted) or ['zz'], [], True)
        except Exception:
            pass                     # the primer's own result is another case's business
    new = t2data()
    new_holder[0] = new
    top0, bottom0 = list(top), list(bottom)
    srcinc_state = None
    if nincon:
        # the initial conditions travel in files: source file -> transfer_from -> target file
        psrc = plain_of(src)
        sinc = make_incon(psrc, nincon)
        srcinc_state = dict((b[0], b) for b in snapshot(sinc))
        for f in incfiles:
            if os.path.exists(f):
                os.remove(f)
        with quiet():
            sinc.write(incfiles[0])
        # a model with n primary variables says so in MULTI
        dat.multi = {'num_components': max(nincon - 1, 1), 'num_equations': nincon, 'num_phases': 2,
                     'num_secondary_parameters': 6}
    try:
        try:
            call(new, top, bottom, bool(primer) or bool(case.get('omit')))
        finally:
            dat.multi = {}
    except core.CaseTimeout:
        return [('C19|t2data.transfer_from|timeout|' + cls, 'transfer_from did not return within 120 s')]
    except Exception as e:
        return [('C19|t2data.transfer_from|exception:%s|%s' % (type(e).__name__, cls),
                 'transfer_from onto an identical geometry (%s) raised %r' % (gid, e))]
    if top != top0 or bottom != bottom0:
        return [('C19|t2data.transfer_from|argument-altered|' + cls,
                 'top_generator / bottom_generator passed as %r / %r are %r / %r after the call' % (top0, bottom0, top, bottom))]
    got = sorted(gen_record(g) for g in new.generatorlist)
    out = []
    if nincon:
        from t2incons import t2incon
        try:
            with quiet():
                with core.timelimit(120):
                    tinc = t2incon(incfiles[1], num_variables=nincon)
        except Exception as e:
            return [('C19|t2data.transfer_from|incon-file-unreadable|' + cls, 'reading the written incon file raised %r' % e)]
        names = [b.block for b in tinc]
        if sorted(names) != sorted(srcinc_state):
            out.append(('C19|t2data.transfer_from|incon-file-blocks|' + cls,
                        'transferred incon file has blocks %r..., the (identical) geometry has %d blocks'
                        % (sorted(set(names) ^ set(srcinc_state))[:4], len(srcinc_state))))
        else:
            for b in tinc:
                w = srcinc_state[b.block]
                v = tuple(float(x) for x in b.variable)
                if len(v) != len(w[1]) or any(abs(a - c) > 1e-12 * abs(c) for a, c in zip(v, w[1])) or \
                        abs(b.porosity - w[2]) > 1e-8 * abs(w[2]):
                    out.append(('C19|t2data.transfer_from|incon-file-state|' + cls,
                                'block %r has state %r porosity %r in the transferred file, source %r %r'
                                % (b.block, v, b.porosity, w[1], w[2])))
                    break
    if sorted(gen_record(g) for g in dat.generatorlist) != before:
        out.append(('C19|t2data.transfer_from|source-altered|' + cls, 'the source generators changed'))
    gk, wk = [r[:2] for r in got], [r[:2] for r in want]
    if gk != wk:
        miss = [k for k in wk if k not in gk]
        extra = [k for k in gk if k not in wk]
        clause = 'generator-missing' if miss else 'generator-extra'
        out.append(('C19|t2data.transfer_from|%s|%s' % (clause, cls),
                    'geometry %s: generators (block, name) lost %r, new %r' % (gid, miss[:4], extra[:4])))
    else:
        fields = ('block', 'name', 'type', 'ltab', 'itab', 'gx', 'ex', 'hg', 'fg', 'time', 'rate', 'enthalpy')
        for w, g in zip(want, got):
            bad = None
            for f, a, b in zip(fields, w, g):
                if isinstance(a, float) and isinstance(b, float):
                    same = abs(a - b) <= 1e-12 * abs(a)
                elif isinstance(a, tuple) and isinstance(b, tuple) and len(a) == len(b):
                    same = all(abs(x - y) <= 1e-12 * abs(x) for x, y in zip(a, b))
                else:
                    same = a == b
                if not same:
                    bad = (f, a, b)
                    break
            if bad:
                out.append(('C19|t2data.transfer_from|generator-changed:%s|%s' % (bad[0], cls),
                            'geometry %s: generator %r %s was %r, is %r' % (gid, w[:2], bad[0], bad[1], bad[2])))
                break
        tw, tg = math.fsum(r[5] for r in want), math.fsum(r[5] for r in got)
        if not out and abs(tw - tg) > 1e-12 * abs(tw):
            out.append(('C19|t2data.transfer_from|total-generation|' + cls, 'sum of gx was %r, is %r' % (tw, tg)))
    newrocks = dict((b.name, b.rocktype.name) for b in new.grid.blocklist)
    if not out and newrocks != rocks:
        out.append(('C19|t2data.transfer_from|rocktypes|' + cls, 'rock type assignment changed on an identical geometry'))
    return out


def run_model_case(case):
    """Signature class: the generator set, plus the options only when the failure needs them."""
    found = eval_model_case(case)
    if found and (case['preserve'] or case['rename']):
        plain_case = dict(case, preserve=0, rename=0)
        plain_case.pop('primer', None)
        base = dict((sig.split('|')[2], sig) for sig, _ in eval_model_case(plain_case))
        found = [((base[sig.split('|')[2]], what) if sig.split('|')[2] in base else (sig, what)) for sig, what in found]
    return found


def names_valid(gid, conv, atm):
    from mulgrids import valid_blockname
    geo = geometry(gid, conv, 0)
    set_atm(geo, atm)
    return all(valid_blockname(n) for n in geo.block_name_list)


def model_cases(gid, conv):
    sets = gen_sets()
    for atm in (0, 1, 2):
        for k in range(len(sets)):
            for naming in ('canon', 'othercol', 'nocol'):
                # names that do not carry the block's column: the 'all' set and the const / table singles
                if naming != 'canon' and not (len(sets[k]) > 1 or sets[k][0][1] in ('const', 'table')):
                    continue
                for preserve in (0, 1):
                    for rename in (0, 1):
                        yield {'kind': 'model', 'g': gid, 'conv': conv, 'atm': atm, 'set': k, 'preserve': preserve,
                               'rename': rename, 'naming': naming}
                # the same case with its empty lists left at the defaults, alone and after each primer call
                for primer in (None, 'bottom', 'top'):
                    c = {'kind': 'model', 'g': gid, 'conv': conv, 'atm': atm, 'set': k, 'preserve': 0, 'rename': 0,
                         'naming': naming, 'omit': 1}
                    if primer:
                        c['primer'] = primer
                    yield c
        # initial conditions carried in files (sourceinconfilename / inconfilename), 1..6 primary variables;
        # only where every block name has the form t2incon.read() accepts (mulgrids.valid_blockname)
        if not names_valid(gid, conv, atm):
            continue
        for nv in (1, 2, 4, 5, 6):
            yield {'kind': 'model', 'g': gid, 'conv': conv, 'atm': atm, 'set': len(sets) - 1, 'preserve': 0, 'rename': 0,
                   'naming': 'canon', 'incon': nv}


# ---------------------------------------------------------------------------------------------- driver

def case_key(c):
    return repr(sorted(c.items()))


def run_case(case, rec=None):
    if case['kind'] == 'history':
        return run_history_case(case, rec)
    if case['kind'] == 'section':
        return run_section_case(case, rec)
    if case['kind'] == 'edit':
        return run_edit_case(case, rec)
    if case['kind'] == 'map':
        return run_map_case(case['s'], case['t'], case['cs'], case['ct'], case['ats'], case['att'], case['variant'], rec,
                            bool(case.get('full')))
    return run_model_case(case)


def run_unit(unit, tier, rec):
    n = 0
    if unit[0] == 'map':
        cases = map_cases(unit[1], unit[2], tier)
    elif unit[0] == 'edit':
        cases = edit_cases(unit[1], unit[2], tier)
    else:
        cases = model_cases(unit[1], unit[2])
    for case in cases:
        found = run_case(case, rec)
        if case['kind'] == 'map':
            trivial = (case['s'] == case['t'] and case['cs'] == case['ct'] and case['ats'] == case['att'])
        else:
            trivial = False
        rec.case(case_key(case), nontrivial=not trivial,
                 outcome=('holds' if not found else '+'.join(sorted(set(sig.split('|')[2] for sig, _ in found)))))
        for sig, what in found:
            rec.violation(sig, what, case)
        if n % 211 == 0:
            rec.sample(case)
        n += 1
    rec.count('cases_' + unit[0], n)
    rec.count('units', 1)


def replay(case):
    return run_case(case, None)
